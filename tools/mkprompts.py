#!/venv/bin/python
"""tools/mkprompts.py [--template file] <round dir> <suffix>=<focus file> ... : task files for one round of seeded property-breaking changes.

For every property and every (suffix, focus) one file <round dir>/prompts/<id>_<suffix>.txt is written: the property record, the
focus paragraph, the one-line summaries of every change earlier seeders made for that property (from seeded/*/notes.md; so that
the new change is a different mechanism), and the delivery requirements.  The seeders are given nothing else from /verif.
"""
import json, os, re, sys, glob

HERE = os.path.dirname(os.path.dirname(os.path.abspath(__file__)))


def taken(prop):
    out = []
    for d in sorted(glob.glob(os.path.join(HERE, 'seeded', prop + '*'))):
        p = os.path.join(d, 'notes.md')
        line = None
        if os.path.exists(p):
            t = open(p).read()
            m = re.search(r'Change:\s*(.+?)(?:\n\s*\n|\nWhy it breaks)', t, re.S)
            if m:
                line = ' '.join(m.group(1).split())
        if line is None:
            mp = os.path.join(d, 'meta.json')
            if os.path.exists(mp):
                try:
                    line = json.load(open(mp)).get('summary') or json.load(open(mp)).get('change')
                except Exception:
                    line = None
        if line:
            out.append(line[:300])
    return out


TEMPLATE = open(os.path.join(HERE, 'tools', 'seed_prompt.tmpl')).read()


def main():
    args = sys.argv[1:]
    template = TEMPLATE
    if '--template' in args:                      # e.g. tools/benign_prompt.tmpl (negative controls)
        i = args.index('--template')
        template = open(args[i + 1]).read()
        del args[i:i + 2]
    rdir = args[0]
    foci = dict(a.split('=', 1) for a in args[1:])
    os.makedirs(os.path.join(rdir, 'prompts'), exist_ok=True)
    os.makedirs(os.path.join(rdir, 'out'), exist_ok=True)
    os.makedirs(os.path.join(rdir, 'res'), exist_ok=True)
    props = [json.loads(l) for l in open(os.path.join(HERE, 'properties.jsonl')) if l.strip()]
    for pr in props:
        tk = taken(pr['id'])
        for suf, ff in foci.items():
            focus = open(ff).read().strip() if ff else ''
            ident = '%s_%s' % (pr['id'], suf)
            t = template
            t = t.replace('@WT@', '%s/wt_%s' % (rdir, ident)).replace('@OUT@', '%s/out/%s' % (rdir, ident))
            t = t.replace('@RDIR@', rdir).replace('@ID@', pr['id'])
            t = t.replace('@PROPERTY@', json.dumps(pr, indent=1))
            t = t.replace('@FOCUS@', ('FOCUS FOR THIS TASK: ' + focus + '\n\n') if focus else '')
            t = t.replace('@TAKEN@', '\n'.join(' - ' + x for x in tk) if tk else ' (none)')
            open(os.path.join(rdir, 'prompts', ident + '.txt'), 'w').write(t)
    print(len(props) * len(foci), 'task files in', os.path.join(rdir, 'prompts'))


if __name__ == '__main__':
    main()
