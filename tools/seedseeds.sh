#!/bin/sh
# tools/seedseeds.sh <outdir> <seed> [ids...] : every seeded change against its own property's quick check under another seed
# (a change that is only reported under some seeds is reported by chance: the generator needs a deterministic shape for it)
out="$1"; seed="$2"; shift; shift
cd "$(dirname "$0")/.." || exit 2
mkdir -p "$out"
ids="$@"
[ -z "$ids" ] && ids=$(ls seeded | grep -v INDEX)
for id in $ids; do
  prop=$(echo $id | cut -c1-3)
  tools/seedrun.py seeded/$id $prop --skip-tests --seed $seed > "$out/$id.s$seed.json" 2>&1
  echo "$id seed $seed done"
done
