#!/venv/bin/python
"""Write seeded/<id>/meta.json and seeded/INDEX.md from the validation results.

    tools/seedindex.py <dir with <id>.json written by tools/seedrun.py / tools/seedmatrix.sh> [<dir with first-pass results>]

Every seeded change was produced by a fresh sub-agent that saw only the property text and a scratch
worktree; it was then re-validated here (demo exits 0 on the unchanged tree and != 0 with the patch,
the repository's 45 tests still pass with the patch) before being kept.
"""
import json
import os
import sys

VERIF = os.path.dirname(os.path.dirname(os.path.abspath(__file__)))

# id -> (what the change is, what it needs in order to manifest)
DESCR = {
    'C01a': ('process_associated_field reads only the innermost 204 width instead of the sum', 'a 204YYY nested inside another 204YYY still in force'),
    'C01b': ('235000 no longer clears the back-referenced descriptors', 'a bitmap block, then 235000, new elements and a second bitmap block with markers'),
    'C02a': ('Encoder.define_bitmap takes every subset\'s bitmap from subset 0', 'uncompressed message, >= 2 subsets, bitmaps differing per subset, marker operator'),
    'C02b': ('compressed all-equal test ignores missing entries (minmax skips None)', 'compressed column whose present values are identical with >= 1 missing'),
    'C03a': ('integer inputs scaled with int(scale_powered) - 0 for negative scales', 'uncompressed, negative effective scale, value supplied as int'),
    'C03b': ('write_uint writes a binary string without range check', 'a scaled value >= 2^nbits (just beyond the field range)'),
    'C04a': ('16-bit section alignment chosen with edition == 3 instead of <= 3', 'encoding an edition-2 message from scratch'),
    'C04b': ('total length computed from a running count that misses zero-fill of over-declared sections', 'ignore_declared_length=False and a section declared longer than its content'),
    'C05a': ('compressed all-equal/all-missing derived from minmax (skips None)', 'compressed column with identical present values and >= 1 missing'),
    'C05b': ('1-bit guard dropped from the compressed code/flag missing check', 'compressed, 1-bit code/flag-path field (204001, 206001, 031031) with 0/1 mixed across subsets'),
    'C06a': ('per-subset reset replaced by cancel_bitmap() (back references survive)', 'uncompressed, >= 2 subsets, bitmap after a delayed replication whose count differs per subset'),
    'C06b': ('wire() initialises operator-tracking fields once, outside the per-subset loop', 'uncompressed, >= 2 subsets, template ending inside 222000/204 construct'),
    'C07a': ('235000 no longer clears the back-referenced descriptors', '235000 followed by new elements and a new bitmap of the same length'),
    'C07b': ('Encoder.define_bitmap reads the bits of subset 0 for every uncompressed subset', 'encoding an uncompressed message with >= 2 subsets whose bitmaps differ'),
    'C08a': ('compiled-template cache key drops the master table version', 'one coder with cache >= 1, two messages with identical descriptors under versions defining an element differently'),
    'C08b': ('CompilerState.cancel_new_refvals no longer clears the compile-time dict', '203YYY define, 203000 cancel, then the same element used again'),
    'C09a': ('wire_members decrements the 221 counter only for element descriptors', 'a 221YYY span covering a sequence, replication or operator descriptor'),
    'C09b': ('flat text label padded with ljust (no truncation) - value leaves column 81', 'element name longer than 67 characters (57 on attribute lines)'),
    'C10a': ('subset() indexes rows in caller order (keeps repeats)', 'index collection that is not strictly ascending, or has repeats'),
    'C10b': ('compressed numeric column with max == min written with width 0', 'compressed message + selection leaving a column of one value plus missing'),
    'C11a': ('info-only end-of-message section no longer skipped to its declared end', 'filter + full decode + rejected message whose payload contains BUFR'),
    'C11b': ('MetadataQuerent caches the list position of a name', 'filter on section-3 metadata over a stream mixing messages with/without section 2'),
    'C12a': ('overrun check moved before the read (template_data not counted)', 'section 4 length decreased, data ending on an octet boundary without padding'),
    'C12b': ('BitReadError ends the whole continue-on-error scan', 'damaged length in a non-final message that drives a read past the end of the stream'),
    'C13a': ('compiled-template cache key uses only tables_root_dir', 'same coder, compilation on, identical descriptors under two differing table versions'),
    'C13b': ('ignore_value_expectation mutates the decoder\'s shared section definitions (shallow copy)', 'a lenient decode followed by a strict decode of a message with a damaged signature, same Decoder'),
    'C14a': ('local-table fall-back probes 0_<subcentre> instead of <centre>_0', 'bundled centre with unbundled sub-centre, or local version equal to a master version number'),
    'C14b': ('221 skip path taken for any F==0 descriptor incl. undefined ones', 'an element in no table, class outside 1-9/31, inside a 221YYY range'),
    'C15a': ('current_slice_elements reset moved from reset() to __init__', 'one long-lived parser: a rejected string that collected slice indices, then a valid one'),
    'C15b': ('\'@\' recognised on the raw string before stripping', 'valid expression with whitespace before the subset selector (>= 7 characters)'),
    'C16a': ('document-order sort skipped when no composite nodes were kept', 'negative-step slice on an ID matching >= 2 siblings'),
    'C16b': ('loop over replication blocks breaks at the first empty block', 'nested replication: earlier outer block with inner count 0, later block > 0'),
    'C17a': ('section filter uses `if section_index:` (0 is falsy)', 'explicit index 0 with a name section 0 does not hold'),
    'C17b': ('rpartition-based parse treats an empty index as no index', 'expression %.name'),
    'C18a': ('quote handling forgets the comment state', 'a comment containing a quote character followed by ${...}'),
    'C18b': ('level 0 takes the first element of the first subset\'s list', 'multi-subset message, queried element absent from the first subset, nest level 0'),
    'C19a': ('set_uint picks the integer format by bit position instead of width', 'overwrite at an octet-aligned position with a width not multiple of 8'),
    'C19b': ('write_int merged into one write_uint (range check on n instead of n-1 bits)', 'magnitude in [2^(n-1), 2^n)'),
    'C20a': ('NCEP repair no longer descends into replications that already have members', 'replication with explicit members over a sequence containing a replication-only sequence'),
    'C20b': ('table-group cache invalidated only when the number of extra entries grew', 'a later definition message that only redefines earlier ids'),
}


def load(p):
    t = open(p).read()
    i = t.find('{')
    return json.loads(t[i:]) if i >= 0 else None


def main(argv):
    mdir = argv[0]
    first = argv[1] if len(argv) > 1 else None
    rows = []
    for sid in sorted(os.listdir(os.path.join(VERIF, 'seeded'))):
        d = os.path.join(VERIF, 'seeded', sid)
        if not os.path.isdir(d):
            continue
        res = None
        p = os.path.join(mdir, sid + '.json')
        if os.path.exists(p):
            try:
                res = load(p)
            except Exception:
                res = None
        f = None
        if first:
            p1 = os.path.join(first, sid + '.json')
            if os.path.exists(p1):
                try:
                    f = load(p1)
                except Exception:
                    f = None
        what, needs = DESCR.get(sid, ('', ''))
        meta = dict(id=sid, property=sid[:3], change=what, needs_to_manifest=needs,
                    produced_by='fresh sub-agent given only the property text and its own scratch worktree',
                    files=['patch.diff', 'demo.py', 'notes.md'])
        ran = {}
        src = f or res
        if src:
            ran['demo_on_unchanged_tree_rc'] = src.get('demo_unchanged_rc')
            ran['demo_with_patch_rc'] = src.get('demo_changed_rc')
            if 'tests_rc' in src:
                ran['repository_tests_with_patch'] = src.get('tests_tail')
            if f is not None:
                ran['target_check_first_pass'] = 'caught' if f.get('caught_by') else 'MISSED (check strengthened afterwards)'
        if res and 'checks' in res:
            ran['command'] = 'tools/seedrun.py seeded/%s %s --checks all  (scratch worktree of /repo + git apply, VERIF_REPO=<scratch>)' % (sid, sid[:3])
            ran['caught_by'] = res.get('caught_by', [])
            ran['inconclusive'] = res.get('inconclusive', [])
            ran['signatures'] = {c: v['first'].split(' sig=')[-1].split(' n=')[0] for c, v in res['checks'].items() if v.get('first')}
        meta['ran'] = ran
        with open(os.path.join(d, 'meta.json'), 'w') as fh:
            json.dump(meta, fh, indent=1)
        rows.append((sid, what, needs, ran))
    with open(os.path.join(VERIF, 'seeded', 'INDEX.md'), 'w') as fh:
        fh.write('# Seeded breaks and the checks that catch them\n\n')
        fh.write('Each change was written by a fresh sub-agent that saw only the property text; each keeps the repository\'s\n'
                 '45 tests green. "first pass" = whether the property\'s own check (quick tier) caught it before any\n'
                 'strengthening; "caught by" = quick-tier checks reporting VIOLATION now (`tools/seedmatrix.sh`).\n\n')
        fh.write('| id | change | needs | first pass | caught by (quick) |\n|----|--------|-------|-----------|-------------------|\n')
        for sid, what, needs, ran in rows:
            fh.write('| %s | %s | %s | %s | %s |\n' % (sid, what, needs, ran.get('target_check_first_pass', '-').split(' ')[0],
                                                   ', '.join(ran.get('caught_by', [])) or '-'))
    print('wrote %d meta.json files and seeded/INDEX.md' % len(rows))


if __name__ == '__main__':
    main(sys.argv[1:])
