#!/venv/bin/python
"""Write seeded/<id>/meta.json and seeded/INDEX.md from the validation results.

    tools/seedindex.py <dir with <id>.json written by tools/seedrun.py / tools/seedmatrix.sh> [<dir with first-pass results>]

Every seeded change was produced by a fresh sub-agent that saw only the property text and a scratch
worktree; it was then re-validated here (demo exits 0 on the unchanged tree and != 0 with the patch,
the repository's 45 tests still pass with the patch) before being kept.
"""
import json
import os
import sys

VERIF = os.path.dirname(os.path.dirname(os.path.abspath(__file__)))

# id -> (what the change is, what it needs in order to manifest)
DESCR = {
    'C01a': ('process_associated_field reads only the innermost 204 width instead of the sum', 'a 204YYY nested inside another 204YYY still in force'),
    'C01b': ('235000 no longer clears the back-referenced descriptors', 'a bitmap block, then 235000, new elements and a second bitmap block with markers'),
    'C02a': ('Encoder.define_bitmap takes every subset\'s bitmap from subset 0', 'uncompressed message, >= 2 subsets, bitmaps differing per subset, marker operator'),
    'C02b': ('compressed all-equal test ignores missing entries (minmax skips None)', 'compressed column whose present values are identical with >= 1 missing'),
    'C03a': ('integer inputs scaled with int(scale_powered) - 0 for negative scales', 'uncompressed, negative effective scale, value supplied as int'),
    'C03b': ('write_uint writes a binary string without range check', 'a scaled value >= 2^nbits (just beyond the field range)'),
    'C04a': ('16-bit section alignment chosen with edition == 3 instead of <= 3', 'encoding an edition-2 message from scratch'),
    'C04b': ('total length computed from a running count that misses zero-fill of over-declared sections', 'ignore_declared_length=False and a section declared longer than its content'),
    'C05a': ('compressed all-equal/all-missing derived from minmax (skips None)', 'compressed column with identical present values and >= 1 missing'),
    'C05b': ('1-bit guard dropped from the compressed code/flag missing check', 'compressed, 1-bit code/flag-path field (204001, 206001, 031031) with 0/1 mixed across subsets'),
    'C06a': ('per-subset reset replaced by cancel_bitmap() (back references survive)', 'uncompressed, >= 2 subsets, bitmap after a delayed replication whose count differs per subset'),
    'C06b': ('wire() initialises operator-tracking fields once, outside the per-subset loop', 'uncompressed, >= 2 subsets, template ending inside 222000/204 construct'),
    'C07a': ('235000 no longer clears the back-referenced descriptors', '235000 followed by new elements and a new bitmap of the same length'),
    'C07b': ('Encoder.define_bitmap reads the bits of subset 0 for every uncompressed subset', 'encoding an uncompressed message with >= 2 subsets whose bitmaps differ'),
    'C08a': ('compiled-template cache key drops the master table version', 'one coder with cache >= 1, two messages with identical descriptors under versions defining an element differently'),
    'C08b': ('CompilerState.cancel_new_refvals no longer clears the compile-time dict', '203YYY define, 203000 cancel, then the same element used again'),
    'C09a': ('wire_members decrements the 221 counter only for element descriptors', 'a 221YYY span covering a sequence, replication or operator descriptor'),
    'C09b': ('flat text label padded with ljust (no truncation) - value leaves column 81', 'element name longer than 67 characters (57 on attribute lines)'),
    'C10a': ('subset() indexes rows in caller order (keeps repeats)', 'index collection that is not strictly ascending, or has repeats'),
    'C10b': ('compressed numeric column with max == min written with width 0', 'compressed message + selection leaving a column of one value plus missing'),
    'C11a': ('info-only end-of-message section no longer skipped to its declared end', 'filter + full decode + rejected message whose payload contains BUFR'),
    'C11b': ('MetadataQuerent caches the list position of a name', 'filter on section-3 metadata over a stream mixing messages with/without section 2'),
    'C12a': ('overrun check moved before the read (template_data not counted)', 'section 4 length decreased, data ending on an octet boundary without padding'),
    'C12b': ('BitReadError ends the whole continue-on-error scan', 'damaged length in a non-final message that drives a read past the end of the stream'),
    'C13a': ('compiled-template cache key uses only tables_root_dir', 'same coder, compilation on, identical descriptors under two differing table versions'),
    'C13b': ('ignore_value_expectation mutates the decoder\'s shared section definitions (shallow copy)', 'a lenient decode followed by a strict decode of a message with a damaged signature, same Decoder'),
    'C14a': ('local-table fall-back probes 0_<subcentre> instead of <centre>_0', 'bundled centre with unbundled sub-centre, or local version equal to a master version number'),
    'C14b': ('221 skip path taken for any F==0 descriptor incl. undefined ones', 'an element in no table, class outside 1-9/31, inside a 221YYY range'),
    'C15a': ('current_slice_elements reset moved from reset() to __init__', 'one long-lived parser: a rejected string that collected slice indices, then a valid one'),
    'C15b': ('\'@\' recognised on the raw string before stripping', 'valid expression with whitespace before the subset selector (>= 7 characters)'),
    'C16a': ('document-order sort skipped when no composite nodes were kept', 'negative-step slice on an ID matching >= 2 siblings'),
    'C16b': ('loop over replication blocks breaks at the first empty block', 'nested replication: earlier outer block with inner count 0, later block > 0'),
    'C17a': ('section filter uses `if section_index:` (0 is falsy)', 'explicit index 0 with a name section 0 does not hold'),
    'C17b': ('rpartition-based parse treats an empty index as no index', 'expression %.name'),
    'C18a': ('quote handling forgets the comment state', 'a comment containing a quote character followed by ${...}'),
    'C18b': ('level 0 takes the first element of the first subset\'s list', 'multi-subset message, queried element absent from the first subset, nest level 0'),
    'C19a': ('set_uint picks the integer format by bit position instead of width', 'overwrite at an octet-aligned position with a width not multiple of 8'),
    'C19b': ('write_int merged into one write_uint (range check on n instead of n-1 bits)', 'magnitude in [2^(n-1), 2^n)'),
    'C20a': ('NCEP repair no longer descends into replications that already have members', 'replication with explicit members over a sequence containing a replication-only sequence'),
    'C20b': ('table-group cache invalidated only when the number of extra entries grew', 'a later definition message that only redefines earlier ids'),
    # ---- second round (seeders were told what the first round had done and asked for other mechanisms/sites)
    'C01c': ('switch_subset_context no longer resets scale_offset', 'uncompressed, >= 2 subsets, 202YYY still in force at the end of the template, numeric element before it'),
    'C01d': ('MarkerDescriptor memoised per (element id, marker id) across table versions', 'marker on element E under version V1, then under V2 where E\'s Table B entry differs, same process'),
    'C02c': ('edition <= 3 even-octet padding decided from the floor count of whole octets', 'edition 2/3 and a data section whose bit length is not a multiple of 8'),
    'C02d': ('all-missing compressed numeric column uses the Table B width for the all-ones minimum', 'compressed, numeric element under 201/207, missing in every subset'),
    'C03c': ('same all-missing width slip as C02d', 'compressed, 201/207 in force, element missing in every subset'),
    'C03d': ('compiled statements apply recorded state properties only if truthy', 'compiled mode on one side; two markers, operator on the earlier one cancelled before the later'),
    'C04c': ('too-short non-zero declared section length silently recomputed', 'ignore_declared_length=False, a section declared shorter than its content, total 0 or exact'),
    'C04d': ('reader.skip() by seeking + `if nbits_unread:` lets a negative remainder rewind', 'data section declared short with consistent framing (7777 after the declared end, total agrees, bytes follow)'),
    'C05c': ('compressed character increments written at the longest string\'s width', 'compressed, >= 2 subsets, differing strings all shorter than the field'),
    'C05d': ('compressed bitmap_links_all_subsets no longer aliases one dict', 'compressed, >= 2 subsets, bitmap block, looking at links of a subset other than the first'),
    'C06c': ('MarkerDescriptor memo keyed by flat index survives the subset switch', 'uncompressed, >= 2 subsets, marker operator, delayed replication before the bitmap with differing counts'),
    'C06d': ('wire() reuses the previous subset\'s node tree when descriptors compare equal', 'uncompressed, consecutive subsets with identical layout whose bitmaps select different elements'),
    'C07c': ('225255 reference = element reference - 2^width', '225255 on an owner with non-zero Table B reference value'),
    'C07d': ('MarkerDescriptor memo keyed without the table group', 'two messages of different table versions with a marker on an element defined differently'),
    'C08c': ('compiler drops the reset for a bitmap given as explicit 031031 list', 'two bitmap definitions in one subset, the second an explicit list'),
    'C08d': ('marker statements record operator state only when an operator is in force', 'two markers in one subset, first under 201/202/207/208, second after cancellation'),
    'C09c': ('nested-text converter strips dots but not the blanks after them', 'bitmap pointing at a replication factor, conversion through nested text'),
    'C09d': ('wiring treats 204000 as "cancel all" instead of pop', 'nested 204 with a nested rendering'),
    'C10c': ('Encoder.define_bitmap uses subset 0\'s bits', 'subset of an uncompressed message keeping >= 2 subsets with different bitmaps and markers'),
    'C10d': ('write_int writes two\'s complement', 'template with 203YYY and a negative new reference value'),
    'C11c': ('info-only serialized_bytes from declared length only without filter', 'info_only=True together with filter_expr'),
    'C11d': ('repeated ${..} bound to the most recently created variable', 'filter reusing an earlier expression after a different one'),
    'C12c': ('except Exception narrowed to a tuple without AttributeError', 'undefined element substituted at a delayed-replication factor slot / misaligned descriptor list'),
    'C12d': ('ignore_value_expectation mutates shared section definitions', 'reused Decoder after one lenient decode, then a stream with a damaged stop signature'),
    'C13c': ('table-group cache eviction loop shadows the requested key', 'cache at its limit (50 groups or limit forced small) and an uncached group requested'),
    'C13d': ('nbits_of_associated became a class attribute', 'a compressed 204 message whose processing ends while 204 is in force (failure or open 204), then any compressed message'),
    'C14c': ('compiled cache key built from top-level members only', 'one compiled coder, two lists differing only inside a top-level replication'),
    'C14d': ('original_descriptor_ids expands sequences inside replications', 'a sequence descriptor owned by a top-level replication'),
    'C15c': ('parsed-path memo filled before parsing succeeds', 'the same invalid string presented twice to one parser'),
    'C15d': ('slice element pre-check strips every leading minus', 'slice element of two or more minus signs followed by digits (length >= 6)'),
    'C16c': ('zero-members early return moved into the separator dispatcher', 'attribute step onto the factor of a zero-count delayed replication'),
    'C16d': ('slice-element reset moved to __init__', 'a malformed path rejected mid-slice, then a valid query on the same querent'),
    'C17c': ('info_configuration drops end_of_message', 'info-only decode of a message whose damage reaches section 4\'s length octets or the tail'),
    'C17d': ('table-definition step also runs in info-only scans', 'info-only stream scan over a data_category 11 message'),
    'C18c': ('all_values(flat=True) iterates sorted subset indices', 'embedded query with a negative-step subset slice on >= 2 subsets'),
    'C18d': ('default pragma dict shared by all runners', 'several runners built before being run, or a default runner after one that set a level'),
    'C19c': ('merged exception handlers use e.msg for ValueError', 'bool / signed-int read exactly at the end of the stream'),
    'C19d': ('missing-value check bounded by nbits < 64', '64-bit field of all ones through read_uint_or_none'),
    'C20c': ('first value after Table A taken at a fixed offset of 3', 'definition message with a Table A count other than 1'),
    'C20d': ('extra entries appended only when there are no local tables', 'data message whose header selects bundled local tables (e.g. centre 98, local version 1)'),
}


NOT_CLAIMED = {
    'C03_r12f': 'compressed character columns written with increments as narrow as the longest value: a legal FM-94 layout (sample pgps_110), values equal after blank padding, fixpoint clauses hold',
    'C20_r12f': 'made template compilation the default of `pybufrkit decode`, which exposed a GENUINE defect of the unchanged tree (stale compiled template after a re-definition message); repaired by fix 779fc27 - with the fix this change no longer breaks anything; the pre-fix tree is reported by C20 (variant `compiling`)',
    'C07_r7e': 'ill-formed message (shorter second bitmap without 235000): FM-94 designates nothing, the unchanged library refuses it',
    'C09_r7e': 'needs a message whose wiring raises; only known shape is on the grey list (class 33 after a completed quality run)',
    'C19_r7e': 'writer state after a refused write is not part of the statement; reported as ADVISORY probe only',
}


STALE_ON_HEAD = ('C08_r10a', 'C08_r11p', 'C08_r4y', 'C13_r8f', 'C14_r7e')


def base_commit(sid):
    """the /repo commit the change was written against (tools/seedrun.py builds its scratch worktree there when the patch no longer
    applies on HEAD): rounds 1-12 precede fix 779fc27, which rewrote CompiledTemplateManager.get_or_compile"""
    return '779fc27' if sid.endswith('_r13u') or '_r14' in sid else 'e2a4af4'


def from_notes(d):
    """(change, needs) taken from the seeder's own notes.md when no hand-written description exists"""
    import re
    try:
        t = open(os.path.join(d, 'notes.md')).read()
    except Exception:
        return '', ''

    def part(names):
        for nm in names:
            m = re.search(r'(?:^|\n)[-* ]*\**%s[^:\n]*:\**\s*(.*?)(?=\n[-* ]*\**(?:Why|Needed|What is needed|What it needs|Verified|Ran|Demo|Still|Effect)[^\n]*:|\Z)' % nm, t, re.S | re.I)
            if m:
                return ' '.join(m.group(1).replace('|', '/').split())[:260]
        return ''
    return part(['Change']), part(['Needed to manifest', 'What is needed', 'What it needs', 'Needed'])


def load(p):
    t = open(p).read()
    i = t.find('{')
    return json.loads(t[i:]) if i >= 0 else None


def main(argv):
    mdir = argv[0]
    firsts = argv[1:]
    rows = []
    for sid in sorted(os.listdir(os.path.join(VERIF, 'seeded'))):
        d = os.path.join(VERIF, 'seeded', sid)
        if not os.path.isdir(d) or sid.startswith('.'):
            continue
        res = None
        p = os.path.join(mdir, sid + '.json')
        if os.path.exists(p):
            try:
                res = load(p)
            except Exception:
                res = None
        f = None
        for first in firsts:
            p1 = os.path.join(first, sid + '.json')
            if os.path.exists(p1):
                try:
                    f = load(p1)
                except Exception:
                    f = None
        mp = os.path.join(d, 'meta.json')
        if res is None and f is None and os.path.exists(mp):
            # no new result for this change in the given directories: its meta.json (written from an earlier validation) stays
            try:
                old = json.load(open(mp))
                if 'base_commit' not in old:
                    old['base_commit'] = base_commit(sid)
                    json.dump(old, open(mp, 'w'), indent=1)
                rows.append((sid, old.get('change', ''), old.get('needs_to_manifest', ''), old.get('ran', {})))
                continue
            except Exception:
                pass
        what, needs = DESCR.get(sid, ('', ''))
        if not what:
            what, needs = from_notes(d)
        meta = dict(id=sid, property=sid[:3], change=what, needs_to_manifest=needs,
                    base_commit=base_commit(sid),
                    produced_by='fresh sub-agent given only the property text and its own scratch worktree',
                    files=['patch.diff', 'demo.py', 'notes.md'])
        ran = {}
        src = f or res
        if src:
            ran['demo_on_unchanged_tree_rc'] = src.get('demo_unchanged_rc')
            ran['demo_with_patch_rc'] = src.get('demo_changed_rc')
            if 'tests_rc' in src:
                ran['repository_tests_with_patch'] = src.get('tests_tail')
            if f is not None:
                ran['target_check_first_pass'] = 'caught' if f.get('caught_by') else 'MISSED (check strengthened afterwards)'
        if res and 'checks' in res:
            ran['command'] = 'tools/seedrun.py seeded/%s %s --checks %s  (scratch worktree of /repo + git apply, VERIF_REPO=<scratch>)' % (sid, sid[:3], ','.join(sorted(res['checks'])))
            ran['caught_by'] = res.get('caught_by', [])
            ran['inconclusive'] = res.get('inconclusive', [])
            ran['signatures'] = {c: v['first'].split(' sig=')[-1].split(' n=')[0] for c, v in res['checks'].items() if v.get('first')}
        if sid in NOT_CLAIMED:
            ran['not_claimed'] = NOT_CLAIMED[sid]
        meta['ran'] = ran
        with open(os.path.join(d, 'meta.json'), 'w') as fh:
            json.dump(meta, fh, indent=1)
        rows.append((sid, what, needs, ran))
    with open(os.path.join(VERIF, 'seeded', 'INDEX.md'), 'w') as fh:
        fh.write('# Seeded breaks and the checks that catch them\n\n')
        fh.write('Each change was written by a fresh sub-agent that saw only the property text; each keeps the repository\'s\n'
                 '45 tests green. "first pass" = whether the property\'s own check (quick tier) caught it before any\n'
                 'strengthening; "caught by" = quick-tier checks reporting VIOLATION now (`tools/seedmatrix.sh`).\n\n')
        fh.write('Patches apply on the /repo commit named as `base_commit` in their meta.json (rounds 1-12: e2a4af4, rounds 13-14: 779fc27). After fix '
                 '779fc27 rewrote `CompiledTemplateManager.get_or_compile`, these no longer apply on HEAD and are run on their base commit: '
                 + ', '.join(STALE_ON_HEAD) + '.\n\n')
        fh.write('| id | change | needs | first pass | caught by (quick) |\n|----|--------|-------|-----------|-------------------|\n')
        for sid, what, needs, ran in rows:
            fh.write('| %s | %s | %s | %s | %s |\n' % (sid, what, needs, ran.get('target_check_first_pass', '-').split(' ')[0],
                                                   ', '.join(ran.get('caught_by', [])) or ('not claimed: ' + ran['not_claimed'] if ran.get('not_claimed') else '-')))
    print('wrote %d meta.json files and seeded/INDEX.md' % len(rows))


if __name__ == '__main__':
    main(sys.argv[1:])
