#!/bin/sh
# tools/roundeval.sh <round dir> <id> [extra seedrun args] : validate one delivered change of a round (demo both ways, repository
# tests with the patch, the property's own quick check) and keep the result as <round dir>/res/<id>.json  (first-pass result)
rd="$1"; id="$2"; shift; shift
cd "$(dirname "$0")/.." || exit 2
prop=$(echo $id | cut -c1-3)
tools/seedrun.py $rd/out/$id $prop "$@" > $rd/res/$id.json 2>&1
/venv/bin/python - "$rd/res/$id.json" "$id" <<'PY'
import json, sys
t = open(sys.argv[1]).read()
try:
    r = json.loads(t[t.find('{'):])
except Exception:
    print(sys.argv[2], 'UNREADABLE', t[-300:]); sys.exit(0)
print(sys.argv[2], 'demo', r.get('demo_unchanged_rc'), r.get('demo_changed_rc'), 'tests', r.get('tests_tail'), 'caught_by', r.get('caught_by'), 'inconclusive', r.get('inconclusive'))
for c, v in (r.get('checks') or {}).items():
    if v.get('first'):
        print('   ', c, v['first'][:230])
PY
