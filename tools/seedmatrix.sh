#!/bin/sh
# tools/seedmatrix.sh <outdir> [ids...] : run every check (quick) against every seeded change
out="$1"; shift
cd "$(dirname "$0")/.." || exit 2
mkdir -p "$out"
ids="$@"
[ -z "$ids" ] && ids=$(ls seeded | grep -v INDEX)  # hidden dirs are not listed
for id in $ids; do
  prop=$(echo $id | cut -c1-3)
  tools/seedrun.py seeded/$id $prop --checks all --skip-tests > "$out/$id.json" 2>&1
  echo "$id done"
done
