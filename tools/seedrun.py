#!/venv/bin/python
"""Validate one seeded break and run the checks against it.

    tools/seedrun.py <dir with patch.diff + demo.py> <property id> [--checks C01,C07|all] [--tier quick]

Steps (all in a scratch worktree of /repo under /tmp, removed afterwards):
  1. git worktree add; demo.py on the unchanged tree must exit 0
  2. git apply patch.diff; the repository's own test suite must still pass; demo.py must exit != 0
  3. run the requested checks with VERIF_REPO=<scratch> and record which report VIOLATION
Prints a JSON summary (also usable as seeded/<id>/meta.json 'ran' section).
"""
import json
import os
import re
import shutil
import subprocess
import sys
import time

VERIF = os.path.dirname(os.path.dirname(os.path.abspath(__file__)))
PY = '/venv/bin/python'
ALL = ['C%02d' % i for i in range(1, 21)]


def sh(cmd, cwd=None, env=None, timeout=1800):
    p = subprocess.run(cmd, cwd=cwd, env=env, capture_output=True, timeout=timeout)
    return p.returncode, (p.stdout + p.stderr).decode('latin-1')


def main(argv):
    d = os.path.abspath(argv[0])
    prop = argv[1]
    checks = [prop]
    tier = 'quick'
    skip_tests = False
    seed = None
    i = 2
    while i < len(argv):
        if argv[i] == '--checks':
            checks = ALL if argv[i + 1] == 'all' else argv[i + 1].split(',')
            i += 2
        elif argv[i] == '--tier':
            tier = argv[i + 1]
            i += 2
        elif argv[i] == '--skip-tests':
            skip_tests = True
            i += 1
        elif argv[i] == '--seed':
            seed = argv[i + 1]
            i += 2
        else:
            i += 1
    tag = re.sub(r'[^A-Za-z0-9]', '_', d)[-40:]
    wt = '/tmp/sv_%s_%d' % (tag, os.getpid())
    res = dict(dir=d, property=prop, tier=tier, seed=seed)
    base = 'HEAD'
    try:
        # a change written against an earlier /repo commit whose patch no longer applies on HEAD runs on that commit
        mj = json.load(open(os.path.join(d, 'meta.json')))
        if mj.get('base_commit'):
            rcx, _ = sh(['git', '-C', '/repo', 'apply', '--check', os.path.join(d, 'patch.diff')])
            if rcx:
                base = mj['base_commit']
    except Exception:
        pass
    res['base'] = base
    rc, out = sh(['git', '-C', '/repo', 'worktree', 'add', '-q', '--detach', wt, base])
    if rc:
        print('worktree failed', out)
        return 2
    try:
        env = dict(os.environ, PYTHONPATH=wt, PYTHONDONTWRITEBYTECODE='1')
        demo = os.path.join(d, 'demo.py')
        rc0, out0 = sh([PY, demo, wt], cwd=wt, env=env, timeout=600)
        res['demo_unchanged_rc'] = rc0
        rc, out = sh(['git', '-C', wt, 'apply', os.path.join(d, 'patch.diff')])
        res['patch_applies'] = rc == 0
        if rc:
            res['apply_error'] = out[-400:]
            print(json.dumps(res, indent=1))
            return 1
        rc1, out1 = sh([PY, demo, wt], cwd=wt, env=env, timeout=600)
        res['demo_changed_rc'] = rc1
        res['demo_changed_tail'] = out1[-300:]
        if not skip_tests:
            t0 = time.time()
            rc, out = sh([PY, '-m', 'pytest', '-q', '-p', 'no:cacheprovider', '-x'], cwd=wt, env=env, timeout=1800)
            res['tests_rc'] = rc
            res['tests_tail'] = out.strip().splitlines()[-1] if out.strip() else ''
            res['tests_s'] = round(time.time() - t0)
        caught = {}
        for c in checks:
            e2 = dict(os.environ, VERIF_REPO=wt)
            t0 = time.time()
            rc, out = sh([os.path.join(VERIF, 'check'), c, '--tier', tier] + (['--seed', seed] if seed else []), cwd=VERIF, env=e2, timeout=3600)
            viol = [ln for ln in out.splitlines() if ln.startswith('VIOLATION')]
            caught[c] = dict(rc=rc, violations=len(viol), first=(viol[0][:260] if viol else ''),
                             last=out.strip().splitlines()[-1][:200] if out.strip() else '', wall=round(time.time() - t0, 1))
        res['checks'] = caught
        res['caught_by'] = [c for c in checks if caught[c]['rc'] == 1]
        res['inconclusive'] = [c for c in checks if caught[c]['rc'] == 2]
    finally:
        sh(['git', '-C', '/repo', 'worktree', 'remove', '--force', wt])
        shutil.rmtree(wt, ignore_errors=True)
    print(json.dumps(res, indent=1))
    return 0


if __name__ == '__main__':
    sys.exit(main(sys.argv[1:]))
