#!/bin/sh
# tools/benigneval.sh <round dir> <id> [checks] : negative control - apply a behaviour-preserving change (no demo) in a scratch worktree,
# run the repository's tests and the quick tier of the given checks (default: all); every check must stay silent (rc 0)
rd="$1"; id="$2"; checks="${3:-all}"
cd "$(dirname "$0")/.." || exit 2
prop=$(echo $id | cut -c1-3)
tools/seedrun.py $rd/out/$id $prop --checks $checks > $rd/res/$id.json 2>&1
/venv/bin/python - "$rd/res/$id.json" "$id" <<'PY'
import json, sys
t = open(sys.argv[1]).read()
try:
    r = json.loads(t[t.find('{'):])
except Exception:
    print(sys.argv[2], 'UNREADABLE', t[-300:]); sys.exit(0)
bad = {c: v for c, v in (r.get('checks') or {}).items() if v.get('rc') != 0}
print(sys.argv[2], 'applies', r.get('patch_applies'), 'tests', r.get('tests_tail'), 'ALARMS' if bad else 'silent', sorted(bad))
for c, v in bad.items():
    print('   ', c, 'rc', v['rc'], (v.get('first') or v.get('last'))[:300])
PY
