#!/venv/bin/python
"""tools/linegaps.py <dumpdir> [file ...]: source lines of /repo/pybufrkit never executed by any check.

    VERIF_LINEDUMP=/tmp/ld ./check C01 ... (for every check), then tools/linegaps.py /tmp/ld

A line no workload reaches is a line where no monitor can notice a change: the list drives the
widening of generators (DESIGN 9.7)."""
import dis
import glob
import json
import os
import sys

REPO = os.environ.get('VERIF_REPO', '/repo')


def executable_lines(path):
    src = open(path).read()
    code = compile(src, path, 'exec')
    out = set()

    def rec(c, infunc):
        import types
        isfunc = bool(c.co_flags & 0x2) and c.co_name != '<module>'  # CO_NEWLOCALS: functions (class bodies lack it)
        if isfunc:
            for _, _, ln in c.co_lines():
                if ln is not None and ln != c.co_firstlineno:
                    out.add(ln)
        for k in c.co_consts:
            if hasattr(k, 'co_lines'):
                rec(k, isfunc)
    rec(code, False)
    # lines that only hold a docstring or decorators are not events
    return out, src.splitlines()


def main(argv):
    d = argv[0]
    only = argv[1:]
    hit = {}
    byprop = {}
    for f in glob.glob(os.path.join(d, '*.json')):
        prop = os.path.basename(f).split('-')[0]
        for fn, ln in json.load(open(f)):
            hit.setdefault(fn, set()).add(ln)
            byprop.setdefault((fn, ln), set()).add(prop)
    tot = 0
    miss_tot = 0
    for path in sorted(glob.glob(os.path.join(REPO, 'pybufrkit', '*.py'))):
        fn = os.path.basename(path)
        if only and fn not in only:
            continue
        ex, src = executable_lines(path)
        miss = sorted(l for l in ex if l not in hit.get(fn, set()))
        # drop def/class/decorator/docstring lines executed at import only when the module never imported
        tot += len(ex)
        miss_tot += len(miss)
        print('== %s: %d/%d executable lines reached' % (fn, len(ex) - len(miss), len(ex)))
        for l in miss:
            print('   %4d  %s' % (l, src[l - 1].rstrip()[:140]))
    print('TOTAL reached %d/%d' % (tot - miss_tot, tot))


if __name__ == '__main__':
    main(sys.argv[1:])
