#!/bin/sh
# tools/sweep.sh <tier> <seed...> : run every check for the given seeds, print one line per run
# (used to confirm silence on the unchanged tree over several seeds)
tier="$1"; shift
cd "$(dirname "$0")/.." || exit 2
for seed in "$@"; do
  for c in C01 C02 C03 C04 C05 C06 C07 C08 C09 C10 C11 C12 C13 C14 C15 C16 C17 C18 C19 C20; do
    out=$(PYTHONHASHSEED=0 ./check $c --tier "$tier" --seed "$seed" 2>&1)
    rc=$?
    echo "$out" | grep -E "^(VIOLATION|INCONCLUSIVE|KNOWN-FINDING|SHARD-LOST|NOTE)" | cut -c1-400
    echo "rc=$rc $(echo "$out" | tail -1 | cut -c1-160)"
  done
done
