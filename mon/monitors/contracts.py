"""M-contract: icontract post-conditions on real functions of pybufrkit, attached from the harness
(PYBUFRKIT_VERIF=1).  Conditions RECORD a break and return True, so a contract never changes the
behaviour of the code under test; every condition counts its evaluations (zero evaluations = the
contract was unavailable, never "held").  All of these sit on private helpers, so a break is reported
as ADVISORY (localisation + evidence) - verdicts come from the boundary oracles of the checks.
"""
import collections
import os

STATE = dict(attached=False, available=False, points=0)
evaluations = collections.Counter()
breaks = collections.Counter()
first_breaks = {}


class ContractBroken(Exception):
    pass


def _record(name, ok, detail):
    evaluations[name] += 1
    if not ok:
        breaks[name] += 1
        first_breaks.setdefault(name, str(detail)[:300])
    return True


# ---- conditions (named functions, argument names match the decorated function's) ----------------
def nbits_sound(x, result):
    # the all-ones pattern of the chosen width must lie above the largest difference (x - 1)
    return _record('encoder.nbits_for_uint', (1 << result) - 1 > x - 1 and result >= 1, (x, result))


def compiled_template_matches(self, template, table_group, result):
    ok = True
    try:
        ok = (tuple(result.template.original_descriptor_ids) == tuple(template.original_descriptor_ids)
              and result.table_group_key == table_group.key
              and len(self.cache) <= max(self.cache_max, 0))
    except Exception as e:   # names changed under refactoring: unavailable, not broken
        evaluations['get_or_compile(unavailable)'] += 1
        return True
    return _record('CompiledTemplateManager.get_or_compile', ok,
                   (tuple(template.original_descriptor_ids)[:6], getattr(result, 'table_group_key', None), table_group.key))


def table_group_matches(self, table_group_key, result):
    try:
        ok = result.key == table_group_key
    except Exception:
        evaluations['TableGroupCache.get(unavailable)'] += 1
        return True
    return _record('TableGroupCache.get', ok, (table_group_key, getattr(result, 'key', None)))


def subset_context_fresh(self, idx_subset):
    try:
        ok = (self.nbits_offset == 0 and self.scale_offset == 0 and self.new_refvals == {} and
              list(self.nbits_of_associated) == [] and self.nbits_of_skipped_local_descriptor == 0 and
              tuple(self.bsr_modifier) == (0, 0, 1) and self.new_nbytes == 0 and self.data_not_present_count == 0 and
              self.bitmap is None and self.back_referenced_descriptors is None and self.bitmapped_descriptors is None and
              self.nbits_of_new_refval == 0 and self.idx_subset == idx_subset)
    except Exception:
        evaluations['switch_subset_context(unavailable)'] += 1
        return True
    return _record('CoderState.switch_subset_context', ok, dict(
        nbits_offset=self.nbits_offset, scale_offset=self.scale_offset, new_refvals=len(self.new_refvals),
        assoc=list(self.nbits_of_associated), backrefs=self.back_referenced_descriptors is not None))


def bitmapped_are_zero_bits(self, bitmap):
    try:
        n_zero = sum(1 for b in bitmap if b == 0)
        ok = len(self.bitmapped_descriptors) == n_zero and len(self.back_referenced_descriptors) == len(bitmap)
    except Exception:
        evaluations['build_bitmapped_descriptors(unavailable)'] += 1
        return True
    return _record('CoderState.build_bitmapped_descriptors', ok, (list(bitmap)[:12], len(self.bitmapped_descriptors)))


def attach():
    if STATE['attached'] or os.environ.get('PYBUFRKIT_VERIF') != '1':
        return STATE['attached']
    try:
        import icontract
    except Exception:
        STATE['available'] = False
        return False
    STATE['available'] = True
    n = 0
    try:
        from pybufrkit import encoder
        encoder.nbits_for_uint = icontract.ensure(nbits_sound, error=ContractBroken)(encoder.nbits_for_uint)
        n += 1
    except Exception:
        pass
    try:
        from pybufrkit.templatecompiler import CompiledTemplateManager
        CompiledTemplateManager.get_or_compile = icontract.ensure(compiled_template_matches, error=ContractBroken)(
            CompiledTemplateManager.get_or_compile)
        n += 1
    except Exception:
        pass
    try:
        from pybufrkit.tables import TableGroupCache
        TableGroupCache.get = icontract.ensure(table_group_matches, error=ContractBroken)(TableGroupCache.get)
        n += 1
    except Exception:
        pass
    try:
        from pybufrkit.coder import CoderState
        CoderState.switch_subset_context = icontract.ensure(subset_context_fresh, error=ContractBroken)(
            CoderState.switch_subset_context)
        CoderState.build_bitmapped_descriptors = icontract.ensure(bitmapped_are_zero_bits, error=ContractBroken)(
            CoderState.build_bitmapped_descriptors)
        n += 2
    except Exception:
        pass
    STATE['points'] = n
    STATE['attached'] = n > 0
    return STATE['attached']


def stats():
    return dict(attached=STATE['attached'], icontract_available=STATE['available'], points=STATE['points'],
                evaluations=dict(evaluations), breaks=dict(breaks), first_breaks=dict(first_breaks))
