"""M-telemetry: sys.monitoring LINE events with DISABLE-after-first-hit over /repo/pybufrkit/*.py
(set of executed lines) and frame-local probes on selected code objects.

Evidence only: which anchor lines / operator arms the workload actually reached.
"""
import os
import sys

TOOL = 3
STATE = dict(attached=False)
lines = set()
REPO = os.environ.get('VERIF_REPO', '/repo')
PREFIX = os.path.join(REPO, 'pybufrkit') + os.sep


def _on_line(code, lineno):
    fn = code.co_filename
    if fn.startswith(PREFIX):
        lines.add((fn[len(PREFIX):], lineno))
    return sys.monitoring.DISABLE


def attach():
    if STATE['attached'] or os.environ.get('PYBUFRKIT_VERIF') != '1':
        return STATE['attached']
    mon = getattr(sys, 'monitoring', None)
    if mon is None:
        return False
    try:
        mon.use_tool_id(TOOL, 'verif-telemetry')
        mon.register_callback(TOOL, mon.events.LINE, _on_line)
        mon.set_events(TOOL, mon.events.LINE)
        STATE['attached'] = True
    except Exception:
        STATE['attached'] = False
    return STATE['attached']


def function_lines(func):
    code = func.__code__
    out = set()

    def rec(c):
        for _, _, ln in c.co_lines():
            if ln is not None and ln != c.co_firstlineno:
                out.add(ln)
        for k in c.co_consts:
            if hasattr(k, 'co_lines'):
                rec(k)
    rec(code)
    return os.path.relpath(code.co_filename, PREFIX.rstrip(os.sep)), out


def reach(funcs):
    """{qualified name: [reached, total]} for the given function objects"""
    out = {}
    for f in funcs:
        f = getattr(f, '__wrapped__', f)
        f = getattr(f, '__func__', f)
        try:
            fn, ls = function_lines(f)
        except Exception:
            continue
        hit = sum(1 for l in ls if (fn, l) in lines)
        out[f.__qualname__] = [hit, len(ls)]
    return out


def executed_in(relfile):
    return sorted(l for f, l in lines if f == relfile)


# ---------------------------------------------------------------- frame-local probe
class LocalProbe(object):
    """Observe a local variable of a function at every line event (source-free probe)."""

    def __init__(self, func, varnames, tool=4):
        self.code = getattr(func, '__wrapped__', func).__code__
        self.varnames = varnames
        self.tool = tool
        self.seen = []
        self.ok = False

    def __enter__(self):
        mon = sys.monitoring
        try:
            mon.use_tool_id(self.tool, 'verif-probe')
            mon.register_callback(self.tool, mon.events.LINE, self._cb)
            mon.set_local_events(self.tool, self.code, mon.events.LINE)
            self.ok = True
        except Exception:
            self.ok = False
        return self

    def _cb(self, code, lineno):
        fr = sys._getframe(1)
        loc = fr.f_locals
        t = tuple(loc.get(v) for v in self.varnames)
        if not self.seen or self.seen[-1] != t:
            self.seen.append(t)

    def __exit__(self, *a):
        if self.ok:
            mon = sys.monitoring
            mon.set_local_events(self.tool, self.code, 0)
            mon.register_callback(self.tool, mon.events.LINE, None)
            mon.free_tool_id(self.tool)
