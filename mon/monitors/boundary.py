"""M-boundary: call/return/raise recorder around the public entry points (the history the
oracles and the evidence refer to).  Attached from the harness under PYBUFRKIT_VERIF=1."""
import collections
import importlib
import os

STATE = dict(attached=False)
calls = collections.Counter()
raises = collections.Counter()
recent = collections.deque(maxlen=40)
step = [0]

POINTS = [
    ('pybufrkit.decoder', 'Decoder', 'process'),
    ('pybufrkit.encoder', 'Encoder', 'process'),
    ('pybufrkit.bufr', 'BufrMessage', 'subset'),
    ('pybufrkit.bufr', 'BufrMessage', 'wire'),
    ('pybufrkit.renderer', 'FlatTextRenderer', 'render'),
    ('pybufrkit.renderer', 'NestedTextRenderer', 'render'),
    ('pybufrkit.renderer', 'FlatJsonRenderer', 'render'),
    ('pybufrkit.renderer', 'NestedJsonRenderer', 'render'),
    ('pybufrkit.dataquery', 'NodePathParser', 'parse'),
    ('pybufrkit.dataquery', 'DataQuerent', 'query'),
    ('pybufrkit.mdquery', 'MetadataQuerent', 'query'),
    ('pybufrkit.templatecompiler', 'TemplateCompiler', 'process'),
    ('pybufrkit.templatecompiler', 'CompiledTemplateManager', 'get_or_compile'),
    ('pybufrkit.tables', 'BufrTableGroup', 'template_from_ids'),
]


def _wrap(cls, name, label):
    orig = cls.__dict__.get(name)
    if orig is None or not callable(orig):
        return False

    def wrapper(*a, **kw):
        step[0] += 1
        calls[label] += 1
        try:
            return orig(*a, **kw)
        except BaseException as e:
            raises[label + ':' + type(e).__name__] += 1
            recent.append((step[0], label, 'raise', type(e).__name__))
            raise
    wrapper.__wrapped__ = orig
    wrapper.__name__ = getattr(orig, '__name__', name)
    setattr(cls, name, wrapper)
    return True


def attach():
    if STATE['attached'] or os.environ.get('PYBUFRKIT_VERIF') != '1':
        return STATE['attached']
    n = 0
    for mod, cls, meth in POINTS:
        try:
            m = importlib.import_module(mod)
            c = getattr(m, cls)
            if _wrap(c, meth, cls + '.' + meth):
                n += 1
        except Exception:
            pass
    STATE['attached'] = n > 0
    STATE['points'] = n
    return STATE['attached']


def stats():
    return dict(attached=STATE['attached'], points=STATE.get('points', 0), calls=dict(calls),
                raises=dict(raises))
