"""M-tape: class-attribute wrappers on pybufrkit.bitops reader/writer primitives.

Logs (pos_before, kind, nbits, pos_after) per primitive, keeps statistics and checks online
invariants: a read/write advances the position by exactly the requested width; set_uint leaves
the length unchanged.  Invariant breaks are collected in `breaks` (verdict-bearing only for C19,
advisory elsewhere).  Attached only when PYBUFRKIT_VERIF=1.
"""
import collections
import os

STATE = dict(attached=False)
events = 0
kinds = collections.Counter()
pairs = set()
breaks = []
recent = collections.deque(maxlen=64)
RECORD = dict(on=True)


def _width(kind, args):
    if kind in ('read_bool', 'write_bool'):
        return 1
    if kind in ('read_bytes',):
        return 8 * args[0]
    if kind == 'write_bytes':
        v = args[0]
        n = args[1] if len(args) > 1 and args[1] is not None else len(v)
        return 8 * n
    if kind == 'write_bin':
        return len(args[0])
    if kind in ('read_uint', 'read_int', 'read_bin', 'skip'):
        return args[0]
    if kind in ('write_uint', 'write_int'):
        return args[1]
    return None


def _wrap(cls, name):
    orig = getattr(cls, name)

    def wrapper(self, *args, **kw):
        global events
        if not RECORD['on']:
            return orig(self, *args, **kw)
        p0 = self.get_pos()
        try:
            r = orig(self, *args, **kw)
        except Exception as e:
            recent.append((name, p0, args[-1] if args else None, 'raise ' + type(e).__name__))
            raise
        p1 = self.get_pos()
        events += 1
        w = _width(name, args) if not kw else None
        kinds[name] += 1
        if w is not None:
            if len(pairs) < 4096:
                pairs.add((name, w))
            if name in ('read_int', 'write_int'):
                pass  # composed of two wrapped primitives; width checked on the outer call too
            if p1 - p0 != w:
                breaks.append(dict(op=name, pos_before=p0, pos_after=p1, width=w))
        recent.append((name, p0, w, p1))
        return r
    wrapper.__wrapped__ = orig
    setattr(cls, name, wrapper)


def _wrap_set_uint(cls):
    orig = cls.set_uint

    def set_uint(self, value, nbits, bitpos):
        global events
        n0 = self.get_pos()
        r = orig(self, value, nbits, bitpos)
        n1 = self.get_pos()
        events += 1
        kinds['set_uint'] += 1
        pairs.add(('set_uint', nbits))
        if n1 != n0:
            breaks.append(dict(op='set_uint', nbits=nbits, len_before=n0, len_after=n1))
        return r
    set_uint.__wrapped__ = orig
    cls.set_uint = set_uint


def attach():
    if STATE['attached'] or os.environ.get('PYBUFRKIT_VERIF') != '1':
        return STATE['attached']
    from pybufrkit import bitops
    for n in ('read_bytes', 'read_uint', 'read_bool', 'read_bin', 'read_int'):
        _wrap(bitops.BitStringBitReader, n)
    for n in ('write_bytes', 'write_uint', 'write_int', 'write_bool', 'write_bin', 'skip'):
        _wrap(bitops.BitStringBitWriter, n)
    _wrap_set_uint(bitops.BitStringBitWriter)
    STATE['attached'] = True
    return True


def stats():
    return dict(attached=STATE['attached'], events=events, by_kind=dict(kinds),
                distinct_kind_width=len(pairs), invariant_breaks=len(breaks),
                first_breaks=breaks[:5])
