"""The same input in the other forms a caller may legitimately give it in.

A property about "the values given", "the message" or "the text rendering" does not depend on HOW the input is presented: JSON text
or the python lists it parses to, tuples for lists, `5` for `5.0`, `bytearray` for `bytes`, `\\r\\n` for `\\n`, a file or standard
input, an output file that is new / appended to / prefixed by a preamble.  Differential oracle, sound by construction:

    a variant form is REFUSED (any exception; counted, never judged - except for the forms listed as `must_accept`, which are plain
    JSON / plain text and are accepted whenever the canonical form is), or it gives EXACTLY what the canonical form gives.

Signatures:  <prefix>/input-form/<form>/differs | <prefix>/input-form/<form>/refused:<type>
"""
import copy
import io
import json
import os
import sys


def _tup(o):
    return tuple(_tup(x) for x in o) if isinstance(o, list) else o


def _map(o, f):
    return [_map(x, f) for x in o] if isinstance(o, list) else f(o)


def _f2i(v):
    return int(v) if isinstance(v, float) and v == int(v) and abs(v) < 2 ** 53 else v


def _outcome(f):
    try:
        return ('ok', f())
    except Exception as e:
        return ('exc', type(e).__name__)


def encoder_forms(ctx, fj, prefix, spec, make_encoder=None, only=None):
    """fj: the flat JSON form (python lists as json.loads gives them).  Every variant goes to a fresh encoder of its own."""
    from pybufrkit.encoder import Encoder
    make = make_encoder or Encoder
    text = json.dumps(fj)
    base = _outcome(lambda: make().process(text).serialized_bytes)
    if base[0] != 'ok':
        return 0
    di = len(fj) - 2
    variants = []

    def obj_variant(f):
        o = copy.deepcopy(fj)
        f(o)
        return o
    variants.append(('parsed-lists', lambda: json.loads(text), True))
    variants.append(('json-text-indented', lambda: json.dumps(fj, indent=2), True))
    variants.append(('json-text-compact-with-blanks-around', lambda: '  \n' + json.dumps(fj, separators=(',', ':')) + '\n\n', True))
    variants.append(('integral-floats-given-as-ints', lambda: obj_variant(lambda o: o[di].__setitem__(len(o[di]) - 1, _map(o[di][-1], _f2i))), True))
    variants.append(('integral-floats-given-as-ints/json-text', lambda: json.dumps(obj_variant(lambda o: o[di].__setitem__(len(o[di]) - 1, _map(o[di][-1], _f2i)))), True))
    variants.append(('json-text-with-literal-non-ascii', lambda: json.dumps(fj, ensure_ascii=False), True))
    variants.append(('json-text-as-utf8-octets', lambda: json.dumps(fj, ensure_ascii=False).encode('utf-8'), False))
    variants.append(('json-text-as-ascii-octets', lambda: json.dumps(fj).encode('ascii'), False))
    variants.append(('json-text-as-utf8-octets-with-bom', lambda: b'\xef\xbb\xbf' + json.dumps(fj, ensure_ascii=False).encode('utf-8'), False))
    variants.append(('rows-as-tuples', lambda: obj_variant(lambda o: o[di].__setitem__(len(o[di]) - 1, _tup(o[di][-1]))), False))
    variants.append(('everything-as-tuples', lambda: _tup(copy.deepcopy(fj)), False))
    variants.append(('sections-as-tuples', lambda: [tuple(s) if i != di else s for i, s in enumerate(copy.deepcopy(fj))], False))
    n = 0
    for name, build, must in variants:
        if only and name not in only:
            continue
        try:
            v = build()
        except Exception:
            continue
        got = _outcome(lambda: make().process(v).serialized_bytes)
        n += 1
        ctx.count('input_forms_compared')
        ctx.add('input_forms_seen', 'encoder/' + name + ('' if got[0] == 'ok' else '/refused'))
        if got[0] == 'ok' and got[1] != base[1]:
            ctx.violate('%s/input-form/%s/differs' % (prefix, name), 'the Encoder given the message as %s writes other bytes than for its JSON text' % name,
                        dict(spec, form=name), expected=base[1].hex()[:400], observed=got[1].hex()[:400])
        elif got[0] != 'ok' and must:
            ctx.violate('%s/input-form/%s/refused:%s' % (prefix, name, got[1]), 'the Encoder refuses (%s) the message given as %s and accepts its plain JSON text'
                        % (got[1], name), dict(spec, form=name))
    return n


def decoder_forms(ctx, b, prefix, spec, digest):
    """b: message bytes; digest(m) -> comparable.  bytearray (what reading into a buffer gives) for bytes."""
    from pybufrkit.decoder import Decoder
    base = _outcome(lambda: digest(Decoder().process(b)))
    if base[0] != 'ok':
        return
    for name, v in (('bytearray', bytearray(b)), ('bytes-copy', bytes(bytearray(b)))):
        got = _outcome(lambda: digest(Decoder().process(v)))
        ctx.count('input_forms_compared')
        ctx.add('input_forms_seen', 'decoder/' + name + ('' if got[0] == 'ok' else '/refused'))
        if got[0] == 'ok' and got[1] != base[1]:
            ctx.violate('%s/input-form/%s/differs' % (prefix, name), 'the Decoder given the message as %s returns something else than for bytes' % name,
                        dict(spec, form=name))
        elif got[0] != 'ok' and name == 'bytes-copy':
            ctx.violate('%s/input-form/%s/refused:%s' % (prefix, name, got[1]), 'the Decoder refuses an equal copy of the bytes', dict(spec, form=name))


TEXT_VARIANTS = [('crlf-line-ends', lambda t: t.replace('\n', '\r\n'), True), ('no-final-newline', lambda t: t.rstrip('\n'), True),
                 ('blanks-at-line-ends', lambda t: t.replace('\n', '  \n'), False), ('byte-order-mark', lambda t: '﻿' + t, False)]


def text_forms(ctx, ft, nt, prefix, spec):
    """the flat-text and nested-text renderings as a file written on another platform / by another editor would hold them"""
    from pybufrkit import utils
    dumps = lambda o: json.dumps(o, cls=utils.EntityEncoder)
    for kind, conv, t in (('flat-text', utils.flat_text_to_flat_json, ft), ('nested-text', utils.nested_text_to_flat_json, nt)):
        base = _outcome(lambda: dumps(conv(t)))
        if base[0] != 'ok':
            continue
        for name, f, must in TEXT_VARIANTS:
            if kind == 'nested-text' and name == 'byte-order-mark':
                continue
            got = _outcome(lambda: dumps(conv(f(t))))
            ctx.count('input_forms_compared')
            ctx.add('input_forms_seen', '%s/%s%s' % (kind, name, '' if got[0] == 'ok' else '/refused'))
            if got[0] == 'ok' and got[1] != base[1]:
                ctx.violate('%s/input-form/%s/%s/differs' % (prefix, kind, name), 'the %s rendering with %s converts to another flat JSON than as it was rendered'
                            % (kind, name), dict(spec, form=name, format=kind))
            elif got[0] != 'ok' and must:
                ctx.violate('%s/input-form/%s/%s/refused:%s' % (prefix, kind, name, got[1]), 'the %s rendering with %s is refused (%s)' % (kind, name, got[1]),
                            dict(spec, form=name, format=kind))


def run_cli_stdin(argv, stdin_text):
    from mon.cli import run_cli
    old = sys.stdin
    sys.stdin = io.StringIO(stdin_text)
    try:
        return run_cli(argv)
    finally:
        sys.stdin = old


def cli_encode_forms(ctx, scratch, tag, texts, want, prefix, spec):
    """`pybufrkit encode`: the same text from a file and from standard input (`-`), into a new file, appended to an existing file,
    with a preamble, with both; -t / -d given with a trailing slash and as a relative path.  texts: {flags tuple: text}."""
    from mon.cli import run_cli
    repo = os.environ.get('VERIF_REPO', '/repo')
    troot = os.path.join(repo, 'pybufrkit', 'tables')
    droot = os.path.join(repo, 'pybufrkit', 'definitions')
    for flags, text in texts.items():
        fname = ''.join(flags) or 'flat-text'
        src = os.path.join(scratch, 'form_%s_%s.txt' % (tag, fname))
        with open(src, 'w') as f:
            f.write(text)
        runs = []
        old = b'\x01\r\r\nEARLIER CONTENT\r\r\n'
        pre = 'IUXX01 EGRR 010000\r\r\n'
        for mode in ('file', 'stdin', 'append', 'preamble', 'append+preamble', 'tables-dir-trailing-slash', 'dirs-relative', 'options-after-command'):
            dst = os.path.join(scratch, 'form_%s_%s_%s.bufr' % (tag, fname, mode.replace('+', '_')))
            expect = want
            argv = ['encode'] + list(flags)
            stdin = None
            pre_argv = []
            if mode == 'stdin':
                argv += ['-', dst]
                stdin = text
            elif mode == 'append':
                with open(dst, 'wb') as f:
                    f.write(old)
                argv += ['--append', src, dst]
                expect = old + want
            elif mode == 'preamble':
                argv += ['--preamble', pre, src, dst]
                expect = pre.encode() + want
            elif mode == 'append+preamble':
                with open(dst, 'wb') as f:
                    f.write(old)
                argv += [src, dst, '--preamble', pre, '--append']
                expect = old + pre.encode() + want
            elif mode == 'tables-dir-trailing-slash':
                pre_argv = ['-t', troot + os.sep, '-d', droot + os.sep]
                argv += [src, dst]
            elif mode == 'dirs-relative':
                pre_argv = ['-t', os.path.relpath(troot), '-d', os.path.relpath(droot)]
                argv += [src, dst]
            elif mode == 'options-after-command':
                argv = ['encode', src, dst] + list(flags)
            else:
                argv += [src, dst]
            so, se, exc, code = run_cli_stdin(pre_argv + argv, stdin) if stdin is not None else run_cli(pre_argv + argv)
            ctx.count('cli_input_forms_compared')
            ctx.add('input_forms_seen', 'cli-encode/%s/%s' % (fname, mode))
            got = None
            if os.path.exists(dst):
                with open(dst, 'rb') as f:
                    got = f.read()
                os.remove(dst)
            if exc is not None or se.strip() or got is None:
                ctx.violate('%s/input-form/cli-encode/%s/fails' % (prefix, mode), 'pybufrkit %s failed: %r %s' % (' '.join(a if len(a) < 30 else '...' for a in pre_argv + argv), exc, se[:120]),
                            dict(spec, form=mode, format=fname))
            elif got != expect:
                ctx.violate('%s/input-form/cli-encode/%s/differs' % (prefix, mode), 'pybufrkit encode (%s, %s) wrote %d octets, expected %d (%s)'
                            % (fname, mode, len(got), len(expect), 'message bytes differ' if got[-len(want):] != want else 'what precedes the message differs'),
                            dict(spec, form=mode, format=fname))
        os.remove(src)
