"""In-process driver of the pybufrkit command line (pybufrkit.main) with captured streams."""
import contextlib
import io
import sys


def run_cli(argv):
    """Returns (stdout text, stderr text, exception or None, SystemExit code or None)."""
    import pybufrkit
    out, err = io.StringIO(), io.StringIO()
    old = sys.argv
    sys.argv = ['pybufrkit'] + list(argv)
    exc = None
    code = None
    try:
        with contextlib.redirect_stdout(out), contextlib.redirect_stderr(err):
            try:
                pybufrkit.main()
            except SystemExit as e:
                code = e.code
            except BaseException as e:  # a traceback would reach the user
                exc = e
    finally:
        sys.argv = old
    return out.getvalue(), err.getvalue(), exc, code
