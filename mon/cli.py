"""In-process driver of the pybufrkit command line (pybufrkit.main) with captured streams."""
import contextlib
import io
import sys


def run_cli(argv):
    """Returns (stdout text, stderr text, exception or None, SystemExit code or None)."""
    import pybufrkit
    out, err = io.StringIO(), io.StringIO()
    old = sys.argv
    sys.argv = ['pybufrkit'] + list(argv)
    exc = None
    code = None
    try:
        with contextlib.redirect_stdout(out), contextlib.redirect_stderr(err):
            try:
                pybufrkit.main()
            except SystemExit as e:
                code = e.code
            except BaseException as e:  # a traceback would reach the user
                exc = e
    finally:
        sys.argv = old
    return out.getvalue(), err.getvalue(), exc, code


def alt_tables_root(scratch):
    """A tables root that differs from the bundled one in ONE Table B entry of version 33 (012101: scale 1 instead
    of 2, 18 bits instead of 16): a command that ignores `-t/--tables-root-directory` for its decoder or encoder gives visibly
    different values/bytes.  Everything else is symlinked.  Returns the path."""
    import json
    import os
    repo = os.environ.get('VERIF_REPO', '/repo')
    src = os.path.join(repo, 'pybufrkit', 'tables')
    dst = os.path.join(scratch, 'alt_tables')
    if os.path.isdir(dst):
        return dst
    os.makedirs(os.path.join(dst, '0', '0_0', '33'))
    for name in os.listdir(os.path.join(src, '0')):
        if name != '0_0':
            os.symlink(os.path.join(src, '0', name), os.path.join(dst, '0', name))
    for name in os.listdir(os.path.join(src, '0', '0_0')):
        if name != '33':
            os.symlink(os.path.join(src, '0', '0_0', name), os.path.join(dst, '0', '0_0', name))
    for name in os.listdir(os.path.join(src, '0', '0_0', '33')):
        if name != 'TableB.json':
            os.symlink(os.path.join(src, '0', '0_0', '33', name), os.path.join(dst, '0', '0_0', '33', name))
    with open(os.path.join(src, '0', '0_0', '33', 'TableB.json')) as f:
        tb = json.load(f)
    e = list(tb['012101'])
    e[2], e[4] = 1, 18
    tb['012101'] = e
    with open(os.path.join(dst, '0', '0_0', '33', 'TableB.json'), 'w') as f:
        json.dump(tb, f)
    return dst


def alt_message(rng, root, nsub=3, compressed=False, ids=(1001, 12101, 102002, 12101, 2001)):
    """an R-produced message over the alternative tables (its 012101 fields are 18 bits wide, scale 1)"""
    from mon import refbufr as R
    B, D = R.load_tables(0, 0, 0, 33, 0, root=root)
    return R.build_message(list(ids), B, D, R.Policy(rng), nsub, compressed, 4, dict(master_table_version=33))
