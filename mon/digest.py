"""Component-wise digest of everything observable about one decoded message (C13 golden / history)."""
import hashlib
import json
import sys


def _h(x):
    if not isinstance(x, (bytes, bytearray)):
        x = repr(x).encode('latin-1', 'replace')
    return hashlib.sha1(x).hexdigest()[:16]


def message_digest(m, queries=True, tools=None):
    """m: a decoded (wired) BufrMessage -> {component: hash}.  tools: long-lived renderer / querent objects to use instead of
    new ones ({'ft','nt','fj','nj','dq','mq'}) - a renderer or querent is reusable, what it gives for a message does not depend on
    the messages it served before"""
    from pybufrkit.renderer import FlatTextRenderer, NestedTextRenderer, FlatJsonRenderer, NestedJsonRenderer
    from pybufrkit.utils import EntityEncoder
    tools = tools or {}
    FlatTextRenderer = (lambda: tools['ft']) if 'ft' in tools else FlatTextRenderer
    NestedTextRenderer = (lambda: tools['nt']) if 'nt' in tools else NestedTextRenderer
    FlatJsonRenderer = (lambda: tools['fj']) if 'fj' in tools else FlatJsonRenderer
    NestedJsonRenderer = (lambda: tools['nj']) if 'nj' in tools else NestedJsonRenderer
    td = m.template_data.value
    out = {}
    out['values'] = _h(td.decoded_values_all_subsets)
    labels = [[str(d) for d in ds] for ds in td.decoded_descriptors_all_subsets]
    out['labels'] = _h(labels)
    out['links'] = _h([sorted(dict(x).items()) for x in td.bitmap_links_all_subsets])
    out['sections'] = _h([(p.name, repr(p.value)) for s in m.sections for p in s if p.name != 'template_data'])
    # the first line of the text renderings names the table group (incl. the tables root directory)
    ft = FlatTextRenderer().render(m).split('\n', 1)
    nt = NestedTextRenderer().render(m).split('\n', 1)
    out['table_group_line'] = _h(ft[0])
    out['flat_text'] = _h(ft[1] if len(ft) > 1 else '')
    out['nested_text'] = _h(nt[1] if len(nt) > 1 else '')
    out['flat_json'] = _h(json.dumps(FlatJsonRenderer().render(m), cls=EntityEncoder))
    out['nested_json'] = _h(json.dumps(NestedJsonRenderer().render(m), cls=EntityEncoder))
    if queries:
        from pybufrkit.dataquery import NodePathParser, DataQuerent
        from pybufrkit.mdquery import MetadataExprParser, MetadataQuerent
        ids = []
        for lab in (labels[0] if labels else []):
            if lab[0] == '0' and lab not in ids:
                ids.append(lab)
        dq = tools.get('dq') or DataQuerent(NodePathParser())
        res = []
        for lab in ids[:6]:
            try:
                res.append((lab, repr(dq.query(m, lab).all_values())))
            except Exception as e:
                res.append((lab, 'raises ' + type(e).__name__))
        mq = tools.get('mq') or MetadataQuerent(MetadataExprParser())
        for e in ('%length', '%n_subsets', '%3.section_length', '%master_table_version'):
            res.append((e, repr(mq.query(m, e))))
        out['queries'] = _h(res)
    return out


def flat_json_text(m):
    from pybufrkit.renderer import FlatJsonRenderer
    from pybufrkit.utils import EntityEncoder
    return json.dumps(FlatJsonRenderer().render(m), cls=EntityEncoder)


def golden(b, tables_root=None):
    """decode b with brand-new objects; returns dict(digest=.., flat_json=.., encode=..)"""
    from pybufrkit.decoder import Decoder
    from pybufrkit.encoder import Encoder
    try:
        m = Decoder(tables_root_dir=tables_root).process(b)
    except Exception as e:
        return dict(error=type(e).__name__)
    d = message_digest(m)
    fj = flat_json_text(m)
    try:
        enc = _h(Encoder(tables_root_dir=tables_root).process(fj).serialized_bytes)
    except Exception as e:
        enc = 'raises ' + type(e).__name__
    # what a brand-new decoder says about a copy whose stop signature is damaged
    bad = damaged_copy(b)
    try:
        Decoder(tables_root_dir=tables_root).process(bad)
        dmg = 'decodes'
    except Exception as e:
        dmg = 'raises'
    return dict(digest=d, flat_json=fj, encode=enc, damaged=dmg)


def damaged_copy(b):
    i = b.rfind(b'7777')
    if i < 0:
        return b[:-1] + b'8'
    return b[:i] + b'7767' + b[i + 4:]


def encode_only(fj, tables_root=None):
    """outcome of encoding a flat JSON text in an interpreter that has done nothing else"""
    from pybufrkit.encoder import Encoder
    try:
        return _h(Encoder(tables_root_dir=tables_root).process(fj).serialized_bytes)
    except Exception as e:
        return 'raises ' + type(e).__name__


def main(argv):
    """python -m mon.digest <hexfile> [tables_root]   (one message per fresh interpreter)
    python -m mon.digest --encode <flat json file> [tables_root]   (encoding alone, in an interpreter of its own)"""
    import logging
    logging.disable(logging.CRITICAL)
    if argv and argv[0] == '--encode':
        with open(argv[1]) as f:
            fj = f.read()
        root = argv[2] if len(argv) > 2 and argv[2] != '-' else None
        json.dump(dict(encode=encode_only(fj, root)), sys.stdout)
        return
    with open(argv[0]) as f:
        b = bytes.fromhex(f.read().strip())
    root = argv[1] if len(argv) > 1 and argv[1] != '-' else None
    json.dump(golden(b, root), sys.stdout)


if __name__ == '__main__':
    main(sys.argv[1:])
