"""Regenerates MANIFEST.json from the check modules present (python -m mon.mkmanifest)."""
import importlib
import json
import os
import sys

VERIF = os.path.dirname(os.path.dirname(os.path.abspath(__file__)))
sys.path.insert(0, VERIF)

ALL = ['C%02d' % i for i in range(1, 21)]
NOT_YET = 'check not built yet in this round (see DESIGN.md section 3 for the planned monitor)'


def main():
    checks = []
    na = []
    for pid in ALL:
        path = os.path.join(VERIF, 'mon', 'checks', pid.lower() + '.py')
        if not os.path.exists(path):
            na.append(dict(property_id=pid, reason=NOT_YET))
            continue
        mod = importlib.import_module('mon.checks.' + pid.lower())
        if getattr(mod, 'DISABLED', None):
            na.append(dict(property_id=pid, reason=mod.DISABLED))
            continue
        checks.append(dict(
            property_id=pid,
            quick_cmd='./check %s --tier quick' % pid,
            thorough_cmd='./check %s --tier thorough' % pid,
            evidence_file='evidence/%s.json' % pid,
            replay_cmd_template='./check %s --replay {path}' % pid,
            engine='mon',
            level_claimed=dict(category=getattr(mod, 'LEVEL', 'exploration'),
                               text=getattr(mod, 'LEVEL_TEXT', mod.__doc__.strip().split('\n\n')[0]),
                               design_ref='DESIGN.md section 3, ' + pid),
            level_note='; '.join(getattr(mod, 'ASSUMPTIONS', [])),
            technique=getattr(mod, 'TECHNIQUE', 'runtime monitoring'),
        ))
    man = dict(
        version=1,
        setup_cmd=('/venv/bin/python -m pip install --quiet --no-index --find-links /opt/veriftools/wheels '
                   '--target .deps icontract && ./check selftest'),
        hooks=dict(
            guard='PYBUFRKIT_VERIF',
            enable=('no source hooks in /repo: monitors are attached from the harness (class-attribute '
                    'wrappers, sys.monitoring) only when PYBUFRKIT_VERIF=1 is set in the worker environment; '
                    'workers import /repo\'s working tree through PYTHONPATH'),
            baseline_off_cmd='cd /repo && /venv/bin/python -m pytest -ra -q -p no:cacheprovider --timeout=900 --continue-on-collection-errors',
            source_commits=[],
            add_only=True,
        ),
        engines=[dict(name='mon', path='mon/runner.py', serves_properties=[c['property_id'] for c in checks],
                      kind_free_text='runtime monitoring harness: sharded workloads over the real code, '
                                     'reference-model / differential / history oracles, bit-tape and boundary '
                                     'monitors, sys.monitoring telemetry')],
        checks=checks,
        notes=('Exit codes: 0 held, 1 VIOLATION, 2 INCONCLUSIVE (coverage/monitor thresholds not met). '
               'Genuine defects found and repaired are listed in known_findings.json as fixed entries.'),
        not_applicable=na,
    )
    with open(os.path.join(VERIF, 'MANIFEST.json'), 'w') as f:
        json.dump(man, f, indent=1)
    print('MANIFEST: %d checks, %d not applicable' % (len(checks), len(na)))


if __name__ == '__main__':
    main()
