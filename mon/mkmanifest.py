"""Regenerates MANIFEST.json from the check modules present (python -m mon.mkmanifest)."""
import importlib
import json
import os
import sys

VERIF = os.path.dirname(os.path.dirname(os.path.abspath(__file__)))
sys.path.insert(0, VERIF)

ALL = ['C%02d' % i for i in range(1, 21)]

COMMON = (' Held means: no refutation on the executions observed in this run (counts and samples in the evidence file); '
          'it is exploration by runtime monitoring, not a proof over all inputs.')
LEVEL_TEXTS = {
    'C01': 'The real Decoder is run on thousands of messages whose bytes and expected (label, exact rational value, link) lists come from an '
           'independent FM-94 reference model (no pybufrkit code), plus every sample file read by both; every field is compared. Exploration is the '
           'right level because the input space (templates x values x layouts) is unbounded and the oracle is independent.',
    'C02': 'The real Encoder\'s output is compared byte for byte with a message constructed independently from the same values (uncompressed) and '
           're-read by an independent column reader (compressed). Errors shared by encoder and decoder - invisible to round-trip tests - are visible.',
    'C03': 'Encode->decode of the real code with exact rational bounds per field (half a unit of the last digit, range refusal, all-ones exception) for '
           'every numeric Table B element under operator contexts, plus byte fixpoints E(D(b)) = b on encoder output and foreign messages.',
    'C04': 'An independent frame parser/producer decides every length, padding bit and signature in both directions over the full product residue(mod 16) x '
           'edition x section-2 x surplus octets x honour/recompute.',
    'C05': 'All columns of <= 4 subsets over widths <= 3 (quick) / <= 4 (thorough) are enumerated exhaustively through the real encoder+decoder and an independent '
           'column reader/writer (every legal difference width), plus random wide and character columns and whole-message transparency.',
    'C06': 'Self-composition: the same subsets decoded jointly (all permutations for small n), alone, and re-ordered must agree; the joint bytes come from the '
           'reference model so that a leak shared by encoder and decoder cannot hide.',
    'C07': 'Reference link map computed from the FM-94 bitmap rule vs bitmap_links and an independent reader of the nested view, over every 0/1 pattern of bitmap '
           'lengths 1..7/8 for each operator, chains, reuse/cancel operators, associated fields; encoder side checked against the same reference.',
    'C08': 'Three-way differential execution (interpreted / compiled / compiled-saved-reloaded) of decoder and encoder over every distinct Table D sequence '
           '(versions >= 19), enumerated delayed-factor and bitmap assignments, cache-size histories and same-descriptors-other-version collisions.',
    'C09': 'Every rendering of real decodes is converted back and compared with the flat form, an independent walk of the nested view must reproduce the flat '
           'order exactly once per value, the wired node tree must reference each flat index once; CLI paths driven in-process.',
    'C10': 'subset -> encode -> decode of the real code against the selection computed independently, for every index subset of n <= 4 (each also permuted with a '
           'repeat) and sampled larger collections, with a source-message digest contract.',
    'C11': 'Streams are assembled from known messages and separators, so the expected yield log is known by construction; an exactly-once/order checker runs over '
           'the recorded yields in full, info-only and filtered modes, including hostile payloads containing signatures and whole inner messages.',
    'C12': 'Fault enumeration: every truncation point of each pool message, every fault of each kind at every position (stop signature, undefined descriptor, '
           'section length +-1/2), every subset of damaged messages in streams of n <= 4; yield logs and exception classes are judged, detectability of damage '
           'is decided by an independent reader.',
    'C13': 'History vs model: after arbitrary operation histories (compiled caches 0/1/2/n, failing decodes, lenient decodes, encodes, re-wiring, table-group cache '
           'limits 1/2/3 and the real 50 with > 100 keys) every result must equal the digest computed for that message alone in a brand-new interpreter.',
    'C14': 'Exhaustive for the finite part: every Table D entry of every bundled version is expanded by the real loader and by an independent expander over the '
           'table files, every Table B attribute compared; random nested descriptor lists, undefined descriptors at every kind of position, all version selections.',
    'C15': 'Exhaustive over all strings up to length 5 (quick) / 6 (thorough) of the 12-symbol alphabet against a three-valued reference recogniser, plus grammar-'
           'derived long expressions and all their single-character mutations; parser reuse after rejected input is part of the workload.',
    'C16': 'An independent evaluator of / and . steps with slices over the nested JSON view is the oracle for DataQuerent on every structure-derived path of '
           'generated messages and sample files; bare-ID, subset-selector and compression/compilation-invariance clauses checked separately.',
    'C17': 'Expected values come from an independent parse with hard-coded edition layouts; every parameter name x implicit/explicit section index x editions x '
           'section 2; info-only decoding judged by invariance under corruption of the data section and by declared-length streams.',
    'C18': 'A reference scanner written from the documentation decides every script assembled from 12 fragment kinds in all orders up to length 4/5; run-time '
           'bindings and nest-level identities are checked on real messages including ones whose first subset lacks the queried element.',
    'C19': 'An int-based bit-string model decides every primitive over widths 1..64 x edge values x bit offsets 0..7 (enumerated) and random field sequences; '
           'online tape invariants (position advances by exactly the width, set_uint keeps the length) are verdict-bearing here.',
    'C20': 'History vs stateful model: definition messages and following data messages are produced by the reference model with its tables extended by the '
           'carried entries; each stream is scanned in a fresh interpreter and every data message compared field by field.',
}
TECHNIQUE_COMMON = ('; plus an interleaving injector at the API boundary (differently configured twin instances are handed the same '
                    'input just before the observed call), object histories (one object through successful operations of different '
                    'kinds vs a fresh object) and, where the property is about decoding, work done while a scan is suspended at a yield')
NOT_YET = 'check not built yet in this round (see DESIGN.md section 3 for the planned monitor)'


def main():
    checks = []
    na = []
    for pid in ALL:
        path = os.path.join(VERIF, 'mon', 'checks', pid.lower() + '.py')
        if not os.path.exists(path):
            na.append(dict(property_id=pid, reason=NOT_YET))
            continue
        mod = importlib.import_module('mon.checks.' + pid.lower())
        if getattr(mod, 'DISABLED', None):
            na.append(dict(property_id=pid, reason=mod.DISABLED))
            continue
        checks.append(dict(
            property_id=pid,
            quick_cmd='./check %s --tier quick' % pid,
            thorough_cmd='./check %s --tier thorough' % pid,
            evidence_file='evidence/%s.json' % pid,
            replay_cmd_template='./check %s --replay {path}' % pid,
            engine='mon',
            level_claimed=dict(category=getattr(mod, 'LEVEL', 'exploration'),
                               text=mod.__doc__.strip().split('\n\n')[0].split('\n')[0] + ' ' + LEVEL_TEXTS.get(pid, '') + COMMON,
                               design_ref='DESIGN.md section 3, ' + pid),
            level_note='; '.join(getattr(mod, 'ASSUMPTIONS', [])),
            technique=getattr(mod, 'TECHNIQUE', 'runtime monitoring') + TECHNIQUE_COMMON,
        ))
    man = dict(
        version=1,
        setup_cmd=('/venv/bin/python -m pip install --quiet --no-index --find-links /opt/veriftools/wheels '
                   '--target .deps icontract && ./check selftest'),
        hooks=dict(
            guard='PYBUFRKIT_VERIF',
            enable=('no source hooks in /repo: monitors are attached from the harness (class-attribute '
                    'wrappers, sys.monitoring) only when PYBUFRKIT_VERIF=1 is set in the worker environment; '
                    'workers import /repo\'s working tree through PYTHONPATH'),
            baseline_off_cmd='cd /repo && /venv/bin/python -m pytest -ra -q -p no:cacheprovider --timeout=900 --continue-on-collection-errors',
            source_commits=[],
            add_only=True,
        ),
        engines=[dict(name='mon', path='mon/runner.py', serves_properties=[c['property_id'] for c in checks],
                      kind_free_text='runtime monitoring harness: sharded workloads over the real code, '
                                     'reference-model / differential / history oracles, bit-tape and boundary '
                                     'monitors, sys.monitoring telemetry, boundary interleaving injector (twins), '
                                     'mid-scan scenarios, input-form variants')],
        checks=checks,
        notes=('Exit codes: 0 held, 1 VIOLATION, 2 INCONCLUSIVE (coverage/monitor thresholds not met). '
               'Genuine defects found and repaired are listed in known_findings.json as fixed entries.'),
        not_applicable=na,
    )
    with open(os.path.join(VERIF, 'MANIFEST.json'), 'w') as f:
        json.dump(man, f, indent=1)
    print('MANIFEST: %d checks, %d not applicable' % (len(checks), len(na)))


if __name__ == '__main__':
    main()
