"""Independent readers of the hierarchical (nested JSON) view, written from the documented layout
(DESIGN appendix B), sharing no code with pybufrkit.templatedata / utils / dataquery.

* flatten(subset_nodes)  -> Flat: the flat value order recovered from the nested view, with the
  flat index of every value-bearing node (C09 conservation walk, C07 owner identification)
* ref_query(subset_nodes, comps) -> evaluation of a path of '/' and '.' steps (C16)
"""


class Unspec(Exception):
    """the documented semantics do not define the result (never judged)"""


class Malformed(Exception):
    """the nested view itself is not of the documented shape"""


def is_replication(node):
    return node['id'][0] == '1' and len(node['id']) == 6 and node['id'].isdigit()


class Flat(object):
    def __init__(self):
        self.values = []
        self.ids = []
        self.node_at = {}        # flat index -> node dict (members, factors, non-virtual attributes)
        self.index_of = {}       # id(node dict) -> flat index
        self.virtual = []        # (owner flat index, attribute node, depth) in document order
        self.nodes = 0


def _emit(n, out, depth=0):
    for a in n.get('attributes', ()):
        if not a.get('virtual'):
            # associated field: a first appearance that precedes its owner in the flat order
            _emit_value_only(a, out)
    out.values.append(n['value'])
    out.ids.append(n['id'])
    i = len(out.values) - 1
    out.node_at[i] = n
    out.index_of[id(n)] = i
    for a in n.get('attributes', ()):
        if a.get('virtual'):
            out.virtual.append((i, a))


def _emit_value_only(a, out):
    if 'value' not in a:
        raise Malformed('attribute without value')
    out.values.append(a['value'])
    out.ids.append(a['id'])
    i = len(out.values) - 1
    out.node_at[i] = a
    out.index_of[id(a)] = i
    for b in a.get('attributes', ()):
        if b.get('virtual'):
            out.virtual.append((i, b))
        else:
            raise Malformed('non-virtual attribute below an attribute')


def _walk(nodes, out):
    for n in nodes:
        out.nodes += 1
        if 'value' in n:
            if 'members' in n or 'factor' in n:
                raise Malformed('node with both value and members')
            _emit(n, out)
        else:
            if 'factor' in n:
                _emit(n['factor'], out)
            if 'members' in n:
                if is_replication(n):
                    for rep in n['members']:
                        if not isinstance(rep, list):
                            raise Malformed('replication member is not a list of repetitions')
                        _walk(rep, out)
                else:
                    _walk(n['members'], out)


def flatten(subset_nodes):
    out = Flat()
    _walk(subset_nodes, out)
    return out


# --------------------------------------------------------------------------- path evaluation
def _sl(matches, s):
    """matches: list of (position, node) in document order; s: None | int | (a, b, c)"""
    if s is None:
        return matches
    if isinstance(s, int):
        if s >= 0:
            return [matches[s]] if s < len(matches) else []
        return matches[slice(s, s + 1 if s != -1 else None)]
    return sorted(matches[slice(*s)], key=lambda t: t[0])


def _ev_child(node, comps):
    sep, id_, s = comps[0]
    if 'members' not in node:
        raise Unspec()
    if is_replication(node):
        reps = node['members']
        if not reps:
            return []
        first = reps[0]
        m = [(i, n) for i, n in enumerate(first) if n['id'] == id_]
        idxs = [i for i, _ in _sl(m, s)]
        if not idxs:
            return []
        env = []
        for rep in reps:
            sub = [rep[i] for i in idxs]
            sub = _proceed(sub, comps)
            if sub:
                env.append(sub)
        return [env] if env else []
    m = [(i, n) for i, n in enumerate(node['members']) if n['id'] == id_]
    sub = [n for _, n in _sl(m, s)]
    return _proceed(sub, comps) if sub else []


def _ev_attr(node, comps):
    sep, id_, s = comps[0]
    if 'attributes' not in node and 'factor' not in node:
        raise Unspec()
    sub = []
    if 'factor' in node:
        m = [(0, node['factor'])] if node['factor']['id'] == id_ else []
        sub += [n for _, n in _sl(m, s)]
    if 'attributes' in node:
        m = [(i, n) for i, n in enumerate(node['attributes']) if n['id'] == id_]
        sub += [n for _, n in _sl(m, s)]
    return _proceed(sub, comps) if sub else []


def _proceed(nodes, comps):
    if len(comps) == 1:
        return nodes
    out = []
    for n in nodes:
        out += _ev(n, comps[1:])
    return out


def _ev(node, comps):
    if comps[0][0] == '/':
        return _ev_child(node, comps)
    if comps[0][0] == '.':
        return _ev_attr(node, comps)
    raise Unspec()


def _tovals(x):
    if isinstance(x, list):
        return [_tovals(y) for y in x]
    if 'value' not in x:
        raise Unspec()
    return x['value']


def ref_query(subset_nodes, comps):
    """comps: [(sep, id, slice)] with sep in '/', '.', slice None | int | (a,b,c)."""
    root = {'id': 'TEMPLATE', 'members': subset_nodes}
    return _tovals(_ev(root, comps))


def slice_str(s):
    if s is None:
        return ''
    if isinstance(s, int):
        return '[%d]' % s
    return '[' + ':'.join('' if x is None else str(x) for x in s) + ']'


def derive_paths(subset_nodes, max_depth=6):
    """all (sep, id) step lists that exist in the structure (first repetition of replications)."""
    out = []

    def paths(nodes, prefix, depth):
        ids = []
        for n in nodes:
            if n['id'] not in ids:
                ids.append(n['id'])
        for id_ in ids:
            p = prefix + [('/', id_)]
            out.append(p)
            n = [x for x in nodes if x['id'] == id_][0]
            sub(n, p, depth)

    def sub(n, p, depth):
        if depth >= max_depth:
            return
        if 'members' in n:
            if is_replication(n):
                if n['members']:
                    paths(n['members'][0], p, depth + 1)
            else:
                paths(n['members'], p, depth + 1)
        if 'factor' in n:
            out.append(p + [('.', n['factor']['id'])])
            sub_attr(n['factor'], p + [('.', n['factor']['id'])], depth + 1)
        sub_attr(n, p, depth)

    def sub_attr(n, p, depth):
        seen = []
        for a in n.get('attributes', []):
            if a['id'] in seen:
                continue
            seen.append(a['id'])
            pa = p + [('.', a['id'])]
            out.append(pa)
            if depth < max_depth:
                sub_attr(a, pa, depth + 1)

    paths(subset_nodes, [], 0)
    return out
