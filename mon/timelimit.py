"""Generous per-case wall-clock watchdog. Its firing is never a verdict: the case is counted as
timed out (reduced coverage) and skipped."""
import contextlib
import signal


class CaseTimeout(BaseException):
    """BaseException so that `except Exception` inside the code under test cannot swallow it"""


@contextlib.contextmanager
def time_limit(seconds):
    def handler(signum, frame):
        raise CaseTimeout()
    try:
        old = signal.signal(signal.SIGALRM, handler)
    except ValueError:       # not in the main thread: no watchdog
        yield
        return
    signal.setitimer(signal.ITIMER_REAL, seconds)
    try:
        yield
    finally:
        signal.setitimer(signal.ITIMER_REAL, 0)
        signal.signal(signal.SIGALRM, old)
