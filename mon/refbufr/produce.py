"""R produce direction: (template ids, value policy, layout) -> message bytes + expected result.

The producer is the consumer run "in reverse": PWalker overrides the read primitives of Walker so
that each one *chooses* a column of raw values (through a Policy), writes it with R's own writer,
and returns it; everything else (registers, bitmap bookkeeping, labels, links, value arithmetic) is
the Walker's.  Bytes never come from pybufrkit.
"""
import collections
from fractions import Fraction

from .bits import WBits
from .frame import build_frame
from .walker import Walker, Unsupported
from .consume import subsets_from_walkers

FREE = object()


class Policy(object):
    """Default random value policy (seeded)."""

    def __init__(self, rng, widen=True, max_count=3, bitmap_cap=6, narrow_strings=0.0):
        self.rng = rng
        self.widen = widen
        # probability of storing a compressed character column whose values differ with increments NARROWER than the field
        # (legal: base of the field's octets, 6-bit octet count k < width, k octets per subset - sample pgps_110 does it; the
        # values are then those k octets).  Off by default: an encoder need not reproduce that layout.
        self.narrow_strings = narrow_strings
        self.max_count = max_count
        self.bitmap_cap = bitmap_cap

    # ---- values of free fields
    def pick_raw(self, w):
        r = self.rng.random()
        top = (1 << w) - 1
        if w == 1:
            return self.rng.randint(0, 1)
        if r < 0.12:
            return None
        if r < 0.22:
            return 0
        if r < 0.32:
            return top - 1
        if r < 0.40:
            return 1 if top - 1 >= 1 else 0
        if r < 0.46:
            return min(top - 1, 1 << (w - 1))
        return self.rng.randint(0, top - 1)

    def uint_column(self, pw, w):
        n = pw.ncols
        shape = self.rng.random()
        if n > 1 and shape < 0.2:
            return [self.pick_raw(w)] * n
        if n > 1 and shape < 0.3:
            v = self.pick_raw(w)
            raws = [v] * n
            if w > 1:
                raws[self.rng.randrange(n)] = None
            return raws
        if n > 1 and shape < 0.36 and w > 2:
            # ranges of exactly 2^k-2, 2^k-1, 2^k around a base
            k = self.rng.randint(1, w - 1)
            span = (1 << k) + self.rng.choice([-2, -1, 0])
            span = max(0, min(span, (1 << w) - 2))
            base = self.rng.randint(0, (1 << w) - 2 - span)
            raws = [self.rng.choice([base, base + span]) for _ in range(n)]
            raws[0] = base
            raws[-1] = base + span
            return raws
        return [self.pick_raw(w) for _ in range(n)]

    def pick_str(self, n):
        r = self.rng.random()
        if r < 0.1:
            return b'\xff' * n
        if r < 0.2:
            return b' ' * n
        alphabet = b'abcXYZ019 \'"#\\$%{}=->' + bytes([0xe9, 0xfc, 0xa0])
        k = self.rng.randint(0, n)
        return bytes(self.rng.choice(alphabet) for _ in range(k)).ljust(n)

    def str_column(self, pw, nbytes):
        if pw.ncols > 1 and self.rng.random() < 0.35:
            return [self.pick_str(nbytes)] * pw.ncols
        return [self.pick_str(nbytes) for _ in range(pw.ncols)]

    def sint(self, pw, w):
        m = self.rng.randint(0, (1 << (w - 1)) - 1)
        s = self.rng.randint(0, 1)
        if m == 0:
            s = 0
        return -m if s else m

    def diff_width(self, minimal):
        if self.widen:
            return min(63, minimal + self.rng.choice([0, 0, 0, 1, 2, 3]))
        return minimal

    # ---- control fields: replication factors, bitmap bits, 031021
    def count(self, pw, w, eid):
        hi = (1 << w) - 2 if w > 1 else 1
        return min(hi, self.rng.choice([0, 1, 1, 2, 3][:self.max_count + 2]))

    def bitmap_length(self, pw, w, P):
        hi = min(P, self.bitmap_cap, (1 << w) - 2)
        return self.rng.randint(1, hi) if hi >= 1 else 0

    def bitmap_bit(self, pw):
        return self.rng.choice([0, 0, 1])

    def significance(self, pw, w):
        return self.rng.randint(1, min(8, (1 << w) - 2))


class PWalker(Walker):
    def __init__(self, B, D, out, compressed, nsub, policy, inline_sequences=False):
        self.out = out
        self.policy = policy
        self.feat = collections.Counter()
        self._consumed = 0
        Walker.__init__(self, B, D, None, compressed, nsub, inline_sequences)

    # --- control
    def control(self, w):
        kind, eid = self._ctx
        if kind != 'elem':
            return FREE
        if eid in (31000, 31001, 31002):
            body = self._body
            if body is None:
                return FREE
            if self.bm_state == 'expect' and body and body[0] == 31031:
                P = sum(1 for i in range(self.boundary if self.boundary is not None else 0)
                        if self.kinds[i] == 'elem')
                if self.backref:
                    return min(len(self.backref), (1 << w) - 2)
                if P == 0:
                    # a bitmap with nothing to refer to (zero-length bitmap) is degenerate: FM-94 gives it
                    # no meaning and the interpreted / compiled paths of the library treat it differently
                    raise Unsupported('bitmap operator without preceding element descriptors')
                return self.policy.bitmap_length(self, w, P)
            if body and (body[0] // 1000 == 33 and self.qa or
                         body[0] % 1000 == 255 and body[0] // 100000 == 2):
                remaining = len(self.cur_list) - self._consumed if self.cur is not None else 0
                # a body may hold several values per repetition (markers with operators between them)
                per = sum(1 for b in body if (b // 1000 == 33 and self.qa) or (b % 1000 == 255 and b // 100000 == 2)) or 1
                return max(0, min(remaining // per, (1 << w) - 2))
            return self.policy.count(self, w, eid)
        if eid == 31031 and self.bm_state in ('expect', 'collecting'):
            return self.policy.bitmap_bit(self)
        if eid == 31021:
            return self.policy.significance(self, w)
        return FREE

    def next_bitmapped(self):
        r = Walker.next_bitmapped(self)
        self._consumed += 1
        return r

    def define_bitmap(self, bits_vals, reuse):
        Walker.define_bitmap(self, bits_vals, reuse)
        self._consumed = 0
        self.feat['bitmap-%d' % len(bits_vals)] += 1

    def operator(self, d):
        Walker.operator(self, d)
        if d == 237000:
            self._consumed = 0

    # --- writing primitives (override the read primitives)
    def rd_uint(self, w):
        c = self.control(w)
        if c is not FREE:
            raws = [c] * self.ncols
        else:
            raws = self.policy.uint_column(self, w)
        top = (1 << w) - 1
        # normalise: an explicit all-ones raw is "missing" (w > 1)
        raws = [None if (x is not None and w > 1 and x == top) else x for x in raws]
        if w == 1:
            raws = [0 if x is None else x for x in raws]
        if not self.comp:
            self.out.u(top if raws[0] is None else raws[0], w)
            self.feat['w%d' % w] += 1
            return list(raws)
        present = [x for x in raws if x is not None]
        if present and (max(present) - min(present) + 2).bit_length() > 63:
            # (the library sizes the increment for max-min+1 itself, one bit more than needed when that
            # number is all ones: a spread of 2^63-2 would need its 64th bit - grey, not generated)
            # a spread that needs more than 63 increment bits cannot be written (6-bit width field)
            raws = [None if x is None else present[0] for x in raws]
            present = [x for x in raws if x is not None]
        if not present:
            self.out.u(top, w)
            self.out.u(0, 6)
            self.feat['c-allmiss'] += 1
        elif len(present) == len(raws) and len(set(present)) == 1:
            self.out.u(present[0], w)
            self.out.u(0, 6)
            self.feat['c-alleq'] += 1
        else:
            mn = min(present)
            md = max(present) - mn
            nb = (md + 1).bit_length()   # all-ones of nb must exceed md
            nb = self.policy.diff_width(nb)
            self.out.u(mn, w)
            self.out.u(nb, 6)
            for x in raws:
                self.out.u((1 << nb) - 1 if x is None else x - mn, nb)
            self.feat['c-nb%d' % nb] += 1
            if nb == 1:
                self.feat['c-1bit' + ('-missing' if len(present) != len(raws) else '')] += 1
        return list(raws)

    def rd_str(self, nbytes):
        vals = self.policy.str_column(self, nbytes)
        vals = [v[:nbytes].ljust(nbytes) for v in vals]
        if not self.comp:
            self.out.raw(vals[0])
            return vals
        if nbytes > 63:
            vals = [vals[0]] * len(vals)   # the 6-bit octet count cannot describe differing columns this wide
        if len(set(vals)) == 1:
            self.out.raw(vals[0])
            self.out.u(0, 6)
            self.feat['cs-alleq'] += 1
        elif nbytes >= 2 and self.policy.narrow_strings and self.policy.rng.random() < self.policy.narrow_strings \
                and len(set(v[:nbytes - 1] for v in vals)) > 1:
            k = self.policy.rng.randint(1, nbytes - 1)
            while len(set(v[:k] for v in vals)) == 1:
                k += 1
            vals = [v[:k] for v in vals]
            self.out.raw(b'\0' * nbytes)
            self.out.u(k, 6)
            for v in vals:
                self.out.raw(v)
            self.feat['cs-narrow'] += 1
        else:
            self.out.raw(b'\0' * nbytes)
            self.out.u(nbytes, 6)
            for v in vals:
                self.out.raw(v)
            self.feat['cs-diff'] += 1
        return vals

    def rd_sint(self, w):
        v = self.policy.sint(self, w)
        self.out.u(1 if v < 0 else 0, 1)
        self.out.u(abs(v), w - 1)
        if self.comp:
            self.out.u(0, 6)
        self.feat['newref'] += 1
        return [v] * self.ncols


class Message(object):
    """A produced message with R's expectation."""

    def __init__(self, **kw):
        self.__dict__.update(kw)

    def spec(self):
        return dict(ids=self.ids, nsub=self.nsub, compressed=self.compressed, edition=self.edition,
                    meta=self.meta, sec2=None if self.sec2 is None else self.sec2.hex(),
                    surplus=self.surplus, hex=self.bytes.hex())


def build_message(ids, B, D, policy, nsub=1, compressed=False, edition=4, meta=None, sec2=None,
                  surplus=None, inline_sequences=False, pad_bits=0, grey221=False, grey31=False):
    out = WBits()
    walkers = []
    spans = []
    feat = collections.Counter()
    if compressed:
        w = PWalker(B, D, out, True, nsub, policy, inline_sequences)
        w.grey221 = grey221
        w.grey31 = grey31
        w.run(ids)
        walkers.append(w)
        feat = w.feat
    else:
        for _ in range(nsub):
            st = out.n
            w = PWalker(B, D, out, False, 1, policy, inline_sequences)
            w.grey221 = grey221
            w.grey31 = grey31
            w.run(ids)
            walkers.append(w)
            feat += w.feat
            spans.append((st, out.n))
    data_bits = out.n
    data_int = out.v
    out.pad8()
    data = out.bytes()
    meta = dict(meta or {})
    b = build_frame(edition, meta, ids, nsub, compressed, data, sec2, surplus)
    ops = set()
    noncanon = False
    for w in walkers:
        ops |= w.ops_seen
        noncanon = noncanon or w.noncanon_unit_under_op
    return Message(bytes=b, subsets=subsets_from_walkers(walkers, compressed, nsub), feat=feat,
                   ids=list(ids), nsub=nsub, compressed=compressed, edition=edition, meta=meta,
                   sec2=sec2, surplus=surplus or {}, data_bits=data_bits, ops=ops,
                   noncanon=noncanon, spans=spans, data_int=data_int)


def select_subsets(msg, order):
    """Uncompressed only: a new message holding subsets `order` (indices into msg, any order,
    repeats allowed) - each subset's bits are copied verbatim (fresh application of the template)."""
    assert not msg.compressed
    out = WBits()
    for k in order:
        st, en = msg.spans[k]
        n = en - st
        out.u((msg.data_int >> (msg.data_bits - en)) & ((1 << n) - 1), n)
    nbits = out.n
    out.pad8()
    data = out.bytes()
    b = build_frame(msg.edition, msg.meta, msg.ids, len(order), False, data, msg.sec2, msg.surplus)
    spans = []
    p = 0
    for k in order:
        n = msg.spans[k][1] - msg.spans[k][0]
        spans.append((p, p + n))
        p += n
    return Message(bytes=b, subsets=[msg.subsets[k] for k in order], feat=msg.feat, ids=msg.ids,
                   nsub=len(order), compressed=False, edition=msg.edition, meta=msg.meta,
                   sec2=msg.sec2, surplus=msg.surplus, data_bits=nbits, ops=msg.ops,
                   noncanon=msg.noncanon, spans=spans, data_int=out.v >> ((-nbits) % 8))


# ---------------------------------------------------------------------- user-level JSON
def to_json_value(v, meta):
    """R's exact value -> what a user would put in the flat JSON."""
    if v is None:
        return None
    if isinstance(v, bytes):
        return v.decode('latin-1')
    if isinstance(v, Fraction):
        if meta is not None and meta[0] == 'n' and meta[2] <= 0 and v.denominator == 1:
            return int(v)
        if v.denominator == 1 and (meta is None or meta[0] != 'n'):
            return int(v)
        return float(v)
    return v


def section_values(msg):
    """Values of sections 0..3 in the order the encoder expects them (repository's JSON input
    format: one list per section, lengths 0 = compute)."""
    from .frame import SEC1, DEFAULT_META
    m = dict(DEFAULT_META)
    m.update(msg.meta or {})
    ed = msg.edition
    year = m['year']
    if ed <= 3 and year > 255:
        year %= 100
    v = dict(m)
    v['year'] = year
    v['section_length'] = 0
    v['is_section2_presents'] = msg.sec2 is not None
    v['flag_bits'] = m['flag_bits1']
    if ed == 3:
        v['originating_subcentre'] &= 255
        v['originating_centre'] &= 255
    secs = [['BUFR', 0, ed], [v[n] for n, _, _ in SEC1[ed]]]
    if msg.sec2 is not None:
        secs.append([0, m['reserved2'], ''.join('{:08b}'.format(x) for x in msg.sec2)])
    secs.append([0, m['reserved3'], msg.nsub, bool(m['is_observation']), bool(msg.compressed),
                 m['flag_bits3'], list(msg.ids)])
    return secs


def flat_json(msg, values=None):
    secs = section_values(msg)
    if values is None:
        values = [[to_json_value(v, m) for v, m in zip(s.values, s.meta)] for s in msg.subsets]
    m = dict(msg.meta or {})
    secs += [[0, m.get('reserved4', '00000000'), values], ['7777']]
    return secs
