"""R's table loader: reads pybufrkit/tables/**/Table{B,D}.json directly.

Version selection follows the documented fall-back (DESIGN appendix A):
master table dir <n> else 0; 0_0/<version> else 0_0/33 (decoder only); local tables only if
local version != 0, from <centre>_<subcentre> else <centre>_0, else none.
"""
import json
import os

REPO = os.environ.get('VERIF_REPO', '/repo')
TABLES = os.path.join(REPO, 'pybufrkit', 'tables')
DEFAULT_WMO_VERSION = 33

_cache = {}


def kind_of(unit):
    """'s' string, 'c' code/flag, 'n' numeric."""
    if unit == 'CCITT IA5':
        return 's'
    u = unit.lower()
    if 'code table' in u or 'flag table' in u:
        return 'c'
    return 'n'


def canonical_codeflag_unit(unit):
    """True when the unit is spelled exactly as the canonical 'CODE TABLE'/'FLAG TABLE'."""
    return unit in ('CODE TABLE', 'FLAG TABLE')


def table_dirs(mtn, centre, subcentre, mtv, ltv, root=None, fallback=True):
    """Return (list of directories used, info dict) or raise KeyError when (no fall-back) absent."""
    root = root or TABLES
    mroot = os.path.join(root, str(mtn))
    if not os.path.isdir(mroot):
        if not fallback:
            raise KeyError('no master table %s' % mtn)
        mroot = os.path.join(root, '0')
    wmo = os.path.join(mroot, '0_0', str(mtv))
    if not os.path.isdir(wmo):
        if not fallback:
            raise KeyError('no wmo tables version %s' % mtv)
        wmo = os.path.join(mroot, '0_0', str(DEFAULT_WMO_VERSION))
    dirs = [wmo]
    if ltv:
        found = False
        for c in ('%d_%d' % (centre, subcentre), '%d_0' % centre):
            p = os.path.join(mroot, c, str(ltv))
            if os.path.isdir(p):
                dirs.append(p)
                found = True
                break
        if not found and not fallback:
            raise KeyError('no local tables')
    return dirs


def load_dir(d):
    if d not in _cache:
        B, D = {}, {}
        pb = os.path.join(d, 'TableB.json')
        pd = os.path.join(d, 'TableD.json')
        if os.path.exists(pb):
            with open(pb) as f:
                for k, v in json.load(f).items():
                    B[int(k)] = (v[0], v[1], int(v[2]), int(v[3]), int(v[4]))
        if os.path.exists(pd):
            with open(pd) as f:
                for k, v in json.load(f).items():
                    D[int(k)] = [int(x) for x in v[1]]
        _cache[d] = (B, D)
    return _cache[d]


def load_tables(mtn=0, centre=0, subcentre=0, mtv=33, ltv=0, root=None, fallback=True):
    dirs = table_dirs(mtn, centre, subcentre, mtv, ltv, root, fallback)
    key = tuple(dirs)
    if key not in _cache:
        B, D = {}, {}
        for d in dirs:
            b, dd = load_dir(d)
            B.update(b)
            D.update(dd)
        _cache[key] = (B, D)
    return _cache[key]


def wmo_versions(root=None, mtn=0):
    p = os.path.join(root or TABLES, str(mtn), '0_0')
    return sorted(int(x) for x in os.listdir(p) if x.isdigit())


def local_table_dirs(root=None, mtn=0):
    """[(centre, subcentre, version, path)] of bundled local tables."""
    out = []
    mroot = os.path.join(root or TABLES, str(mtn))
    for c in sorted(os.listdir(mroot)):
        if c == '0_0' or '_' not in c:
            continue
        try:
            ce, su = [int(x) for x in c.split('_')]
        except ValueError:
            continue
        for v in sorted(os.listdir(os.path.join(mroot, c))):
            if v.isdigit():
                out.append((ce, su, int(v), os.path.join(mroot, c, v)))
    return out
