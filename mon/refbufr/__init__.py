"""R - independent FM-94 reference model (no pybufrkit, no bitstring)."""
from .bits import RBits, WBits, PastEnd
from .rtables import load_tables, kind_of, wmo_versions, local_table_dirs, TABLES
from .walker import Walker, Unsupported, MARK
from .consume import decode, Subset
from .produce import (Policy, PWalker, build_message, Message, flat_json, to_json_value,
                      section_values, FREE, select_subsets)
from .frame import (parse_frame, build_frame, expected_metadata, all_parameter_names,
                    section_layouts, DEFAULT_META)
