"""R's template interpreter (consume direction).  DESIGN appendix A.

Interprets raw descriptor *ids* (never pybufrkit descriptor objects) for ONE uncompressed subset
or for all subsets of a compressed message.  Shapes outside appendix A raise Unsupported.
"""
from fractions import Fraction

from .rtables import kind_of


class Unsupported(Exception):
    """R has no opinion on this shape (never a guess)."""


MARK = {223255: 'T', 224255: 'F', 225255: 'D', 232255: 'R'}

_P10 = [Fraction(10) ** k for k in range(0, 40)]


def pow10(s):
    if s >= 0:
        return _P10[s] if s < 40 else Fraction(10) ** s
    return 1 / (_P10[-s] if -s < 40 else Fraction(10) ** (-s))


class Walker(object):
    def __init__(self, B, D, bits, compressed, nsub, inline_sequences=False):
        self.B, self.D, self.bits, self.comp, self.nsub = B, D, bits, compressed, nsub
        self.ncols = nsub if compressed else 1
        self.inline = inline_sequences
        self.labels = []
        self.cols = []      # per field: list of values (len ncols)
        self.raws = []      # per field: list of raw ints / bytes / None (missing)
        self.kinds = []     # 'elem' for plain element descriptors (back-referable), else 'other'
        self.elem_id = []
        self.meta = []      # per field: (kind, width_bits, scale, ref) kind in n c s a k r o g
        self.links = {}
        self.ambig = {}     # field index -> set of columns whose value may also be read as missing
        self._ambig_cols = set()
        self._m = None
        self._raw = None
        self._nb = None
        self.nbs = []       # per field: increment width of the compressed column (None if n/a)
        self._ctx = None
        self._body = None
        self.ops_seen = set()
        self.reset_regs()

    def reset_regs(self):
        self.dw = 0
        self.ds = 0
        self.assoc = []
        self.newref_bits = 0
        self.newrefs = {}
        self.m207 = 0
        self.nbytes = 0
        self.dnp = 0
        self.skip206 = 0
        self.backref = None
        self.boundary = None
        self.cur = None
        self.cur_list = []
        self.reuse_bitmap = None
        self.qa = 0  # 0 n/a, 1 waiting for class 33, 2 processing
        self.bm_state = None
        self.bm_idx = []
        self.bm_reuse = False

    # ------------------------------------------------------------------ primitives
    def emit(self, label, vals, kind='other', eid=None):
        if self._ambig_cols:
            self.ambig[len(self.labels)] = self._ambig_cols
            self._ambig_cols = set()
        self.meta.append(self._m)
        self.raws.append(self._raw)
        self.nbs.append(self._nb)
        self._m = None
        self._raw = None
        self._nb = None
        self.labels.append(label)
        self.cols.append(vals)
        self.kinds.append(kind)
        self.elem_id.append(eid)

    def const(self, label, v):
        self._m = ('o', 0, 0, 0)
        self._raw = [v] * self.ncols
        self.emit(label, [v] * self.ncols)

    def rd_uint(self, w):
        """read one column of unsigned ints of width w -> list of raw or None (missing)"""
        top = (1 << w) - 1

        def miss(x):
            return None if (w > 1 and x == top) else x

        if not self.comp:
            return [miss(self.bits.u(w))]
        mn = self.bits.u(w)
        nb = self.bits.u(6)
        self._nb = nb
        if nb == 0:
            return [miss(mn)] * self.ncols
        if miss(mn) is None:
            raise Unsupported('all-ones minimum with non-zero increment width')
        out = []
        dtop = (1 << nb) - 1
        for _ in range(self.ncols):
            d = self.bits.u(nb)
            if d == dtop:
                out.append(None)
            else:
                x = mn + d
                if x > top:
                    raise Unsupported('minimum + increment exceeds field width')
                # a reconstructed all-ones value (increment not all ones): FM-94 does not say
                # whether that is a value or the missing indicator -> either reading is accepted
                if w > 1 and x == top:
                    self._ambig_cols.add(len(out))
                out.append(x)
        return out

    def rd_str(self, nbytes):
        if not self.comp:
            return [self.bits.bytes_(nbytes)]
        mn = self.bits.bytes_(nbytes)
        nb = self.bits.u(6)
        self._nb = nb
        if nb == 0:
            return [mn] * self.ncols
        if mn.strip(b'\0'):
            raise Unsupported('non-zero character base with increments')
        return [self.bits.bytes_(nb) for _ in range(self.ncols)]

    def rd_sint(self, w):
        s = self.bits.u(1)
        m = self.bits.u(w - 1)
        if self.comp:
            nb = self.bits.u(6)
            self._nb = nb
            if nb:
                raise Unsupported('new reference value differs between subsets')
        return [-m if s else m] * self.ncols

    # ------------------------------------------------------------------ elements
    def assoc_field(self, eid):
        w = sum(self.assoc)
        self._ctx = ('assoc', eid)
        self._m = ('a', w, 0, 0)
        raws = self.rd_uint(w)
        self._raw = raws
        self.emit('A%05d' % eid, list(raws))

    def element(self, eid, marker=None):
        if eid not in self.B:
            raise Unsupported('unknown element %06d' % eid)
        name, unit, scale, ref, width = self.B[eid][:5]
        X = eid // 1000
        k = kind_of(unit)
        label = '%06d' % eid if marker is None else '%s%05d' % (MARK[marker], eid)
        if self.assoc and marker is not None:
            raise Unsupported('marker operator while 204 in force')
        if self.assoc and X != 31:
            self.assoc_field(eid)
        if X == 33 and marker is None:
            if self.qa == 1:
                self.qa = 2
            if self.qa == 2 and self.assoc:
                # grey (DESIGN 2.3): like marker operators under 204 - the flat link exists but the
                # hierarchical placement of a quality value that carries an associated field is
                # not defined (its 031021 meaning may be the very element it qualifies)
                raise Unsupported('quality information while 204 in force')
            if self.qa == 2:
                self.links[len(self.labels)] = self.next_bitmapped()
            elif self.qa == 3:
                # FM-94 gives no meaning to a class 33 value that follows a completed run of
                # quality information without a new operator (library: coder does not link it,
                # the wiring step expects a link)
                raise Unsupported('class 33 element after a completed quality information run')
        elif self.qa == 2:
            self.qa = 3
        ekind = 'elem' if marker is None else 'other'
        self._ctx = ('elem' if marker is None else 'marker', eid)
        if marker == 225255 and k != 'n':
            raise Unsupported('225255 on non-numeric owner')
        if k == 's':
            nb = self.nbytes or width // 8
            self._m = ('s', nb * 8, 0, 0)
            vals = self.rd_str(nb)
            self._raw = vals
            self.emit(label, list(vals), ekind, eid)
        elif k == 'c':
            if unit not in ('CODE TABLE', 'FLAG TABLE') and (self.dw or self.ds or self.m207):
                # S12: library applies 201/202/207 to units spelled e.g. 'Code table'
                self.noncanon_unit_under_op = True
            self._m = ('c', width, 0, 0)
            raws = self.rd_uint(width)
            self._raw = raws
            self.emit(label, list(raws), ekind, eid)
        else:
            if X == 31 and (self.dw or self.ds or self.m207):
                # grey31 (differential checks only): follow the library's reading for a WIDTH change - the factor is a numeric
                # field like any other and is read with the changed width
                if not (getattr(self, 'grey31', False) and not self.ds and not self.m207):
                    raise Unsupported('operator in force on class 31')
            w = width + self.dw + ((10 * self.m207 + 2) // 3 if self.m207 else 0)
            s = scale + self.ds + self.m207
            if marker == 225255:
                if self.dw or self.m207:
                    raise Unsupported('225255 under width change')
                if eid in self.newrefs:
                    raise Unsupported('225255 on an element with a 203 reference value')
                w = width + 1
                r = -(1 << width)
            elif eid in self.newrefs:
                r = self.newrefs[eid] * (10 ** self.m207)
            else:
                r = ref * (10 ** self.m207)
            if w < 1 or w > 64:
                raise Unsupported('width out of 1..64')
            self._m = ('n', w, s, r)
            raws = self.rd_uint(w)
            self._raw = raws
            p = pow10(s)
            vals = [None if x is None else Fraction(x + r) / p for x in raws]
            self.emit(label, vals, ekind, eid)

    noncanon_unit_under_op = False
    grey221 = False
    grey31 = False

    def next_bitmapped(self):
        if self.cur is None:
            raise Unsupported('attribute without bitmap')
        try:
            return next(self.cur)
        except StopIteration:
            raise Unsupported('more attributes than zero bits')

    def define_bitmap(self, bits_vals, reuse):
        n = len(bits_vals)
        if any(b not in (0, 1) for b in bits_vals):
            raise Unsupported('bitmap bit missing')
        if not self.backref:
            elems = [i for i in range(self.boundary) if self.kinds[i] == 'elem']
            self.backref = elems[-n:] if n else []
        if len(self.backref) != n:
            raise Unsupported('bitmap/back-reference length mismatch')
        sel = [i for b, i in zip(bits_vals, self.backref) if b == 0]
        self.cur_list = sel
        if reuse:
            self.reuse_bitmap = sel
        self.cur = iter(sel)

    # ------------------------------------------------------------------ walking
    def run(self, ids):
        if self.inline:
            self.walk_inline(list(ids))
        else:
            self.walk(list(ids))
        self.flush_bitmap()

    def flush_bitmap(self):
        if self.bm_state == 'collecting':
            self.finish_bitmap()

    def pre(self, d):
        """Common per-descriptor preamble. Returns True when the descriptor is fully handled."""
        F = d // 100000
        if self.bm_state == 'collecting' and d != 31031:
            self.finish_bitmap()
        if self.dnp:
            self.dnp -= 1
            if F == 0:
                X = d // 1000
                if d not in self.B:
                    # an element that is in no table is an error wherever it stands, also where it would carry no data
                    raise Unsupported('unknown element %06d' % d)
                if not (1 <= X <= 9 or X == 31):
                    return True
            elif not self.grey221:
                raise Unsupported('221 range over non-element descriptor')
            # grey221 (differential checks only): follow the library's reading - every descriptor in
            # the list counts, non-element descriptors are processed normally
        if self.newref_bits and F == 0:
            if d not in self.B:
                raise Unsupported('unknown element %06d' % d)
            if self.assoc:
                raise Unsupported("203 definition while 204 in force")
            if kind_of(self.B[d][1]) == "s":
                raise Unsupported('203 on character element')
            self._ctx = ('newref', d)
            self._m = ('r', self.newref_bits, 0, 0)
            v = self.rd_sint(self.newref_bits)
            self._raw = list(v)
            self.newrefs[d] = v[0]
            self.emit('%06d' % d, v, 'elem', d)
            return True
        if self.skip206:
            if F != 0:
                raise Unsupported('206 before non-element descriptor')
            if self.assoc:
                raise Unsupported('206 while 204 in force')
            self._ctx = ('skip', d)
            self._m = ('k', self.skip206, 0, 0)
            raws = self.rd_uint(self.skip206)
            self._raw = raws
            self.emit('S%05d' % d, list(raws))
            self.skip206 = 0
            return True
        return False

    def plain(self, d):
        if d == 31031 and self.bm_state in ('expect', 'collecting'):
            self.bm_state = 'collecting'
            self.bm_idx.append(len(self.labels))
        self.element(d)

    def factor_count(self, fac, body):
        if fac in (31011, 31012):
            raise Unsupported('delayed repetition')
        if fac // 1000 != 31:
            raise Unsupported('replication factor not class 31')
        self._body = body
        self.element(fac)
        self._body = None
        cnts = self.cols[-1]
        if len(set(cnts)) != 1 or cnts[0] is None:
            raise Unsupported('replication factor differs/missing')
        return int(cnts[0])

    def walk(self, ids):
        i = 0
        n = len(ids)
        while i < n:
            d = ids[i]
            i += 1
            F = d // 100000
            if self.pre(d):
                continue
            if F == 0:
                self.plain(d)
            elif F == 1:
                X = d // 1000 % 100
                Y = d % 1000
                if Y == 0:
                    if i >= n:
                        raise Unsupported('short replication')
                    fac = ids[i]
                    i += 1
                    body = ids[i:i + X]
                    i += X
                    if len(body) != X:
                        raise Unsupported('short replication')
                    cnt = self.factor_count(fac, body)
                else:
                    body = ids[i:i + X]
                    i += X
                    cnt = Y
                    if len(body) != X:
                        raise Unsupported('short replication')
                for _ in range(cnt):
                    self.walk(body)
            elif F == 3:
                if d not in self.D:
                    raise Unsupported('unknown sequence %06d' % d)
                self.walk(self.D[d])
            else:
                self.operator(d)

    def walk_inline(self, ids):
        """NCEP convention (C20): sequences are expanded in line, so a replication may take its
        members from the list that encloses the sequence it came from."""
        stack = [iter(ids)]

        def nxt():
            while stack:
                try:
                    return next(stack[-1])
                except StopIteration:
                    stack.pop()
            return None

        def take_expanded(n):
            out = []
            while len(out) < n:
                d = nxt()
                if d is None:
                    raise Unsupported('short replication')
                out.append(d)
            return out

        while True:
            d = nxt()
            if d is None:
                return
            F = d // 100000
            if F == 3:
                if d not in self.D:
                    raise Unsupported('unknown sequence %06d' % d)
                mem = self.D[d]
                # only a replication-only sequence leaks into the enclosing list
                if self._replication_only(mem):
                    stack.append(iter(mem))
                else:
                    if self.pre(d):
                        continue
                    self.walk_inline(list(mem))
                continue
            if self.pre(d):
                continue
            if F == 0:
                self.plain(d)
            elif F == 1:
                X = d // 1000 % 100
                Y = d % 1000
                if Y == 0:
                    fac = nxt()
                    if fac is None:
                        raise Unsupported('short replication')
                    body = take_expanded(X)
                    cnt = self.factor_count(fac, body)
                else:
                    body = take_expanded(X)
                    cnt = Y
                for _ in range(cnt):
                    self.walk_inline(list(body))
            else:
                self.operator(d)

    def _replication_only(self, mem):
        if not mem or mem[0] // 100000 != 1:
            return False
        delayed = mem[0] % 1000 == 0
        return len(mem) == (2 if delayed else 1)

    # ------------------------------------------------------------------ operators
    def finish_bitmap(self):
        vals = []
        for j in self.bm_idx:
            if len(set(self.cols[j])) != 1:
                raise Unsupported('bitmap differs between subsets')
            vals.append(self.cols[j][0])
        self.define_bitmap(vals, self.bm_reuse)
        self.bm_state = None
        self.bm_idx = []

    def operator(self, d):
        op, y = d // 1000, d % 1000
        self.ops_seen.add(op)
        if op == 201:
            self.dw = y - 128 if y else 0
        elif op == 202:
            self.ds = y - 128 if y else 0
        elif op == 203:
            if y == 255:
                self.newref_bits = 0
            else:
                self.newref_bits = y
                if y == 0:
                    self.newrefs = {}
                elif y < 2:
                    raise Unsupported('203 width below 2')
        elif op == 204:
            if y == 0:
                if not self.assoc:
                    raise Unsupported('204000 without 204YYY')
                self.assoc.pop()
            else:
                # nested 204: every following element is preceded by the associated fields of all
                # operators in force; bit-wise that is one run of sum(YYY) bits, which the library
                # returns as a single combined A-field (its documented flat layout)
                if sum(self.assoc) + y > 64:
                    raise Unsupported('associated fields wider than 64 bits')
                self.assoc.append(y)
        elif op == 205:
            self._ctx = ('op205', d)
            self._m = ('g', y * 8, 0, 0)
            vals = self.rd_str(y)
            self._raw = vals
            self.emit('%06d' % d, list(vals))
        elif op == 206:
            self.skip206 = y
        elif op == 207:
            self.m207 = y
        elif op == 208:
            self.nbytes = y
        elif op == 221:
            self.dnp = y
        elif op in (222, 223, 224, 225, 232):
            if y == 0:
                if self.boundary is None or not self.backref:
                    self.boundary = len(self.labels)
                self.const('%06d' % d, 0)
                self.bm_state = 'expect'
                self.bm_idx = []
                self.bm_reuse = False
                self.qa = 1 if op == 222 else 0
            elif y == 255 and op != 222:
                owner = self.next_bitmapped()
                if self.elem_id[owner] is None:
                    raise Unsupported('owner is not an element')
                self.links[len(self.labels)] = owner
                # the link key is the marker's own index: an associated field cannot precede
                # it here (marker under 204 is Unsupported)
                self.element(self.elem_id[owner], marker=d)
            else:
                raise Unsupported('operator %06d' % d)
        elif op == 235:
            if y != 0:
                raise Unsupported('operator %06d' % d)
            self.backref = None
            self.cur = None
            self.reuse_bitmap = None
            self.boundary = None
            self.qa = 0
        elif op == 236:
            if y != 0:
                raise Unsupported('operator %06d' % d)
            self.const('%06d' % d, 0)
            if self.bm_state == 'expect':
                self.bm_reuse = True
        elif op == 237:
            if y == 0:
                if self.reuse_bitmap is None:
                    raise Unsupported('237000 without kept bitmap')
                self.cur_list = self.reuse_bitmap
                self.cur = iter(self.reuse_bitmap)
                self.bm_state = None
            elif y == 255:
                self.reuse_bitmap = None
            else:
                raise Unsupported('operator %06d' % d)
            self.const('%06d' % d, 0)
        else:
            raise Unsupported('operator %06d' % d)
