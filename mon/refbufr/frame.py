"""R's message framing for editions 2, 3, 4: hard-coded octet layouts (NOT read from the
repository's definitions/*.json), parser and producer.

Parameter names are the repository's public metadata names (the '%name' query API).
"""
from .bits import RBits, WBits
from .walker import Unsupported

U, BOOL, BIN = 'uint', 'bool', 'bin'

SEC0 = [('start_signature', 32, 'bytes'), ('length', 24, U), ('edition', 8, U)]

SEC1 = {
    4: [('section_length', 24, U), ('master_table_number', 8, U), ('originating_centre', 16, U),
        ('originating_subcentre', 16, U), ('update_sequence_number', 8, U),
        ('is_section2_presents', 1, BOOL), ('flag_bits', 7, BIN), ('data_category', 8, U),
        ('data_i18n_subcategory', 8, U), ('data_local_subcategory', 8, U),
        ('master_table_version', 8, U), ('local_table_version', 8, U), ('year', 16, U),
        ('month', 8, U), ('day', 8, U), ('hour', 8, U), ('minute', 8, U), ('second', 8, U)],
    3: [('section_length', 24, U), ('master_table_number', 8, U), ('originating_subcentre', 8, U),
        ('originating_centre', 8, U), ('update_sequence_number', 8, U),
        ('is_section2_presents', 1, BOOL), ('flag_bits', 7, BIN), ('data_category', 8, U),
        ('data_local_subcategory', 8, U), ('master_table_version', 8, U),
        ('local_table_version', 8, U), ('year', 8, U), ('month', 8, U), ('day', 8, U),
        ('hour', 8, U), ('minute', 8, U), ('second', 8, U)],
    2: [('section_length', 24, U), ('master_table_number', 8, U), ('originating_centre', 16, U),
        ('update_sequence_number', 8, U), ('is_section2_presents', 1, BOOL), ('flag_bits', 7, BIN),
        ('data_category', 8, U), ('data_local_subcategory', 8, U), ('master_table_version', 8, U),
        ('local_table_version', 8, U), ('year', 8, U), ('month', 8, U), ('day', 8, U),
        ('hour', 8, U), ('minute', 8, U), ('second', 8, U)],
}
SEC2 = [('section_length', 24, U), ('reserved_bits', 8, BIN), ('local_bits', 0, BIN)]
SEC3 = [('section_length', 24, U), ('reserved_bits', 8, BIN), ('n_subsets', 16, U),
        ('is_observation', 1, BOOL), ('is_compressed', 1, BOOL), ('flag_bits', 6, BIN),
        ('unexpanded_descriptors', 0, 'ids')]
SEC4 = [('section_length', 24, U), ('reserved_bits', 8, BIN), ('template_data', 0, 'data')]
SEC5 = [('stop_signature', 32, 'bytes')]


def section_layouts(edition, sec2):
    out = [(0, SEC0), (1, SEC1[edition])]
    if sec2:
        out.append((2, SEC2))
    out += [(3, SEC3), (4, SEC4), (5, SEC5)]
    return out


def all_parameter_names():
    names = []
    for lay in [SEC0, SEC1[2], SEC1[3], SEC1[4], SEC2, SEC3, SEC4, SEC5]:
        for n, _, _ in lay:
            if n not in names:
                names.append(n)
    return names


class Frame(object):
    """Result of parsing: per section index -> (start_octet, declared_length, [(name, value)])"""

    def __init__(self):
        self.sections = {}
        self.order = []

    def param(self, name, sec=None):
        """first section (in order) holding the parameter / section `sec`; KeyError if none."""
        for idx in self.order:
            if sec is not None and idx != sec:
                continue
            for n, v in self.sections[idx][2]:
                if n == name:
                    return v
        raise KeyError(name)

    def has(self, name, sec=None):
        try:
            self.param(name, sec)
            return True
        except KeyError:
            return False


def _rd(bits, typ, n):
    if typ == U:
        return bits.u(n)
    if typ == BOOL:
        return bool(bits.u(1))
    if typ == BIN:
        return format(bits.u(n), '0%db' % n) if n else ''
    if typ == 'bytes':
        return bits.bytes_(n // 8)
    raise AssertionError(typ)


def parse_frame(b):
    """b must start with 'BUFR'. Raises Unsupported / ValueError on malformed framing."""
    bits = RBits(b)
    fr = Frame()
    if b[:4] != b'BUFR':
        raise ValueError('no start signature')
    vals = [(n, _rd(bits, t, w)) for n, w, t in SEC0]
    fr.sections[0] = (0, 8, vals)
    fr.order.append(0)
    total = vals[1][1]
    ed = vals[2][1]
    if ed not in (2, 3, 4):
        raise Unsupported('edition %d' % ed)
    fr.edition, fr.total = ed, total
    pos = 8
    sec2 = False
    for idx in (1, 2, 3, 4):
        if idx == 2 and not sec2:
            continue
        lay = {1: SEC1[ed], 2: SEC2, 3: SEC3, 4: SEC4}[idx]
        bits.pos = pos * 8
        ln = bits.u(24)
        bits.pos = pos * 8
        end = pos + ln
        if end * 8 > bits.n:
            raise ValueError('section %d extends past the buffer' % idx)
        vals = []
        for n, w, t in lay:
            if t == 'ids':
                used = bits.pos // 8 - pos
                nd = (ln - used) // 2
                ids = []
                for _ in range(nd):
                    f = bits.u(2)
                    x = bits.u(6)
                    y = bits.u(8)
                    ids.append(f * 100000 + x * 1000 + y)
                vals.append((n, ids))
            elif t == 'data':
                fr.data_start = bits.pos
                fr.data_end = end * 8
                vals.append((n, None))
            elif w == 0:
                rest = end * 8 - bits.pos
                if rest < 0:
                    raise ValueError('section %d shorter than its fixed part' % idx)
                vals.append((n, _rd(bits, t, rest)))
            else:
                vals.append((n, _rd(bits, t, w)))
        if bits.pos > end * 8:
            raise ValueError('section %d shorter than its content' % idx)
        fr.sections[idx] = (pos, ln, vals)
        fr.order.append(idx)
        if idx == 1:
            sec2 = dict(vals)['is_section2_presents']
        pos = end
    bits.pos = pos * 8
    sig = bits.bytes_(4)
    fr.sections[5] = (pos, 4, [('stop_signature', sig)])
    fr.order.append(5)
    fr.end = pos + 4
    fr.bits = bits
    return fr


DEFAULT_META = dict(master_table_number=0, originating_centre=0, originating_subcentre=0,
                    update_sequence_number=0, flag_bits1='0000000', data_category=0,
                    data_i18n_subcategory=0, data_local_subcategory=0, master_table_version=33,
                    local_table_version=0, year=2020, month=1, day=1, hour=0, minute=0, second=0,
                    is_observation=True, flag_bits3='000000', reserved2='00000000',
                    reserved3='00000000', reserved4='00000000')


def build_frame(edition, meta, ids, nsub, compressed, data, sec2=None, surplus=None,
                total_override=None):
    """Return message bytes.  `data` are the (octet padded) data bits of section 4.
    sec2: None or bytes of local octets.  surplus: {section: extra zero octets} declared inside the
    section after its content (sections 1,2,4 any k; section 3 only 0/1)."""
    m = dict(DEFAULT_META)
    m.update(meta or {})
    surplus = surplus or {}
    even = edition <= 3
    year = m['year']
    if edition <= 3:
        year = year % 100 if year > 255 else year

    def sec(body, idx):
        body = body + b'\0' * surplus.get(idx, 0)
        n = len(body) + 3
        if even and n % 2:
            body += b'\0'
            n += 1
        return n.to_bytes(3, 'big') + body

    fl = (0x80 if sec2 is not None else 0) | int(m['flag_bits1'], 2)
    if edition == 4:
        s1 = (bytes([m['master_table_number']]) + m['originating_centre'].to_bytes(2, 'big') +
              m['originating_subcentre'].to_bytes(2, 'big') +
              bytes([m['update_sequence_number'], fl, m['data_category'],
                     m['data_i18n_subcategory'], m['data_local_subcategory'],
                     m['master_table_version'], m['local_table_version']]) +
              year.to_bytes(2, 'big') +
              bytes([m['month'], m['day'], m['hour'], m['minute'], m['second']]))
    elif edition == 3:
        s1 = bytes([m['master_table_number'], m['originating_subcentre'] & 255,
                    m['originating_centre'] & 255, m['update_sequence_number'], fl,
                    m['data_category'], m['data_local_subcategory'], m['master_table_version'],
                    m['local_table_version'], year, m['month'], m['day'], m['hour'], m['minute'],
                    m['second']])
    else:
        s1 = (bytes([m['master_table_number']]) + (m['originating_centre'] & 0xffff).to_bytes(2, 'big') +
              bytes([m['update_sequence_number'], fl, m['data_category'],
                     m['data_local_subcategory'], m['master_table_version'],
                     m['local_table_version'], year, m['month'], m['day'], m['hour'], m['minute'],
                     m['second']]))
    S1 = sec(s1, 1)
    S2 = sec(bytes([int(m['reserved2'], 2)]) + sec2, 2) if sec2 is not None else b''
    f3 = (0x80 if m['is_observation'] else 0) | (0x40 if compressed else 0) | int(m['flag_bits3'], 2)
    d3 = bytes([int(m['reserved3'], 2)]) + nsub.to_bytes(2, 'big') + bytes([f3])
    for i in ids:
        d3 += bytes([((i // 100000) << 6) | (i // 1000 % 100), i % 1000])
    S3 = sec(d3, 3)
    S4 = sec(bytes([int(m['reserved4'], 2)]) + data, 4)
    body = S1 + S2 + S3 + S4 + b'7777'
    total = 8 + len(body) if total_override is None else total_override
    return b'BUFR' + total.to_bytes(3, 'big') + bytes([edition]) + body


def expected_metadata(edition, meta, ids, nsub, compressed, sec2, surplus=None):
    """What section parameters a decoder must report for a message made by build_frame
    (lengths excluded): ordered [(section index, [(name, value)])]."""
    m = dict(DEFAULT_META)
    m.update(meta or {})
    year = m['year']
    if edition <= 3:
        year = year % 100 if year > 255 else year
    v = dict(m)
    v['year'] = year
    v['is_section2_presents'] = sec2 is not None
    v['flag_bits'] = m['flag_bits1']
    if edition == 3:
        v['originating_subcentre'] &= 255
        v['originating_centre'] &= 255
    out = [(0, [('start_signature', b'BUFR'), ('edition', edition)])]
    out.append((1, [(n, v[n]) for n, _, _ in SEC1[edition] if n != 'section_length']))
    if sec2 is not None:
        body = sec2 + b'\0' * (surplus or {}).get(2, 0)
        if edition <= 3 and (len(body) + 4) % 2:
            body += b'\0'
        out.append((2, [('reserved_bits', m['reserved2']),
                        ('local_bits', ''.join('{:08b}'.format(x) for x in body))]))
    out.append((3, [('reserved_bits', m['reserved3']), ('n_subsets', nsub),
                    ('is_observation', bool(m['is_observation'])), ('is_compressed', bool(compressed)),
                    ('flag_bits', m['flag_bits3']), ('unexpanded_descriptors', list(ids))]))
    out.append((4, [('reserved_bits', m['reserved4'])]))
    out.append((5, [('stop_signature', b'7777')]))
    return out
