"""R consume direction: message bytes -> per-subset (labels, values, links, meta, raws)."""
from .frame import parse_frame
from .rtables import load_tables
from .walker import Walker, Unsupported
from .bits import PastEnd


class Subset(object):
    __slots__ = ('labels', 'values', 'links', 'meta', 'raws', 'ambig')

    def __init__(self, labels, values, links, meta, raws, ambig=()):
        self.labels, self.values, self.links, self.meta, self.raws = labels, values, links, meta, raws
        self.ambig = ambig  # indices whose value may legitimately also be reported as missing


def subsets_from_walkers(walkers, compressed, nsub):
    out = []
    if compressed:
        w = walkers[0]
        for k in range(nsub):
            out.append(Subset(w.labels, [c[k] for c in w.cols], w.links, w.meta,
                              [None if r is None else r[k] for r in w.raws],
                              set(i for i, cs in w.ambig.items() if k in cs)))
    else:
        for w in walkers:
            out.append(Subset(w.labels, [c[0] for c in w.cols], w.links, w.meta,
                              [None if r is None else r[0] for r in w.raws]))
    return out


def decode(b, tables_root=None, extra_B=None, extra_D=None, inline_sequences=False):
    i = b.find(b'BUFR')
    if i < 0:
        raise ValueError('no start signature')
    b = b[i:]
    fr = parse_frame(b)
    g = fr.param
    B, D = load_tables(g('master_table_number'), g('originating_centre'),
                       g('originating_subcentre') if fr.has('originating_subcentre') else 0,
                       g('master_table_version'), g('local_table_version'), root=tables_root)
    if extra_B or extra_D:
        B = dict(B)
        D = dict(D)
        B.update(extra_B or {})
        D.update(extra_D or {})
    nsub = g('n_subsets')
    comp = g('is_compressed')
    ids = g('unexpanded_descriptors')
    bits = fr.bits
    bits.pos = fr.data_start
    walkers = []
    try:
        if comp:
            if nsub == 0:
                raise Unsupported('no subsets')
            w = Walker(B, D, bits, True, nsub, inline_sequences)
            w.run(ids)
            walkers.append(w)
        else:
            for _ in range(nsub):
                w = Walker(B, D, bits, False, 1, inline_sequences)
                w.run(ids)
                walkers.append(w)
    except PastEnd:
        raise ValueError('data run past the end of the buffer')
    if bits.pos > fr.data_end:
        raise ValueError('data overrun the declared section 4 length')
    # padding bits must be zero where R produced them; foreign encoders may differ, so only report
    pad = fr.data_end - bits.pos
    padbits = bits.u(pad) if pad else 0
    return dict(frame=fr, edition=fr.edition, total=fr.total, nsub=nsub, comp=comp, ids=ids,
                subsets=subsets_from_walkers(walkers, comp, nsub), end=fr.end,
                stop=fr.sections[5][2][0][1], padding_bits=pad, padding_value=padbits,
                nbs=(walkers[0].nbs if comp and walkers else None),
                noncanon=any(getattr(w, 'noncanon_unit_under_op', False) for w in walkers),
                ops=set().union(*[w.ops_seen for w in walkers]) if walkers else set())
