"""R's own bit tape: big-endian bit strings held in Python ints.

Shares nothing with pybufrkit.bitops / bitstring.
"""


class PastEnd(Exception):
    pass


class RBits(object):
    """Reader over immutable bytes."""

    def __init__(self, b):
        self.n = len(b) * 8
        self.v = int.from_bytes(b, 'big')
        self.pos = 0

    def u(self, k):
        if k < 0 or self.pos + k > self.n:
            raise PastEnd('read of %d bits at %d past end %d' % (k, self.pos, self.n))
        if k == 0:
            return 0
        sh = self.n - self.pos - k
        r = (self.v >> sh) & ((1 << k) - 1)
        self.pos += k
        return r

    def bytes_(self, k):
        return self.u(8 * k).to_bytes(k, 'big') if k else b''


class WBits(object):
    """Append-only writer."""

    def __init__(self):
        self.v = 0
        self.n = 0

    def u(self, x, k):
        if k == 0:
            return
        if not (0 <= x < (1 << k)):
            raise ValueError('value %r does not fit %d bits' % (x, k))
        self.v = (self.v << k) | x
        self.n += k

    def raw(self, b):
        for ch in b:
            self.u(ch, 8)

    def pad8(self):
        self.u(0, (-self.n) % 8)

    def bytes(self):
        assert self.n % 8 == 0
        return self.v.to_bytes(self.n // 8, 'big')


def bits_of(b):
    """bytes -> '0101..' string (model helper for C19)."""
    return ''.join('{:08b}'.format(x) for x in b)
