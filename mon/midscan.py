"""Work done while a scan is suspended at a `yield`.

`generate_bufr_message` is the one place where the library hands control back to the caller in the middle of an operation.  Whatever
a scan keeps for its own use between two `next()` calls (options, a filter, a reader over its stream, a template it built, the
section layouts it cut down for a metadata-only pass) belongs to THAT scan: the caller may, between two `next()` calls and on
the same Decoder, decode other messages, start or finish other scans, leave a scan half-way - and every result is still the
result of its own input and its own options.  All the properties about decoding are stated for a call and its arguments; none of
them exempts a call that is made from inside the loop body of a running scan.

    scenarios(ctx, prefix, make_decoder, A, B, judge, spec)

A, B: two lists of (message bytes, expectation).  `judge(kind, m, expectation, options)` returns None or a short description
of what is wrong with the decoded message `m` (kind: 'full' or 'info'); it is the calling check's own oracle (R's values, R's
links, the span, the renderings ...).  The scenarios, each on ONE decoder from make_decoder():
  alternate      two scans (own options each) over stream A and stream B advanced under a random schedule
  nested-process Decoder.process(b) for the messages of B from inside the loop body of a scan over A
  nested-scan    a complete scan of B from inside the loop body of a scan over A
  abandoned      a scan over A left suspended after its first message (the generator is kept alive, or closed, or dropped), then
                 decodes and a scan of B, then - when it was kept - the rest of A
  late           all messages of a scan over A collected first, B decoded in between, A's messages judged afterwards
Signatures:  <prefix>/mid-scan/<scenario>/<what>   (what: raises:<type> | lost | extra | wrong:<first words of the judge>)
"""
import itertools

SCAN_OPTIONS = [{}, {}, dict(info_only=True), dict(wire_template_data=False), dict(continue_on_error=True),
                dict(ignore_value_expectation=True), dict(filter_expr='${%edition} > 1'), dict(filter_expr='${%n_subsets} >= 1', info_only=True),
                dict(info_only=True, ignore_value_expectation=True), dict(filter_expr='${%length} > 0', wire_template_data=False)]


def _join(parts, rng):
    seps = [b'', b'\r\r\n', b'\x01\r\r\n123\r\r\n', b'xx']
    return b''.join(rng.choice(seps) + p for p in parts) + rng.choice(seps)


class _Run(object):
    def __init__(self, ctx, prefix, scenario, judge, spec):
        self.ctx, self.prefix, self.scenario, self.judge, self.spec = ctx, prefix, scenario, judge, spec
        self.trace = []
        self.bad = False

    def violate(self, what, text, exc=None):
        if self.bad:
            return
        self.bad = True
        self.ctx.violate('%s/mid-scan/%s/%s' % (self.prefix, self.scenario, what), '%s [scenario %s: %s]' % (text, self.scenario, ' '.join(self.trace[-14:])),
                         dict(self.spec, scenario=self.scenario, trace=list(self.trace)), exc=exc)

    def check(self, m, exp, opts, who):
        kind = 'info' if opts.get('info_only') else 'full'
        self.ctx.count('mid_scan_results_judged')
        try:
            d = self.judge(kind, m, exp, opts)
        except Exception as e:
            self.violate('judging-raises:%s' % type(e).__name__, 'reading the message delivered by %s raised %r' % (who, e), exc=e)
            return
        if d:
            # (tag, text): the tag names the clause that is broken and goes into the signature - no values, no random choices
            tag, text = d if isinstance(d, tuple) else ('-'.join(str(d).split()[:2]), d)
            self.violate('wrong:%s' % tag, '%s: %s' % (who, str(text)[:300]))

    def step(self, gen, exps, at, opts, who):
        """advance one scan by one message; returns new position or None when finished"""
        self.trace.append(who)
        try:
            m = next(gen)
        except StopIteration:
            if at < len(exps):
                self.violate('lost', '%s ended after %d of %d messages' % (who, at, len(exps)))
            return None
        except Exception as e:
            self.violate('raises:%s' % type(e).__name__, '%s raised %s: %s' % (who, type(e).__name__, str(e)[:150]), exc=e)
            return None
        if at >= len(exps):
            self.violate('extra', '%s delivered more messages than its stream holds' % who)
            return None
        if m.serialized_bytes != exps[at][0]:
            self.violate('wrong:bytes', '%s delivered %d octets at position %d, the message there has %d'
                         % (who, len(m.serialized_bytes or b''), at, len(exps[at][0])))
            return None
        self.check(m, exps[at][1], opts, who)
        return at + 1

    def process(self, dec, b, exp, opts, who):
        self.trace.append(who)
        try:
            m = dec.process(b, **opts)
        except Exception as e:
            self.violate('raises:%s' % type(e).__name__, '%s raised %s: %s' % (who, type(e).__name__, str(e)[:150]), exc=e)
            return
        if not opts.get('info_only') and m.serialized_bytes != b:
            self.violate('wrong:bytes', '%s: serialized_bytes has %d octets, the message %d' % (who, len(m.serialized_bytes or b''), len(b)))
            return
        self.check(m, exp, opts, who)


def scenarios(ctx, prefix, make_decoder, A, B, judge, spec, which=None):
    from pybufrkit.decoder import generate_bufr_message
    rng = ctx.rng
    if not A or not B:
        return
    sa, sb = _join([a[0] for a in A], rng), _join([b[0] for b in B], rng)
    names = which or ['alternate', 'nested-process', 'nested-scan', 'abandoned', 'late']
    for scenario in names:
        oa, ob = dict(rng.choice(SCAN_OPTIONS)), dict(rng.choice(SCAN_OPTIONS))
        run = _Run(ctx, prefix, scenario, judge, dict(spec, options_a=oa, options_b=ob, stream_a_hex=sa.hex()[:6000], stream_b_hex=sb.hex()[:6000]))
        ctx.count('mid_scan_scenarios')
        ctx.add('mid_scan_scenarios_seen', '%s/%s/%s' % (scenario, '+'.join(sorted(oa)) or 'default', '+'.join(sorted(ob)) or 'default'))
        try:
            dec = make_decoder()
        except Exception as e:
            ctx.notes.append('midscan: decoder factory failed %r' % (e,))
            return
        try:
            if scenario == 'alternate':
                ga, gb = generate_bufr_message(dec, sa, **oa), generate_bufr_message(dec, sb, **ob)
                pa, pb = 0, 0
                while (pa is not None or pb is not None) and len(run.trace) < 60 and not run.bad:
                    if pb is None or (pa is not None and rng.random() < 0.5):
                        pa = run.step(ga, A, pa, oa, 'scanA%r' % (sorted(oa),))
                    else:
                        pb = run.step(gb, B, pb, ob, 'scanB%r' % (sorted(ob),))
            elif scenario == 'nested-process':
                ga = generate_bufr_message(dec, sa, **oa)
                pa = 0
                j = 0
                while pa is not None and not run.bad and len(run.trace) < 60:
                    pa = run.step(ga, A, pa, oa, 'scanA%r' % (sorted(oa),))
                    if pa is not None or j == 0:
                        b, exp = B[j % len(B)]
                        j += 1
                        po = rng.choice([{}, {}, dict(wire_template_data=False), dict(info_only=True), dict(ignore_value_expectation=True)])
                        run.process(dec, b, exp, po, 'process(B%d)%r' % (j - 1, sorted(po)))
            elif scenario == 'nested-scan':
                ga = generate_bufr_message(dec, sa, **oa)
                pa = 0
                while pa is not None and not run.bad and len(run.trace) < 60:
                    pa = run.step(ga, A, pa, oa, 'scanA%r' % (sorted(oa),))
                    if pa == 1 or (pa is not None and rng.random() < 0.3):
                        gb = generate_bufr_message(dec, sb, **ob)
                        pb = 0
                        while pb is not None and not run.bad:
                            pb = run.step(gb, B, pb, ob, 'inner-scanB%r' % (sorted(ob),))
            elif scenario == 'abandoned':
                ga = generate_bufr_message(dec, sa, **oa)
                pa = run.step(ga, A, 0, oa, 'scanA%r' % (sorted(oa),))
                how = rng.choice(['kept', 'kept', 'closed', 'dropped'])
                run.trace.append('A-' + how)
                if how == 'closed':
                    ga.close()
                elif how == 'dropped':
                    ga = None
                for j, (b, exp) in enumerate(B[:2]):
                    run.process(dec, b, exp, {}, 'process(B%d)' % j)
                gb = generate_bufr_message(dec, sb, **ob)
                pb = 0
                while pb is not None and not run.bad:
                    pb = run.step(gb, B, pb, ob, 'scanB%r' % (sorted(ob),))
                if how == 'kept':
                    while pa is not None and not run.bad:
                        pa = run.step(ga, A, pa, oa, 'scanA-resumed')
                for j, (b, exp) in enumerate(A[:1]):
                    run.process(dec, b, exp, {}, 'process(A%d)-afterwards' % j)
            elif scenario == 'late':
                run.trace.append('list(scanA%r)' % (sorted(oa),))
                try:
                    got = list(itertools.islice(generate_bufr_message(dec, sa, **oa), len(A) + 2))
                except Exception as e:
                    run.violate('raises:%s' % type(e).__name__, 'list(scanA) raised %s: %s' % (type(e).__name__, str(e)[:150]), exc=e)
                    continue
                held = []
                for j, (b, exp) in enumerate(B):
                    run.trace.append('process(B%d)' % j)
                    try:
                        held.append((dec.process(b, wire_template_data=bool(j % 2)), exp, b))
                    except Exception as e:
                        run.violate('raises:%s' % type(e).__name__, 'process(B%d) raised %r' % (j, e), exc=e)
                if len(got) != len(A):
                    run.violate('lost' if len(got) < len(A) else 'extra', 'a scan collected into a list delivered %d messages, its stream holds %d' % (len(got), len(A)))
                else:
                    for j, (m, (b, exp)) in enumerate(zip(got, A)):
                        if m.serialized_bytes != b:
                            run.violate('wrong:bytes', 'message %d of the collected scan holds %d octets, expected %d' % (j, len(m.serialized_bytes or b''), len(b)))
                            break
                        run.check(m, exp, oa, 'collected-A%d-read-after-B' % j)
                for j, (m, exp, b) in enumerate(held):
                    try:
                        m.wire()
                    except Exception as e:
                        run.violate('raises:%s' % type(e).__name__, 'wire() of B%d raised %r' % (j, e), exc=e)
                    run.check(m, exp, {}, 'B%d-read-at-the-end' % j)
        except Exception as e:
            # an error of this harness is not a verdict about the library
            ctx.count('mid_scan_harness_errors')
            ctx.notes.append('midscan harness error in %s: %r' % (scenario, e))
