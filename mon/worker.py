"""One shard of one check, run in its own interpreter:
    python -m mon.worker <prop> <tier> <seed> <shard> <nshards> <budget_s> <outfile> [replayfile]
"""
import importlib
import json
import logging
import os
import sys
import traceback


def main(argv):
    prop, tier, seed, shard, nshards, budget, outfile = argv[:7]
    replay = argv[7] if len(argv) > 7 else None
    logging.disable(logging.CRITICAL)
    if int(shard) % 5 == 4 and os.environ.get('VERIF_DEBUG_SHARDS', '1') != '0':
        # every fifth shard runs with the root logger at DEBUG (what `pybufrkit --debug` sets; records themselves stay disabled):
        # the library then keeps decoded values in its audited list type - nothing a property states depends on the logging level
        logging.root.setLevel(logging.DEBUG)
    from mon.ctx import Ctx
    ctx = Ctx(prop, tier, int(seed), int(shard), int(nshards), float(budget))
    mod = importlib.import_module('mon.checks.' + prop.lower())
    wanted = getattr(mod, 'MONITORS', ('boundary', 'tape', 'telemetry', 'contracts'))
    attached = {}
    try:
        import pybufrkit  # noqa: F401  (the tree under test must import)
        from mon.monitors import tape, boundary, telemetry, contracts
        if 'telemetry' in wanted:
            attached['telemetry'] = telemetry.attach()
        if 'contracts' in wanted:
            # before the boundary recorder: icontract needs the real signatures
            attached['contracts'] = contracts.attach()
        if 'boundary' in wanted:
            attached['boundary'] = boundary.attach()
        if 'tape' in wanted:
            attached['tape'] = tape.attach()
        if not getattr(mod, 'TWINS_OFF', False) and not replay:
            # differently configured instances given the same input first (interleaving injection at the API boundary)
            from mon import twins
            attached['twins'] = twins.attach(seed, shard, tier, **getattr(mod, 'TWINS', {}).get(tier, {}))
    except Exception as e:  # import failure of the tree under test: inconclusive, not violation
        ctx.notes.append('attach failed: %r' % (e,))
        ctx.counters['attach_failed'] = 1
    ctx.attached = attached
    if logging.root.level == logging.DEBUG:
        ctx.counters['shards_with_root_logger_at_debug'] = 1
    try:
        if replay:
            with open(replay) as f:
                case = json.load(f)
            mod.replay(ctx, case)
        else:
            mod.run(ctx)
    except Exception as e:
        ctx.notes.append('harness exception: ' + ''.join(
            traceback.format_exception(type(e), e, e.__traceback__))[-2500:])
        ctx.counters['harness_exception'] += 1
    try:
        from mon.monitors import tape, boundary, telemetry
        ctx.monitor['tape'] = tape.stats()
        ctx.monitor['boundary'] = boundary.stats()
        from mon.monitors import contracts
        ctx.monitor['contracts'] = contracts.stats()
        from mon import twins
        ctx.monitor['twins'] = twins.stats()
        for name, nb in contracts.breaks.items():
            ctx.violate('contract/' + name, 'icontract post-condition on %s broken %d time(s); first: %s'
                        % (name, nb, contracts.first_breaks.get(name)), dict(contract=name), advisory=True)
        anchors = getattr(mod, 'anchors', None)
        if anchors and telemetry.STATE['attached']:
            ctx.monitor['reach'] = telemetry.reach(anchors())
        ctx.monitor['telemetry_lines'] = len(telemetry.lines)
        dump = os.environ.get('VERIF_LINEDUMP')
        if dump:   # tools/linegaps.py: which source lines did the workloads never reach
            os.makedirs(dump, exist_ok=True)
            with open(os.path.join(dump, '%s-%s-%s.json' % (prop, tier, shard)), 'w') as f:
                json.dump(sorted(telemetry.lines), f)
        ctx.monitor['attached'] = attached
    except Exception as e:
        ctx.notes.append('monitor stats failed: %r' % (e,))
    with open(outfile, 'w') as f:
        json.dump(ctx.result(), f)


if __name__ == '__main__':
    main(sys.argv[1:])
