"""C12 - damage is detected, reported as a library error, and isolated to one message.

Fault enumeration at the byte level:
 (a) every proper prefix of a message must fail to decode; appended bytes never change a decode;
 (b) streams of 2..5 messages with every subset of messages damaged (exhaustive for n <= 4) by
     {overwritten stop signature, undefined element / sequence substituted in section 3, section
     length -2/-1/+1/+2 with the total intact}: with continue-on-error the yield log must be
     exactly the undamaged messages in order (full mode; info-only: all undamaged ones delivered in
     order, extra yields only damaged messages whose fault lies in parts not read);
 (c) without continue-on-error the messages before the first damaged one are delivered and the
     failure is a PyBufrKitError; the command line prints no traceback.
Whether a damaged message is *detectably* damaged is decided by R's independent reading of the damaged
bytes (invalid framing / stop signature / undefined descriptor reached); flukes that R reads as a valid
message are counted, not judged.
"""
import itertools
import json
import os
import shutil
import subprocess
import sys

from mon import refbufr as R
from mon.gen import streams, cases
from mon.timelimit import time_limit, CaseTimeout

ID = 'C12'
LEVEL = 'fault_enumeration'
TECHNIQUE = ('runtime monitoring with fault injection: exhaustive truncation and enumerated byte-level damage; '
             'exactly-once/order checker over the yield log; exception-type monitor')
RULE = ('faults: every truncation point of each pool message; 4 suffix kinds; for streams of 2-5 messages every '
        'subset of messages damaged (exhaustive n<=4) by stop-signature overwrite (4 variants), undefined '
        'element/sequence substituted at every reached descriptor position, section 1-4 length -2/-1/+1/+2 with total '
        'intact; full and info-only, with and without continue-on-error, CLI. Non-trivial = >= 1 fault injected; '
        'distinct by SHA-1 of the damaged bytes + mode; declared section lengths 0 and 1; fault streams also through a warmed decoder with template compilation on (scoped templates); pool messages with 221 ranges; seventeen command lines over damaged files')
RULE += '; added with rounds 10-12: fault streams scanned at the same time with different error policies (strict scans must raise after delivering what precedes the damage); every third fault stream also with an all-accepting filter; compressed operator-range messages in the pool; twins'
ASSUMPTIONS = ['a damaged message must be skipped only when R\'s independent reading finds it invalid (framing, stop signature, '
               'undefined descriptor actually reached); damaged messages that R still reads as valid are counted, not judged',
               'any exception satisfies "does not decode" for truncation; PyBufrKitError is demanded for stream failures and the CLI',
               'info-only scanning reads sections 0-3 only: faults in the stop signature or in unreached descriptors may pass there',
               'payloads of damaged messages contain no start signature (phantoms from re-scanning inside a damaged message are outside the statement)']
BUDGET = {'quick': 50, 'thorough': 600}
POOL = {'quick': 160, 'thorough': 960}
REQUIRED = {'quick': {'evaluations': 3000, 'prefixes_tried': 5000, 'prefixes_tried_info_only': 4500, 'suffix_checks': 100, 'damaged_streams_full': 300,
                      'damaged_streams_info': 300, 'faults_stop_signature': 60, 'faults_descriptor': 60,
                      'faults_section_length': 100, 'no_continue_checks': 150, 'cli_checks': 10,
                      'detectable_damaged_messages': 300},
            'thorough': {'evaluations': 42000, 'prefixes_tried': 49000, 'prefixes_tried_info_only': 44000, 'suffix_checks': 1900, 'damaged_streams_full': 6000,
                      'damaged_streams_info': 6000, 'faults_stop_signature': 1000, 'faults_descriptor': 1000,
                      'faults_section_length': 2000, 'no_continue_checks': 3000, 'cli_checks': 100,
                      'detectable_damaged_messages': 6000}}


EXHAUSTIVE = {'quick': False, 'thorough': False}
EXHAUSTIVE_NOTE = {'quick': 'every truncation point of each pool message; every subset of damaged messages for streams of n<=4',
                   'thorough': 'every truncation point of each pool message; every subset of damaged messages for streams of n<=4'}


def anchors():
    from pybufrkit import decoder, bitops
    from pybufrkit.coder import Coder
    return [decoder.generate_bufr_message, decoder.Decoder.process_section, bitops.BitStringBitReader._bit_stream_read,
            Coder.process_members]


def all_faults(b):
    """[(kind, detail, damaged bytes)] for one message: every fault of every kind at every position."""
    out = []
    for v in range(4):
        out.append(('stop-signature', 'v%d' % v, streams.fault_stop_signature(b, None, v)))
    fr = R.parse_frame(b)
    ids = fr.param('unexpanded_descriptors')
    for pos in range(len(ids)):
        if pos > 0 and ids[pos - 1] // 1000 == 206:
            continue
        for seq in (False, True):
            # (which undefined descriptor: 0-63-255 / 0-00-000 / 0-60-200 resp. 3-63-255 / 3-00-000 / 3-60-200 by position)
            out.append(('descriptor', ('sequence' if seq else 'element') + '@%d/v%d' % (pos, pos % 3),
                        streams.fault_descriptor(b, pos, seq, pos % 3)))
    for sec in (1, 2, 3, 4):
        for delta in (-2, -1, 1, 2, 4, 5, 8):      # (+4 and more: the section swallows the end section and what follows)
            d = streams.fault_section_length(b, sec, delta)
            if d is not None:
                out.append(('section-length', 's%d%+d' % (sec, delta), d))
        # the extreme decreases: declared length 0 and 1
        offs = dict((i, ln) for i, st, ln in streams.section_offsets(b))
        if sec in offs:
            for target in (0, 1):
                d = streams.fault_section_length(b, sec, target - offs[sec])
                if d is not None and d != b:
                    out.append(('section-length', 's%d=%d' % (sec, target), d))
    return out


def prefix_check(ctx, dec, msg):
    b = msg.bytes
    from pybufrkit.errors import PyBufrKitError
    for i in range(len(b)):
        ctx.count('prefixes_tried')
        try:
            dec.process(b[:i])
        except PyBufrKitError as e:
            ctx.add('prefix_exceptions', type(e).__name__)
            continue
        except Exception as e:
            ctx.add('prefix_exceptions', type(e).__name__)
            ctx.count('prefix_non_library_exception')
            continue
        sec = 'sec?'
        try:
            for idx, st, ln in streams.section_offsets(b):
                if st <= i:
                    sec = 'sec%d' % idx
        except Exception:
            pass
        ctx.violate('prefix-decodes/%s' % sec, 'the first %d of %d bytes decode successfully' % (i, len(b)),
                    dict(hex=b.hex(), cut=i, ids=msg.ids))
        return
    ctx.evaluated(('prefix', b.hex()), True, sample=dict(kind='all-prefixes', length=len(b), ids=msg.ids))
    # the same prefixes read with info_only=True: that mode reads sections 0-3 and moves over the data section by its
    # declared length, so every prefix that ends before the declared end of section 4 lacks bytes the decoder has to
    # move over and is refused too (a cut inside the stop signature is in a part this mode never reads: not judged, 9.2)
    try:
        end4 = max(st + ln for idx, st, ln in streams.section_offsets(b) if idx == 4)
    except Exception:
        return
    for i in range(min(end4, len(b))):
        ctx.count('prefixes_tried_info_only')
        try:
            dec.process(b[:i], info_only=True)
        except Exception as e:
            ctx.add('prefix_exceptions_info_only', type(e).__name__)
            continue
        sec = 'sec?'
        for idx, st, ln in streams.section_offsets(b):
            if st <= i:
                sec = 'sec%d' % idx
        ctx.violate('prefix-decodes/info-only/%s' % sec, 'the first %d of %d bytes decode successfully with info_only=True '
                    '(section 4 is declared to end at octet %d)' % (i, len(b), end4), dict(hex=b.hex(), cut=i, ids=msg.ids, info_only=True))
        return
    ctx.evaluated(('prefix-info', b.hex()), True)


def digest(m):
    td = m.template_data.value
    return (repr(td.decoded_values_all_subsets), [[str(d) for d in ds] for ds in td.decoded_descriptors_all_subsets],
            m.serialized_bytes)


def suffix_check(ctx, dec, msg, other):
    b = msg.bytes
    try:
        base = digest(dec.process(b))
    except Exception:
        ctx.count('pool_message_does_not_decode')
        return
    for name, suf in (('noise', bytes(ctx.rng.randrange(256) for _ in range(17))), ('message', other.bytes),
                      ('stop', b'7777'), ('start', b'BUFR'), ('zeros', b'\0' * 9)):
        ctx.count('suffix_checks')
        ctx.evaluated(('suffix', b.hex(), name), True)
        try:
            d = digest(dec.process(b + suf))
        except Exception as e:
            ctx.violate('suffix-changes-decode/raises:%s/%s' % (type(e).__name__, name),
                        'decoding a message followed by %s raised %s' % (name, type(e).__name__), dict(hex=b.hex(), suffix=suf.hex()), exc=e)
            continue
        if d != base:
            ctx.violate('suffix-changes-decode/%s' % name, 'bytes following the message (%s) changed its decoding' % name,
                        dict(hex=b.hex(), suffix=suf.hex()))


def collect(gen, cap, out):
    """run the generator, appending yielded bytes to `out`; returns the exception or None.
    A damaged message can make the library interpret garbage as a huge replication count; the
    watchdog (8 s) turns that into a skipped case (CaseTimeout is returned, never judged)."""
    held = []
    try:
        with time_limit(8):
            for m in itertools.islice(gen, cap + 1):
                out.append(m.serialized_bytes)
                held.append(m)
    except BaseException as e:
        return e
    finally:
        # the delivered message objects are kept by the caller: each still holds its own bytes when the scan has moved on
        try:
            if len(set(id(m) for m in held)) != len(held) or [m.serialized_bytes for m in held] != out[len(out) - len(held):]:
                out.append(b'<<a delivered message object no longer holds the bytes it held when it was delivered>>')
        except Exception:
            pass
    return None


def stream_case(ctx, dec, msgs, damage, spec_base):
    """msgs: list of Message; damage: {index: (kind, detail, damaged bytes, verdict)}"""
    from pybufrkit.decoder import generate_bufr_message
    from pybufrkit.errors import PyBufrKitError
    parts = [damage[i][2] if i in damage else m.bytes for i, m in enumerate(msgs)]
    seps = [ctx.rng.choice([b'', b'\r\r\n', b'xx', b'BUF']) for _ in parts]
    stream = b''.join(s + p for s, p in zip(seps, parts))
    cap = len(stream) // 12 + 2
    good = [m.bytes for i, m in enumerate(msgs) if i not in damage]
    detect = [damage[i][2] for i in sorted(damage) if damage[i][3] in ('invalid', 'unknown-descriptor')]
    unjudged = [damage[i][2] for i in sorted(damage) if damage[i][3] not in ('invalid', 'unknown-descriptor')]
    # a damaged section LENGTH can make the header of the message unreadable; the scan then cannot know where the message ends and
    # resumes byte by byte - a complete message embedded in its payload may be found.  Not judged (either behaviour is defensible);
    # with any other damage the declared total length is available and nothing inside the skipped message may be delivered
    for i in damage:
        if damage[i][0] == 'section-length' and getattr(msgs[i], 'inner_bytes', None):
            unjudged.append(msgs[i].inner_bytes)
    kinds = sorted(set(damage[i][0] for i in damage))
    spec = dict(spec_base, stream_hex=stream.hex(), n_messages=len(msgs),
                damaged={str(i): list(damage[i][:2]) + [damage[i][3]] for i in damage})
    ksig = '+'.join(kinds) or 'none'
    sample = dict(n_messages=len(msgs), damaged={str(i): '%s %s (%s)' % (damage[i][0], damage[i][1], damage[i][3]) for i in damage})
    first0 = min([i for i in damage if damage[i][3] in ('invalid', 'unknown-descriptor')] or [None], default=None) if damage else None
    strict_ok = first0 is not None and not any(damage[i][3] not in ('invalid', 'unknown-descriptor') for i in damage if i < first0)
    strict_want = [m.bytes for i, m in enumerate(msgs) if first0 is not None and i < first0] if strict_ok else None
    recent = ctx.__dict__.setdefault('_c12_recent', [])
    recent.append((stream, good, unjudged, spec, ksig, strict_want))
    del recent[:-3]
    # ---- continue-on-error, full mode
    ctx.count('damaged_streams_full')
    ctx.evaluated((stream.hex(), 'full'), bool(damage), sample=sample)
    got = []
    saved = sys.stderr
    sys.stderr = open(os.devnull, 'w')
    try:
        exc = collect(generate_bufr_message(dec, stream, continue_on_error=True), cap, got)
    finally:
        sys.stderr.close()
        sys.stderr = saved
    if isinstance(exc, CaseTimeout):
        ctx.count('case_timeouts')
    elif exc is not None:
        ctx.violate('continue-on-error/escapes:%s/%s' % (type(exc).__name__, ksig),
                    'with continue-on-error %s escaped from the scan (faults: %s)' % (type(exc).__name__, ksig), spec, exc=exc)
    else:
        judged = [g for g in got if g not in unjudged]
        if len(got) > cap:
            ctx.violate('continue-on-error/no-progress', 'more than %d yields' % cap, spec)
        elif judged != good:
            delivered_damaged = [g for g in judged if g in detect]
            if delivered_damaged:
                i = [k for k in damage if damage[k][2] == delivered_damaged[0]][0]
                ctx.violate('continue-on-error/damaged-delivered/%s/%s' % (damage[i][0], damage[i][1].split('@')[0]),
                            'a message damaged by %s %s was delivered in full mode' % damage[i][:2], spec)
            elif all(g in good for g in judged) and len(judged) < len(good):
                ctx.violate('continue-on-error/undamaged-lost/%s' % ksig, 'delivered %d of %d undamaged messages (faults %s)'
                            % (len(judged), len(good), ksig), spec)
            else:
                ctx.violate('continue-on-error/wrong-yields/%s' % ksig, 'yield log differs from the undamaged messages: got lengths %r, '
                            'expected %r' % ([len(g) for g in judged], [len(g) for g in good]), spec)
    # ---- continue-on-error with a filter that accepts every message: the same undamaged messages (the header pass made for the
    # filter is one more place where a damaged message is met)
    if ctx.counters['damaged_streams_full'] % 3 == 0:
        ctx.count('damaged_streams_filtered')
        got = []
        saved = sys.stderr
        sys.stderr = open(os.devnull, 'w')
        try:
            exc = collect(generate_bufr_message(dec, stream, continue_on_error=True, filter_expr='${%edition} >= 2 and ${%length} > 0'), cap, got)
        finally:
            sys.stderr.close()
            sys.stderr = saved
        if isinstance(exc, CaseTimeout):
            ctx.count('case_timeouts')
        elif exc is not None:
            ctx.violate('continue-on-error/filter/escapes:%s/%s' % (type(exc).__name__, ksig),
                        'with continue-on-error and a filter %s escaped from the scan (faults: %s)' % (type(exc).__name__, ksig), spec, exc=exc)
        else:
            judged = [g for g in got if g not in unjudged]
            if judged != good and all(g in good for g in judged):
                ctx.violate('continue-on-error/filter/undamaged-lost/%s' % ksig, 'with an all-accepting filter delivered %d of %d undamaged messages (faults %s)'
                            % (len(judged), len(good), ksig), spec)
            elif judged != good:
                ctx.violate('continue-on-error/filter/wrong-yields/%s' % ksig, 'with an all-accepting filter the yield log differs from the undamaged messages: '
                            'got lengths %r, expected %r' % ([len(g) for g in judged], [len(g) for g in good]), spec)
    # ---- continue-on-error, info-only
    ctx.count('damaged_streams_info')
    ctx.evaluated((stream.hex(), 'info'), bool(damage))
    got = []
    saved = sys.stderr
    sys.stderr = open(os.devnull, 'w')
    try:
        exc = collect(generate_bufr_message(dec, stream, continue_on_error=True, info_only=True), cap, got)
    finally:
        sys.stderr.close()
        sys.stderr = saved
    if isinstance(exc, CaseTimeout):
        ctx.count('case_timeouts')
    elif exc is not None:
        ctx.violate('continue-on-error/info-only/escapes:%s/%s' % (type(exc).__name__, ksig),
                    'info-only scan with continue-on-error: %s escaped' % type(exc).__name__, spec, exc=exc)
    else:
        alld = [damage[i][2] for i in damage]
        core = [g for g in got if g in good]
        extra = [g for g in got if g not in good and g not in alld and g not in unjudged]
        if core != good:
            ctx.violate('continue-on-error/info-only/undamaged-lost-or-reordered/%s' % ksig,
                        'info-only scan delivered %d of %d undamaged messages' % (len(core), len(good)), spec)
        elif extra:
            ctx.violate('continue-on-error/info-only/phantom/%s' % ksig, 'info-only scan yielded %d messages that are not in the stream'
                        % len(extra), spec)
    # ---- no continue-on-error: preceding delivered, then the library's error type
    first = min([i for i in damage if damage[i][3] in ('invalid', 'unknown-descriptor')] or [None], default=None) \
        if damage else None
    if first is not None and not any(damage[i][3] not in ('invalid', 'unknown-descriptor') for i in damage if i < first):
        ctx.count('no_continue_checks')
        got = []
        exc = collect(generate_bufr_message(dec, stream), cap, got)
        want = [m.bytes for i, m in enumerate(msgs) if i < first]
        k = damage[first]
        if isinstance(exc, CaseTimeout):
            ctx.count('case_timeouts')
        elif exc is None:
            ctx.violate('no-continue/no-error/%s' % k[0], 'scan without continue-on-error ended without an error although message %d '
                        'is damaged (%s %s)' % (first, k[0], k[1]), spec)
        else:
            ctx.add('exception_by_fault', '%s %s -> %s' % (k[0], k[1].split('@')[0], type(exc).__name__))
            if not isinstance(exc, PyBufrKitError):
                ctx.violate('no-continue/wrong-exception:%s/%s' % (type(exc).__name__, k[0]),
                            'damage %s %s surfaced as %s, not as PyBufrKitError' % (k[0], k[1], type(exc).__name__), spec, exc=exc)
            if got != want:
                ctx.violate('no-continue/preceding-not-delivered/%s' % k[0], 'delivered %d messages before the failure, expected %d'
                            % (len(got), len(want)), spec)
    return stream


def interleaved_fault_scans(ctx, decs):
    """two or three fault streams scanned with continue-on-error AT THE SAME TIME (generators advanced under a random schedule, on one
    shared decoder or one each; a scan may be left half-way): each scan still delivers exactly its own undamaged messages, in
    order - a message refused in one scan leaves nothing behind for the scan that is advanced next."""
    from pybufrkit.decoder import generate_bufr_message
    recent = list(getattr(ctx, '_c12_recent', []))
    if len(recent) < 2:
        return
    rng = ctx.rng
    gens = []
    for i, (stream, good, unjudged, spec, ksig, strict_want) in enumerate(recent):
        # every scan has its own error policy: some of the scans stop at the first damaged message (no continue-on-error) and must
        # raise the library's error there, after delivering what precedes it - while the others carry on past theirs
        strict = strict_want is not None and rng.random() < 0.4
        gens.append(dict(gen=generate_bufr_message(decs[i % len(decs)], stream, continue_on_error=not strict), got=[], good=good, unjudged=unjudged,
                         spec=spec, ksig=ksig, done=False, strict=strict, strict_want=strict_want, raised=None,
                         leave=(rng.randrange(len(good) + 1) if rng.random() < 0.25 and not strict else None)))
    live = list(gens)
    schedule = []
    saved = sys.stderr
    sys.stderr = open(os.devnull, 'w')
    failed = None
    try:
        with time_limit(20):
            while live and len(schedule) < 300:
                g = rng.choice(live)
                schedule.append(gens.index(g))
                if g['leave'] is not None and len([x for x in g['got'] if x not in g['unjudged']]) >= g['leave']:
                    g['gen'].close()
                    live.remove(g)
                    ctx.count('fault_scans_left_half_way')
                    continue
                try:
                    m = next(g['gen'])
                except StopIteration:
                    g['done'] = True
                    live.remove(g)
                    continue
                except Exception as e:
                    if not g['strict']:
                        raise
                    g['raised'] = e
                    g['done'] = True
                    live.remove(g)
                    continue
                g['got'].append(m.serialized_bytes)
    except CaseTimeout:
        ctx.count('case_timeouts')
        return
    except BaseException as e:
        failed = e
    finally:
        sys.stderr.close()
        sys.stderr = saved
    ctx.count('interleaved_fault_scan_groups')
    ctx.add('interleaving_schedules', ''.join(str(x) for x in schedule)[:50])
    if failed is not None:
        ctx.violate('interleaved/continue-on-error/escapes:%s' % type(failed).__name__, 'with continue-on-error %s escaped from one of %d scans advanced alternately'
                    % (type(failed).__name__, len(gens)), dict(gens[0]['spec'], schedule=schedule[:60]), exc=failed)
        return
    from pybufrkit.errors import PyBufrKitError
    for g in gens:
        if g['strict']:
            ctx.count('interleaved_strict_scans')
            ctx.evaluated((g['spec'].get('stream_hex'), 'interleaved-strict', tuple(schedule)), True)
            sp = dict(g['spec'], schedule=schedule[:60], decoders=len(decs), strict=True)
            if g['raised'] is None:
                ctx.violate('interleaved/no-continue/no-error/%s' % g['ksig'], 'a scan WITHOUT continue-on-error, advanced alternately with %d continue-on-error scans, '
                            'ended without an error although its stream holds a damaged message (delivered %d messages)' % (len(gens) - 1, len(g['got'])), sp)
            elif not isinstance(g['raised'], PyBufrKitError):
                ctx.violate('interleaved/no-continue/wrong-exception:%s' % type(g['raised']).__name__, 'damage surfaced as %s, not as PyBufrKitError'
                            % type(g['raised']).__name__, sp, exc=g['raised'])
            elif g['got'] != g['strict_want']:
                ctx.violate('interleaved/no-continue/preceding-not-delivered/%s' % g['ksig'], 'delivered %d messages before the failure, expected %d'
                            % (len(g['got']), len(g['strict_want'])), sp)
            continue
        judged = [x for x in g['got'] if x not in g['unjudged']]
        want = g['good'] if g['done'] else g['good'][:len(judged)]
        ctx.evaluated((g['spec'].get('stream_hex'), 'interleaved', tuple(schedule)), True)
        ctx.count('interleaved_fault_scans')
        if judged != want:
            ctx.violate('interleaved/continue-on-error/%s/%s' % ('undamaged-lost' if len(judged) < len(want) else 'wrong-yields', g['ksig']),
                        'one of %d fault streams scanned at the same time delivered %d messages (lengths %r), its undamaged messages are %d (lengths %r)'
                        % (len(gens), len(judged), [len(x) for x in judged][:8], len(want), [len(x) for x in want][:8]),
                        dict(g['spec'], schedule=schedule[:60], decoders=len(decs)))


def cli_check(ctx, stream, scratch, tag, spec, real_subprocess=False):
    from mon.cli import run_cli
    path = os.path.join(scratch, 'dmg_%s.bufr' % tag)
    with open(path, 'wb') as f:
        f.write(stream)
    ctx.count('cli_checks')
    out = path + '.out'
    script = path + '.pbk'
    with open(script, 'w') as f:
        f.write('print(${%length}, ${%n_subsets})\n')
    more = [['decode', path], ['decode', '-j', '-m', path], ['decode', '-a', '-m', '--continue-on-error', path], ['info', path],
            ['info', '-m', '--continue-on-error', path], ['info', '-c', path], ['split', path], ['split', '--continue-on-error', path],
            ['subset', '0', path, out], ['query', '%length', path], ['query', '001001', path], ['query', '-j', '/001001', path],
            ['script', 'print(${%length})', path], ['script', 'print(${001001})', path], ['script', '-f', script, path],
            ['decode', '-m', '--filter', '${%n_subsets} > 0', path], ['decode', '-m', '--compiled-template-cache-max', '5', path]]
    ctx.rng.shuffle(more)
    for args in [['decode', '-m', path], ['decode', '-m', '--continue-on-error', path], ['info', '-m', path]] + more[:6]:
        ctx.count('cli_commands_on_damaged_files')
        ctx.add('cli_commands', ' '.join(a for a in args if not a.startswith('/') and a != path and a != out and a != script))
        with time_limit(20):
            so, se, exc, code = run_cli(args)
        if isinstance(exc, CaseTimeout):
            ctx.count('case_timeouts')
            continue
        if exc is not None:
            ctx.violate('cli-traceback:%s/%s' % (type(exc).__name__, args[0]),
                        'pybufrkit %s on a damaged stream ends with an uncaught %s' % (' '.join(args[:-1]), type(exc).__name__),
                        spec, exc=exc)
    if real_subprocess:
        env = dict(os.environ)
        try:
            p = subprocess.run([sys.executable, '-m', 'pybufrkit', 'decode', '-m', path], capture_output=True, timeout=60, env=env)
        except subprocess.TimeoutExpired:
            ctx.count('case_timeouts')
            p = None
        ctx.count('cli_subprocess_checks')
        if p is not None and b'Traceback' in p.stderr:
            ctx.violate('cli-traceback/subprocess', 'python -m pybufrkit decode -m prints a traceback: %s'
                        % p.stderr.decode('latin-1')[-300:], spec)
    for pth in [path, out, script] + [path + '.%d' % i for i in range(12)]:
        try:
            os.remove(pth)
        except OSError:
            pass


def run(ctx):
    from pybufrkit.decoder import Decoder
    dec = Decoder()
    rng = ctx.rng
    scratch = os.path.join(os.environ.get('VERIF_SCRATCH', '/verif/.scratch'), 'c12-%d' % ctx.shard)
    os.makedirs(scratch, exist_ok=True)
    try:
        npool = max(3, POOL[ctx.tier] // ctx.nshards)
        pool = []
        k = ctx.shard * 100000
        while len(pool) < npool:
            k += 1
            m = streams.make_message(rng, k, hostile=0.0)
            try:
                dec.process(m.bytes)
            except Exception:
                continue
            if len(m.bytes) > 400:
                continue
            pool.append(m)
        # one message whose descriptor list has a 221YYY range (an undefined descriptor substituted INSIDE the range must be
        # reported like anywhere else) and one with replications around the substituted positions
        B33, D33 = cases.tables(33)
        special = [[1001, 221002, 12001, 1002, 2001], [1001, 221003, 20011, 12001, 5001, 1002],
                   [102002, 1001, 12001, 101000, 31001, 2001], [1001, 103000, 31001, 12001, 221001, 12004, 1002],
                   # marker operators over a bitmap (their compiled statements carry recorded operator state)
                   [5001, 12001, 224000, 236000, 101002, 31031, 1031, 8023, 224255, 224255],
                   [207001, 10004, 12001, 207000, 223000, 101002, 31031, 1031, 223255, 223255, 235000]]
        for si in (ctx.shard % len(special), (ctx.shard + 1) % len(special), 4 + ctx.shard % 2):
            try:
                k += 1
                pol = R.Policy(rng)
                if si >= 4:
                    from mon.checks.c08 import AssignPolicy
                    pol = AssignPolicy(rng, [2], [0], phase=k % 6)     # two bitmap bits, both zero: one value per marker
                sm = R.build_message(special[si], B33, D33, pol, rng.choice([1, 2]), bool(si % 2), rng.choice([3, 4]),
                                     dict(master_table_version=33, update_sequence_number=k % 256, data_category=si))
                dec.process(sm.bytes)
                pool.append(sm)
                ctx.count('pool_messages_with_221_or_replication')
            except Exception:
                pass
        # messages whose walk is refused WHILE AN OPERATOR IS IN FORCE when a descriptor inside the operator's range is replaced by an
        # undefined one (201/202, 203 being defined, 204, 207, 208; compressed layout, where nothing is re-initialised per subset):
        # whatever the aborted walk had switched on is gone for the messages that follow, on this and on every other decoder
        from mon.gen import failures as _failures
        for oi in (ctx.shard % 6, (ctx.shard + 3) % 6):
            try:
                k += 1
                om = R.build_message(_failures.TEMPLATES[1 + oi], B33, D33, R.Policy(rng), rng.choice([2, 3]), True, rng.choice([3, 4]),
                                     dict(master_table_version=33, update_sequence_number=k % 256, data_category=20 + oi))
                dec.process(om.bytes)
                pool.append(om)
                ctx.count('pool_messages_compressed_with_operator_ranges')
            except Exception:
                pass
        # a message whose character payload holds the text 7777 followed by a complete (smaller) message: when IT is damaged and
        # skipped, nothing inside it may be delivered
        for attempt in range(4):
            try:
                k += 2
                inner = streams.small_message(rng, k, data_category=3)
                outer = streams.make_message(rng, k + 1, inner=b'7777' + inner.bytes)
                dec.process(outer.bytes)
                outer.inner_bytes = inner.bytes
                if len(outer.bytes) <= 600:
                    pool.append(outer)
                    ctx.count('pool_messages_with_inner_message')
                    break
            except Exception:
                continue
        # the decoder object is reused throughout; it has also served lenient decodes
        # (ignore_value_expectation=True applies to THAT call only)
        for m in pool[:3]:
            try:
                dec.process(m.bytes, ignore_value_expectation=True)
                dec.process(streams.fault_stop_signature(m.bytes, None, 1), ignore_value_expectation=True)
                ctx.count('lenient_decodes_before_faults')
            except Exception:
                ctx.count('lenient_decode_raises')
        # a second long-lived decoder with template compilation on, which has already decoded every intact pool message
        # (a damaged copy must not be served from what an intact message left in its caches)
        decc = Decoder(compiled_template_cache_max=max(4, len(pool)))
        try:
            # ... and whose user has saved each compiled template (to_dict / JSON, what `pybufrkit compile` prints) on the way
            from pybufrkit.templatecompiler import CompiledTemplateManager

            class SavingManager(CompiledTemplateManager):
                def get_or_compile(self, template, table_group):
                    ct = CompiledTemplateManager.get_or_compile(self, template, table_group)
                    seen = self.__dict__.setdefault('_verif_seen', set())
                    if id(ct) in seen:          # saved once it has been used (the warming decode), then used again
                        json.dumps(ct.to_dict())
                    seen.add(id(ct))
                    return ct
            decc.compiled_template_manager = SavingManager(max(4, len(pool)))
            ctx.count('compiling_decoder_saves_templates')
        except Exception as e:
            ctx.notes.append('saving manager unavailable: %r' % (e,))
        from mon.gen.templates import scoped
        okc = set()
        for m in pool:
            # compilation is only claimed to preserve behaviour for templates whose operators are closed within one
            # replication scope (C08's proviso): other messages are scanned with the plain decoder only
            try:
                if scoped(m.ids, cases.tables((m.meta or {}).get('master_table_version', 33))[1]) and \
                        decc.process(m.bytes).serialized_bytes == m.bytes:
                    okc.add(id(m))
                    ctx.count('compiled_decoder_warmed')
            except Exception:
                ctx.count('compiled_decoder_warm_raises')
        # (a) truncation + suffix
        for i, m in enumerate(pool):
            if not ctx.more():
                break
            prefix_check(ctx, dec, m)
            suffix_check(ctx, dec, m, pool[(i + 1) % len(pool)])
        # faults per pool message, with R's verdict
        faults = []
        for m in pool:
            fs = []
            for kind, detail, d in all_faults(m.bytes):
                v = streams.r_verdict(d)
                ctx.add('r_verdicts', '%s -> %s' % (kind, v))
                if v in ('invalid', 'unknown-descriptor'):
                    ctx.count('detectable_damaged_messages')
                else:
                    ctx.count('undetectable_or_no_opinion')
                fs.append((kind, detail, d, v))
            faults.append(fs)
        # (b) every single fault once, in a 2-message stream (position enumeration)
        ncli = 0
        for mi, m in enumerate(pool):
            other = pool[(mi + 1) % len(pool)]
            for fi, f in enumerate(faults[mi]):
                if not ctx.more():
                    break
                ctx.count('faults_' + f[0].replace('-', '_'))
                order = [m, other] if fi % 2 else [other, m]
                dmg = {order.index(m): f}
                use_c = fi % 3 == 2 and id(m) in okc and id(other) in okc
                if use_c:
                    ctx.count('fault_streams_on_compiled_decoder')
                stream = stream_case(ctx, decc if use_c else dec, order, dmg, dict(origin='single-fault', ids=m.ids, compiled_decoder=use_c))
                if fi % 9 == 4:
                    interleaved_fault_scans(ctx, [dec] if fi % 2 else [dec, Decoder()])
                if ncli < (3 if ctx.quick else 20) and fi % 7 == 0 and f[3] in ('invalid', 'unknown-descriptor'):
                    ncli += 1
                    cli_check(ctx, stream, scratch, 'p%d_%d' % (mi, fi), dict(origin='cli', stream_hex=stream.hex(), fault=list(f[:2])),
                              real_subprocess=(ncli == 1))
        # (b') every subset of damaged messages, n = 2..4 exhaustive, n = 5 sampled
        for n in (2, 3, 4, 5):
            reps = 2 if ctx.quick else 12
            for rep in range(reps):
                idxs = [rng.randrange(len(pool)) for _ in range(n)]
                if len(set(idxs)) < min(n, len(pool)):
                    idxs = (list(range(len(pool))) * 2)[:n]
                    rng.shuffle(idxs)
                msgs = [pool[i] for i in idxs]
                # identical messages would make the yield log ambiguous
                if len(set(m.bytes for m in msgs)) != len(msgs):
                    continue
                subsets = list(itertools.chain.from_iterable(itertools.combinations(range(n), r) for r in range(0, n + 1)))
                if n == 5:
                    subsets = rng.sample(subsets, 12)
                for S in subsets:
                    if not ctx.more():
                        break
                    dmg = {}
                    for j in S:
                        f = rng.choice(faults[idxs[j]])
                        dmg[j] = f
                        ctx.count('faults_' + f[0].replace('-', '_'))
                    ctx.count('damage_subsets_n%d' % n)
                    use_c = bool(rep % 2) and all(id(x) in okc for x in msgs)
                    if use_c:
                        ctx.count('fault_streams_on_compiled_decoder')
                    stream_case(ctx, decc if use_c else dec, msgs, dmg, dict(origin='damage-subsets', n=n, compiled_decoder=use_c))
                    if ctx.counters['damaged_streams_full'] % 7 == 3:
                        interleaved_fault_scans(ctx, [dec] if rep % 2 else [dec, Decoder(), decc if use_c else Decoder()])
    finally:
        shutil.rmtree(scratch, ignore_errors=True)


def replay(ctx, case):
    from pybufrkit.decoder import Decoder, generate_bufr_message
    spec = case['case']
    dec = Decoder()
    ctx.evaluated(str(spec)[:200], True)
    if 'cut' in spec:
        b = bytes.fromhex(spec['hex'])
        try:
            dec.process(b[:spec['cut']])
            ctx.violate(case['sig'], 'replay: prefix still decodes', spec)
        except Exception as e:
            print('replay: prefix raises', type(e).__name__)
        return
    stream = bytes.fromhex(spec['stream_hex'])
    got = []
    exc = collect(generate_bufr_message(dec, stream, continue_on_error=True), len(stream), got)
    print('replay: continue-on-error yields lengths %r exception %r' % ([len(g) for g in got], exc))
    got2 = []
    exc2 = collect(generate_bufr_message(dec, stream), len(stream), got2)
    print('replay: no-continue yields lengths %r exception %r' % ([len(g) for g in got2], exc2))
    if exc is not None:
        ctx.violate(case['sig'], 'replay: %r escapes' % (exc,), spec)
