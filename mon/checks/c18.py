"""C18 - script preprocessing substitutes exactly the embedded queries; nesting levels are consistent.

Oracle: a reference scanner written from the documentation (DESIGN appendix D): states idle /
single-quoted / double-quoted / comment / embedded.  The implementation's output must be the input
with each embedded query outside literals and comments replaced by the name the implementation's
own mapping gives to its whitespace-trimmed text; the mapping must be injective onto identifiers
and contain exactly the expressions the reference found.  Run-time clauses on real messages:
bound variables == independent querent results, PBK_BUFR_MESSAGE / PBK_FILENAME, metadata_only <=>
every expression starts with '%', L1 == concat(L2), L0 == first(L1) or None, L2 == per-subset
flatten(L4), argument beats pragma.
"""
import itertools
import os
import glob

from mon import refbufr as R
from mon import handover
from mon import nested
from mon.gen import cases

ID = 'C18'
LEVEL = 'exploration'
TECHNIQUE = 'runtime monitoring: reference scanner as oracle over enumerated fragment scripts; nesting-level identities on real runs'
RULE = ('scripts assembled from 12 fragment kinds (code, single/double-quoted literals containing ${..} and #, comments '
        'containing ${..} and quotes, embedded expressions with inner blanks / repeated / metadata, lone $, }, newline, '
        'lone quotes) in every order up to length 4 (quick) / 5 (thorough) plus random longer ones; escape-free literals and '
        'terminated ${..} only; executable scripts with 1-4 embedded queries (structure-derived paths, metadata) run at '
        'levels 0/1/2/4 by argument and by pragma on R-produced and sample messages.  Non-trivial = the script mixes >= 2 '
        'fragment kinds; distinct by SHA-1 of the script text (+ message for runs); scripts without expressions; pragma on a later header line / after a comma; `script` over two files')
RULE += '; added with rounds 10-12: results of earlier runs of one runner re-read after later runs; scripts with a malformed path run three times on one runner; pragma lines with other blanks around `=`; twins'
ASSUMPTIONS = ['scripts whose last ${ is unterminated are outside the stated space (counted, not judged)',
               'string literals are escape-free (statement\'s scope)',
               'variable names are only required to be valid, pairwise distinct identifiers (not a particular naming scheme)']
BUDGET = {'quick': 40, 'thorough': 400}
QUOTA = {'quick': 25, 'thorough': 500}
REQUIRED = {'quick': {'evaluations': 15000, 'scripts_scanned': 10000, 'scripts_with_quoted_embed': 3000,
                      'scripts_with_comment_embed': 3000, 'repeated_expression_scripts': 500, 'runs': 300,
                      'level_identity_checks': 150, 'pragma_vs_argument_checks': 60, 'metadata_only_checks': 300,
                      'first_subset_empty_messages': 4, 'cli_script_runs': 33, 'reuse_runs': 300},
            'thorough': {'evaluations': 250000, 'scripts_scanned': 140000, 'scripts_with_quoted_embed': 50000,
                      'scripts_with_comment_embed': 50000, 'repeated_expression_scripts': 10000, 'runs': 8000,
                      'level_identity_checks': 3000, 'pragma_vs_argument_checks': 1000, 'metadata_only_checks': 8000,
                      'reuse_runs': 12000}}


EXHAUSTIVE = {'quick': False, 'thorough': False}
EXHAUSTIVE_NOTE = {'quick': 'all orders of the 12 fragments up to length 4 (22 620 scripts)',
                   'thorough': 'all orders of the 12 fragments up to length 5 (271 452 scripts)'}

FR = ['x=1;', "'a${q1}#b'", '"c${%e}\'d"', '#k ${z} \'"\n', '${ 001001 }', '${%n}', '$', '}', '\n', '${001001}', "'", '"']
FR_KIND = ['code', 'squote', 'dquote', 'comment', 'embed-spaced', 'embed-md', 'dollar', 'brace', 'newline', 'embed', 'lone-squote',
           'lone-dquote']


PRAGMA_SPELLINGS = ['#$ data_values_nest_level=%d\n', '#$ data_values_nest_level =%d\n', '#$ data_values_nest_level= %d\n',
                    '#$   data_values_nest_level  =  %d  \n', '#$ data_values_nest_level\t=\t%d\n', '#$ data_values_nest_level = %d\r\n']


def anchors():
    from pybufrkit import script
    return [script.process_embedded_query_expr, script.ScriptRunner.__init__, script.ScriptRunner.prepare_variables,
            script.ScriptRunner.flatten_data_values, script.ScriptRunner.process_pragma]


def ref_scan(s):
    """reference scanner -> (output items: str chars or ('E', k), trimmed expressions in order, final state)"""
    out = []
    exprs = []
    st = 'i'
    i = 0
    n = len(s)
    cur = None
    while i < n:
        c = s[i]
        if st == 'e':
            if c == '}':
                exprs.append(''.join(cur).strip())
                out.append(('E', len(exprs) - 1))
                st = 'i'
            else:
                cur.append(c)
        elif st == 'i':
            if c in '\'"':
                st = c
                out.append(c)
            elif c == '#':
                st = '#'
                out.append(c)
            elif c == '$' and i + 1 < n and s[i + 1] == '{':
                st = 'e'
                cur = []
                i += 1
            else:
                out.append(c)
        elif st in '\'"':
            if c == st:
                st = 'i'
            out.append(c)
        elif st == '#':
            if c == '\n':
                st = 'i'
            out.append(c)
        i += 1
    return out, exprs, st


def scan_check(ctx, s, kinds):
    from pybufrkit.script import process_embedded_query_expr
    out, exprs, st = ref_scan(s)
    if st == 'e':
        ctx.count('unterminated_skipped')
        return
    ctx.count('scripts_scanned')
    nontrivial = len(set(kinds)) >= 2
    ctx.evaluated(s, nontrivial)
    if len(ctx.samples) < 4 and nontrivial and len(kinds) >= 3:
        ctx.sample(dict(script=s, expressions=exprs))
    quoted = ("'" in s or '"' in s) and '${' in s
    if quoted:
        ctx.count('scripts_with_quoted_embed')
    if '#' in s and '${' in s:
        ctx.count('scripts_with_comment_embed')
    if len(exprs) != len(set(exprs)):
        ctx.count('repeated_expression_scripts')
    try:
        code, subs = process_embedded_query_expr(s)
    except Exception as e:
        ctx.violate('scanner-raises:%s' % type(e).__name__, 'process_embedded_query_expr raised %s on %r' % (type(e).__name__, s),
                    dict(script=s), exc=e)
        return
    feat = '+'.join(sorted(set(k for k in kinds if k in ('squote', 'dquote', 'comment', 'dollar', 'brace', 'lone-squote', 'lone-dquote'))))
    if set(subs) != set(exprs):
        missing = sorted(set(exprs) - set(subs))
        extra = sorted(set(subs) - set(exprs))
        ctx.violate('substitution-set/%s/%s' % ('extra' if extra else 'missing', feat),
                    'script %r: expressions substituted %r, reference scanner finds %r' % (s, sorted(subs), sorted(set(exprs))),
                    dict(script=s), expected=sorted(set(exprs)), observed=sorted(subs))
        return
    names = list(subs.values())
    if len(set(names)) != len(names) or not all(isinstance(v, str) and v.isidentifier() for v in names):
        ctx.violate('variable-names/not-distinct-identifiers', 'script %r: names %r' % (s, subs), dict(script=s))
        return
    exp = ''.join(x if isinstance(x, str) else subs[exprs[x[1]]] for x in out)
    if exp != code:
        ctx.violate('substituted-text-differs/%s' % feat, 'script %r: output %r, reference %r' % (s, code, exp), dict(script=s),
                    expected=exp, observed=code)


def flatten(x):
    out = []
    for y in x:
        if isinstance(y, list):
            out += flatten(y)
        else:
            out.append(y)
    return out


def run_checks(ctx, msg, exprs_pool, origin):
    """executable scripts against a decoded message"""
    from pybufrkit.script import ScriptRunner
    from pybufrkit.query import BufrMessageQuerent
    from pybufrkit.dataquery import QueryResult
    rng = ctx.rng
    bq = BufrMessageQuerent()
    try:
        sb = bytes(msg.serialized_bytes)
        if len(sb) < 20000:
            # the names a script binds are the query results for the message - also for a message object that was queried,
            # rendered or wired (in either order, through either entry point) before the script runs
            handover.on_message(ctx, sb, dict(origin=origin), site=origin, p=0.3)
    except Exception as e:
        ctx.notes.append('object history skipped: %r' % (e,))
    # scripts WITHOUT any embedded expression (none at all / only inside literals and comments): "every expression starts
    # with %" holds vacuously, so only metadata is needed; the two PBK_ names are still bound
    for script in ('x = 1\n', '', "lit = 'a ${001001} b'  # ${%length}\nname = PBK_FILENAME\n", '# only a comment ${012001}\n'):
        ctx.count('metadata_only_checks')
        ctx.count('scripts_without_expressions')
        ctx.evaluated((script, 'no-expr', id(msg) % 1000, origin), True)
        try:
            runner = ScriptRunner(script)
            variables = runner.run(msg)
        except Exception as e:
            ctx.violate('run-raises:%s/no-expressions' % type(e).__name__, 'running %r raised %s' % (script, type(e).__name__),
                        dict(script=script, origin=origin), exc=e)
            continue
        if runner.metadata_only is not True:
            ctx.violate('metadata_only-flag/no-expressions', 'metadata_only is %r for a script without embedded expressions'
                        % (runner.metadata_only,), dict(script=script, origin=origin))
        if variables.get('PBK_BUFR_MESSAGE') is not msg or variables.get('PBK_FILENAME') != msg.filename:
            ctx.violate('message-binding', 'PBK_BUFR_MESSAGE / PBK_FILENAME not bound to the message', dict(script=script, origin=origin))
    for _ in range(3 if ctx.quick else 6):
        n = rng.randint(1, 4)
        chosen = [rng.choice(exprs_pool) for _ in range(n)]
        if rng.random() < 0.3:
            chosen = [e for e in chosen if e.startswith('%')] or ['%edition']
        lines = []
        for j, e in enumerate(chosen):
            pad = rng.choice(['', ' ', '  '])
            lines.append('v%d = ${%s%s%s}' % (j, pad, e, pad))
        lines.append("lit = 'not ${%s} a query'  # nor ${%s} here" % (chosen[0], chosen[-1]))
        lines.append('again = ${%s}' % chosen[0])
        body = '\n'.join(lines) + '\n'
        md_only = all(e.startswith('%') for e in chosen)
        results = {}
        spell = PRAGMA_SPELLINGS[(ctx.counters['runs'] // 11) % len(PRAGMA_SPELLINGS)]
        for level, how in ((1, 'default'), (0, 'arg'), (1, 'arg'), (2, 'arg'), (4, 'arg'), (2, 'pragma'), (4, 'pragma'), (0, 'pragma'),
                           (2, 'pragma-second-line'), (0, 'pragma-second-line'), (4, 'pragma-after-comma'),
                           (2, 'pragma-other-spacing'), (0, 'pragma-other-spacing'), (4, 'pragma-other-spacing')):
            script = body
            kw = {}
            if how == 'arg':
                kw['data_values_nest_level'] = level
            elif how == 'pragma':
                script = '#$ data_values_nest_level = %d\n' % level + body
            elif how == 'pragma-second-line':
                # the pragma header is every leading '#$' line, not just the first
                script = '#$ some_other_directive = 1\n#$ data_values_nest_level = %d\n' % level + body
            elif how == 'pragma-after-comma':
                script = '#$ some_other_directive = 1, data_values_nest_level = %d\n' % level + body
            elif how == 'pragma-other-spacing':
                # the same assignment written with other blanks around `=` and after `#$`
                script = spell % level + body
            ctx.count('runs')
            ctx.evaluated((script, level, how, id(msg) % 1000, origin), True)
            try:
                runner = ScriptRunner(script, **kw)
                variables = runner.run(msg)
            except Exception as e:
                ctx.violate('run-raises:%s/%s' % (type(e).__name__, how), 'running %r raised %s: %s' % (script, type(e).__name__, str(e)[:100]),
                            dict(script=script, origin=origin), exc=e)
                continue
            ctx.count('metadata_only_checks')
            if runner.metadata_only != md_only:
                ctx.violate('metadata_only-flag', 'metadata_only is %r for expressions %r' % (runner.metadata_only, chosen),
                            dict(script=script, origin=origin))
            if variables.get('PBK_BUFR_MESSAGE') is not msg or variables.get('PBK_FILENAME') != msg.filename:
                ctx.violate('message-binding', 'PBK_BUFR_MESSAGE / PBK_FILENAME not bound to the message', dict(script=script, origin=origin))
            if variables.get('lit') != 'not ${%s} a query' % chosen[0]:
                ctx.violate('literal-changed-at-runtime', 'string literal containing ${..} was altered: %r' % (variables.get('lit'),),
                            dict(script=script, origin=origin))
            vals = []
            for j, e in enumerate(chosen):
                got = variables.get('v%d' % j)
                vals.append(got)
                if e.startswith('%'):
                    want = bq.query(msg, e)
                    if got != want:
                        ctx.violate('metadata-variable-differs', '%r bound to %r, independent query gives %r' % (e, got, want),
                                    dict(script=script, origin=origin))
            if variables.get('again') != vals[0]:
                ctx.violate('same-expression-different-value', 'two occurrences of one expression are bound differently',
                            dict(script=script, origin=origin))
            results[(level, how)] = vals
        # runners are independent objects: build several with different levels FIRST, run them afterwards, and a runner
        # without argument and pragma runs at level 1 whatever other runners were given
        try:
            r4 = ScriptRunner(body, data_values_nest_level=4)
            r0 = ScriptRunner('#$ data_values_nest_level = 0\n' + body)
            rdef = ScriptRunner(body)
            r2 = ScriptRunner(body, data_values_nest_level=2)
            ctx.count('runner_order_checks')
            for lvl, rr in ((4, r4), (0, r0), (1, rdef), (2, r2), (4, r4), (1, rdef)):
                vv = rr.run(msg)
                got = [vv.get('v%d' % j) for j in range(len(chosen))]
                if (lvl, 'arg') in results and got != results[(lvl, 'arg')]:
                    ctx.violate('runner-state-shared/level%d' % lvl,
                                'a runner built for level %d (before other runners were built) gives values of another level when run later' % lvl,
                                dict(script=body, origin=origin))
                    break
        except Exception as e:
            ctx.violate('run-raises:%s/build-then-run' % type(e).__name__, 'build-then-run raised %s' % type(e).__name__,
                        dict(script=body, origin=origin), exc=e)
        # identities between levels (argument form), per data expression
        if all(k in results for k in ((0, 'arg'), (1, 'arg'), (2, 'arg'), (4, 'arg'))):
            for j, e in enumerate(chosen):
                if e.startswith('%'):
                    continue
                ctx.count('level_identity_checks')
                L0, L1, L2, L4 = (results[(l, 'arg')][j] for l in (0, 1, 2, 4))
                qr = bq.query(msg, e)
                indep4 = qr.all_values() if isinstance(qr, QueryResult) else None
                bad = None
                if L4 != indep4:
                    bad = 'level4-vs-querent'
                elif not isinstance(L2, list) or L2 != [flatten(x) for x in L4]:
                    bad = 'level2-vs-level4'
                elif L1 != [y for x in L2 for y in x]:
                    bad = 'level1-vs-level2'
                elif L0 != (L1[0] if L1 else None):
                    bad = 'level0-vs-level1'
                elif results.get((1, 'default'), [None] * len(chosen))[j] != L1:
                    bad = 'default-level-not-1'
                if bad:
                    ctx.violate('nest-level-identity/' + bad, 'expression %r: L0=%r L1=%r L2=%r L4=%r' % (e, L0, L1, L2, L4),
                                dict(expr=e, origin=origin))
        # pragma gives the same as the argument; argument beats pragma
        for level in (0, 2, 4):
            for how in ('pragma', 'pragma-second-line', 'pragma-after-comma', 'pragma-other-spacing'):
                if (level, how) in results and (level, 'arg') in results:
                    ctx.count('pragma_vs_argument_checks')
                    if results[(level, how)] != results[(level, 'arg')]:
                        ctx.violate('pragma-differs-from-argument/' + how, 'level %d given by pragma (%s) and by argument give different values'
                                    % (level, how), dict(script=body, origin=origin, how=how))
        try:
            ctx.count('pragma_vs_argument_checks')
            r = ScriptRunner('#$ data_values_nest_level = 4\n' + body, data_values_nest_level=1).run(msg)
            if (1, 'arg') in results and [r.get('v%d' % j) for j in range(len(chosen))] != results[(1, 'arg')]:
                ctx.violate('argument-does-not-beat-pragma', 'with pragma 4 and argument 1 the values are not level-1 values',
                            dict(script=body, origin=origin))
        except Exception as e:
            ctx.violate('run-raises:%s/pragma+arg' % type(e).__name__, 'pragma+argument run raised %s' % type(e).__name__,
                        dict(script=body, origin=origin), exc=e)


def cli_levels(ctx, b, exprs, scratch, tag):
    """`pybufrkit script -n LEVEL` prints what ScriptRunner(level) binds (levels 0/1/2/4 by argument, default, pragma)"""
    from mon.cli import run_cli
    from pybufrkit.script import ScriptRunner
    from pybufrkit.decoder import Decoder
    path = os.path.join(scratch, 'msg_%s.bufr' % tag)
    with open(path, 'wb') as f:
        f.write(b)
    m = Decoder().process(b, file_path=path)
    for e in exprs:
        script = 'print(repr(${%s}))' % e
        want = {}
        for lvl in (0, 1, 2, 4):
            try:
                want[lvl] = repr(ScriptRunner('v = ${%s}' % e, data_values_nest_level=lvl).run(m)['v'])
            except Exception:
                want = None
                break
        if want is None:
            continue
        runs = [(['-n', str(lvl)], script, want[lvl], 'arg%d' % lvl) for lvl in (0, 1, 2, 4)]
        runs.append(([], script, want[1], 'default'))
        runs.append(([], '#$ data_values_nest_level = 2\n' + script, want[2], 'pragma2'))
        runs.append((['-n', '0'], '#$ data_values_nest_level = 4\n' + script, want[0], 'arg0-over-pragma4'))
        for flags, sc, exp, how in runs:
            ctx.count('cli_script_runs')
            ctx.evaluated(('cli', tag, e, how), True)
            so, se, exc, code = run_cli(['script'] + flags + [sc, path])
            if exc is not None or se.strip():
                ctx.violate('cli-script-fails/%s' % how, 'pybufrkit script %s failed: %r %s' % (flags, exc, se[:100]), dict(script=sc, expr=e))
                continue
            elif how in ('arg2', 'default') and '${%' not in sc:
                # the same script over two files in one invocation: each file gets its own run
                so2, se2, exc2, code2 = run_cli(['script'] + flags + [sc, path, path])
                ctx.count('cli_script_two_file_runs')
                if exc2 is not None or so2.strip().splitlines() != [exp, exp]:
                    ctx.violate('cli-script-several-files/%s' % how, 'pybufrkit script over two copies of a file printed %r, expected the '
                                'single-file output twice (%r)' % (so2.strip()[:120], exc2), dict(script=sc, expr=e, how=how))
            if so.strip() != exp:
                ctx.violate('cli-script-level/%s' % how, 'pybufrkit script %s %r printed %s, ScriptRunner at that level binds %s'
                            % (' '.join(flags), sc, so.strip()[:80], exp[:80]), dict(script=sc, expr=e, how=how))


def expr_pool(msg):
    """data and metadata expressions that exist for the message"""
    from pybufrkit.renderer import NestedJsonRenderer
    import json
    nj = NestedJsonRenderer().render(msg)
    nodes_all = json.loads(json.dumps(nj[-2][-1]['value'], default=lambda b: b.decode('latin-1')))
    pool = ['%edition', '%n_subsets', '%data_category', '%3.section_length', '%is_compressed', '%year', '%no_such']
    if nodes_all:
        # paths and IDs from EVERY subset: an element may be absent from the first subset (zero-count
        # delayed replication) and present in a later one
        ids = []
        for sub in nodes_all[::-1][:4]:
            for p in nested.derive_paths(sub, max_depth=4)[:40]:
                e = ''.join(sep + i for sep, i in p)
                if all(sep == '/' for sep, _ in p) and e not in pool:
                    pool.append(e)
            for p in nested.derive_paths(sub, max_depth=6):
                i = p[-1][1]
                if i[0] == '0' and i not in ids:
                    ids.append(i)
        pool += ids[:20]
        pool += ['@[0] > ' + i for i in ids[:5]]
        pool += ['@[-1] > %s[0]' % i for i in ids[:3]]
        pool += ['@[::-1] > %s' % i for i in ids[:4]]
        pool += ['@[::-2] > %s' % i for i in ids[:2]]
        pool += ['@[1::-1]' + e for e in pool if e.startswith('/')][:3]
    # keep only queries the library accepts (paths ending at valueless nodes raise QueryError: not C18's subject)
    from pybufrkit.query import BufrMessageQuerent
    from pybufrkit.errors import PyBufrKitError
    bq = BufrMessageQuerent()
    ok = []
    for e in pool:
        try:
            bq.query(msg, e)
            ok.append(e)
        except PyBufrKitError:
            pass
    return ok


def join_bits(m1, m2):
    """octet-padded data bits of m1's subsets followed by m2's subsets (both uncompressed)"""
    w = R.WBits()
    for m in (m1, m2):
        for st, en in m.spans:
            n = en - st
            if n:
                w.u((m.data_int >> (m.data_bits - en)) & ((1 << n) - 1), n)
    w.pad8()
    return w.bytes()


def reuse_checks(ctx, prev, m, pools, origin):
    """a ScriptRunner is reusable: run over message A, then B, then (after a run that raised) A again, it binds what a fresh
    runner binds for that message - nothing of the previous message, the previous level or the failed run is left in it"""
    from pybufrkit.script import ScriptRunner
    pa = [e for e in pools[0] if not e.startswith('%')][:1]
    pb = [e for e in pools[1] if not e.startswith('%')][-1:]
    exprs = ['%n_subsets', '%length', '%2.section_length', '%3.section_length'] + pa + pb
    body = ''.join('v%d = ${%s}\n' % (j, e) for j, e in enumerate(exprs))
    for lvl in ((1, 4) if ctx.quick else (0, 1, 2, 4)):
        spec = dict(script=body, origin=origin, level=lvl)
        try:
            runner = ScriptRunner(body, data_values_nest_level=lvl)
            failing = ScriptRunner('w = ${%n_subsets} // 0\n' + body, data_values_nest_level=lvl)
            seq = []
            kept_runs = []
            view_of = lambda d: [(k, repr(d.get(k))[:200]) for k in ['v%d' % j for j in range(len(exprs))] + ['PBK_FILENAME']] + [
                ('PBK_BUFR_MESSAGE is', id(d.get('PBK_BUFR_MESSAGE')))]
            for which, msg in (('A', prev), ('B', m), ('fail', m), ('A', prev), ('B', m)):
                if which == 'fail':
                    try:
                        failing.run(msg)
                        ctx.count('reuse_failing_run_accepted')
                    except ZeroDivisionError:
                        ctx.count('reuse_failing_runs')
                    # the failing runner itself is reusable too
                    try:
                        failing.run(prev)
                    except ZeroDivisionError:
                        pass
                    continue
                got = runner.run(msg)
                fresh = ScriptRunner(body, data_values_nest_level=lvl).run(msg)
                seq.append((which, [repr(got.get('v%d' % j)) for j in range(len(exprs))],
                            [repr(fresh.get('v%d' % j)) for j in range(len(exprs))]))
                # the variables a run returned belong to the caller: kept (as `[runner.run(m) for m in messages]` keeps them),
                # they still show that run's bindings after the later runs
                kept_runs.append((which, got, view_of(got)))
                got['note_of_the_caller'] = which
        except Exception as e:
            ctx.violate('run-raises:%s/reuse' % type(e).__name__, 'a reused runner raised %s: %s' % (type(e).__name__, str(e)[:100]),
                        spec, exc=e)
            return
        # a script whose embedded path is malformed is refused by every run of the same runner, not only by the first one
        if pa:
            for tail in ('/', '[1:', '[1:2:3:4]', '.'):
                badbody = 'w = ${%s%s}\n' % (pa[0], tail)
                try:
                    r_bad = ScriptRunner(badbody, data_values_nest_level=lvl)
                except Exception:
                    continue
                outs = []
                for attempt in range(3):
                    try:
                        v = r_bad.run(prev if attempt != 1 else m)
                        outs.append('binds ' + repr(v.get('w'))[:60])
                    except Exception as e:
                        outs.append('raises ' + type(e).__name__)
                try:
                    ScriptRunner(badbody, data_values_nest_level=lvl).run(prev)
                    fresh_out = 'binds'
                except Exception as e:
                    fresh_out = 'raises ' + type(e).__name__
                ctx.count('malformed_script_reruns')
                if fresh_out.startswith('raises') and any(o != fresh_out for o in outs):
                    ctx.violate('runner-reuse/malformed-expression-accepted-on-rerun', 'a runner whose script holds the malformed path %r: runs give %r, a fresh runner %s'
                                % (pa[0] + tail, outs, fresh_out), dict(spec, script=badbody))
                    return
        for k, (which, d, snap) in enumerate(kept_runs):
            ctx.count('kept_run_results_reread')
            if view_of(d) != snap or d.get('note_of_the_caller') != which:
                ctx.violate('runner-reuse/earlier-result-changed', 'the variables returned by run %d (message %s) of a reused runner no longer show '
                            'what they showed when they were returned, after %d later runs' % (k, which, len(kept_runs) - 1 - k), spec)
                return
        for k, (which, got, fresh) in enumerate(seq):
            ctx.count('reuse_runs')
            ctx.evaluated((body, lvl, k, origin, id(m) % 1000), True)
            if got != fresh:
                j = [a != b for a, b in zip(got, fresh)].index(True)
                ctx.violate('runner-reuse/%s' % ('metadata' if exprs[j].startswith('%') else 'data'),
                            'run %d (message %s) of a reused runner binds %s for ${%s}; a fresh runner binds %s'
                            % (k, which, got[j][:80], exprs[j], fresh[j][:80]), spec)
                return


def run(ctx):
    from pybufrkit.decoder import Decoder
    rng = ctx.rng
    maxlen = 4 if ctx.quick else 5
    n = 0
    for L in range(1, maxlen + 1):
        for combo in itertools.product(range(len(FR)), repeat=L):
            n += 1
            if not ctx.mine(n):
                continue
            scan_check(ctx, ''.join(FR[k] for k in combo), [FR_KIND[k] for k in combo])
    # random longer scripts
    extra = ['y = ${/301011/004001} + 1\n', "print('${no}')  # ${no}\n", 'z = "${x}" + \'${y}\'\n', '${ %length }', '${a}${a}${ a }',
             "'''", '"""', '$$', '${}', '${ }', '$ {x}', '# only comment', "q = '#' + ${/001001}\n", '${@[0] > 012001[::2]}', '\t', ' ']
    for _ in range(300 if ctx.quick else 6000):
        k = rng.randint(5, 14)
        idx = [rng.randrange(len(FR) + len(extra)) for _ in range(k)]
        s = ''.join(FR[i] if i < len(FR) else extra[i - len(FR)] for i in idx)
        scan_check(ctx, s, [FR_KIND[i] if i < len(FR) else 'extra%d' % (i - len(FR)) for i in idx])
    # run-time clauses
    dec = Decoder()
    repo = os.environ.get('VERIF_REPO', '/repo')
    files = sorted(glob.glob(os.path.join(repo, 'tests', 'data', '*.bufr')))
    prev = None
    for i, f in enumerate(files):
        if not ctx.mine(i) or os.path.basename(f) in ('multi_invalid_messages.bufr', 'prepbufr.bufr'):
            continue
        try:
            m = dec.process(open(f, 'rb').read(), file_path=f)
            pool = expr_pool(m)
        except Exception:
            continue
        ctx.count('corpus_messages')
        run_checks(ctx, m, pool, 'corpus:' + os.path.basename(f))
        if prev is not None:
            reuse_checks(ctx, prev[0], m, (prev[1], pool), 'corpus-pair:' + os.path.basename(f))
        prev = (m, pool)
        if i % 4 == 0:
            scratch = os.path.join(os.environ.get('VERIF_SCRATCH', '/verif/.scratch'), 'c18-%d' % ctx.shard)
            os.makedirs(scratch, exist_ok=True)
            try:
                data_exprs = [e for e in pool if not e.startswith('%')][:2] + ['%n_subsets']
                cli_levels(ctx, open(f, 'rb').read(), data_exprs, scratch, 'f%d' % i)
            finally:
                import shutil
                shutil.rmtree(scratch, ignore_errors=True)
    # multi-subset uncompressed messages whose FIRST subset has empty delayed replications
    from mon.gen.shapes import EdgePolicy

    class FirstEmpty(R.Policy):
        calls = 0

        def count(self, pw, w, eid):
            FirstEmpty.calls += 1
            return 0 if FirstEmpty.first else self.rng.randint(1, 3)
    B33, D33 = cases.tables(33)
    for j, ids in enumerate([[1001, 101000, 31001, 12001, 4024], [103000, 31001, 1001, 12001, 2001, 5001],
                             [301011, 102000, 31001, 12001, 101000, 31001, 4024]]):
        if not ctx.mine(j):
            continue
        for nsub in (2, 3):
            FirstEmpty.first = True
            w = R.WBits() if False else None
            # build subset by subset: first subset empty, later ones populated
            pol = FirstEmpty(rng)
            try:
                m1 = R.build_message(ids, B33, D33, pol, 1, False, 4)
                FirstEmpty.first = False
                m2 = R.build_message(ids, B33, D33, pol, nsub, False, 4)
            except R.Unsupported:
                continue
            # join: subset of m1 followed by subsets of m2 (R copies the bit spans verbatim)
            joined = R.build_frame(4, m2.meta, ids, 1 + nsub, False, join_bits(m1, m2), None, None)
            try:
                m = dec.process(joined, file_path='first-empty-%d' % j)
                pool = expr_pool(m)
            except Exception:
                ctx.count('decode_raises')
                continue
            ctx.count('first_subset_empty_messages')
            run_checks(ctx, m, pool, 'first-subset-empty')
    q = 0
    while q < QUOTA[ctx.tier] and ctx.more():
        q += 1
        c = cases.random_case(ctx)
        if c is None:
            continue
        msg = c[0]
        try:
            m = dec.process(msg.bytes, file_path='gen-%d' % q)
            pool = expr_pool(m)
        except Exception:
            ctx.count('decode_raises')
            continue
        run_checks(ctx, m, pool, 'random')
        if prev is not None and q % 3 == 0:
            reuse_checks(ctx, prev[0], m, (prev[1], pool), 'random-pair')
        prev = (m, pool)


def replay(ctx, case):
    spec = case['case']
    if 'script' in spec and 'origin' not in spec:
        scan_check(ctx, spec['script'], ['replay', 'x'])
    else:
        ctx.evaluated('replay', True)
        print('replay of run-time cases: re-run the check with the same seed (%s)' % case.get('seed'))
