"""C08 - template compilation preserves behaviour (decode, encode, save/load).

Purely differential over the real code: Decoder() vs Decoder(compiled_template_cache_max=k) vs a
decoder whose compiled templates all pass through loads_compiled_template(json.dumps(ct.to_dict()))
before execution; the same three for Encoder.  Outcomes compared: values, labels, links, bytes, or
the exception class.  Programs: every sequence of every bundled Table D (versions >= 19, local
tables), templates of the sample files, generated templates with every operator - restricted, as
the statement requires, to templates whose operators are opened and closed within one replication
scope.  Data: R's producer with enumerated assignments of delayed replication factors (0..3) and
bitmap bits.  Histories: cache sizes 0/1/2/n with random message orders and repeats.
"""
import glob
import itertools
import json
import os

from mon import refbufr as R, midscan
from mon.compare import td_of, opsig
from mon.gen import cases
from mon.gen.shapes import SHAPES, EdgePolicy
from mon.gen.templates import scoped
from mon.checks.c07 import ASSOC_SHAPES, CHAIN_SHAPES

ID = 'C08'
LEVEL = 'exploration'
TECHNIQUE = ('runtime monitoring: three-way differential execution (interpreted / compiled / compiled-saved-and-reloaded) '
             'of the real decoder and encoder over enumerated programs and data assignments; cache-history replays')
RULE = ('programs = distinct Table D sequences of master versions >= 19 and local tables (de-duplicated by expanded ids and '
        'Table B attributes), sample-file templates, generated and hand-made operator templates (scoped); per program up to '
        'K assignments of delayed factors in 0..3 and bitmap patterns (all when <= K; K = 6 quick / 60 thorough), compressed '
        'and uncompressed; histories over caches of size 0,1,2,n.  Non-trivial = the program has a loop or an operator; '
        'distinct by SHA-1 of the message bytes; several data contents per program; table-sensitive pairs through marker / first-order / associated-field forms; `pybufrkit compile` output loaded back and executed')
RULE += '; added with rounds 10-12: a manager whose caller keeps the handles (cache of one entry) and executes them after other templates were compiled; float replication factors to interpreting vs compiling encoders; twins with another tables root and compilation on'
RULE += '; mid-scan scenarios (mon/midscan.py) on one compiling decoder with a small cache, each delivered message held against the interpreted decode of the same octets'
ASSUMPTIONS = ['only templates whose operators are opened and closed within one replication scope are compared (statement\'s proviso; predicate mon/gen/templates.scoped)',
               'marker operators while 204 is in force are not generated (grey, DESIGN 2.3)',
               'exceptions are compared by class', 'data come from R\'s producer; programs R cannot produce data for are counted, not compared']
BUDGET = {'quick': 50, 'thorough': 700}
QUOTA = {'quick': 120, 'thorough': 2500}
KASSIGN = {'quick': 6, 'thorough': 60}
REQUIRED = {'quick': {'mid_scan_results_judged': 300, 'evaluations': 1500, 'decodes_compiled_compared': 1300, 'decodes_reloaded_compared': 1300,
                      'encodes_compared': 1000, 'tabled_programs': 120, 'history_steps': 300, 'evictions_seen': 20,
                      'loop_programs': 500, 'operator_programs': 300, 'marker_programs': 100,
                      'version_collision_steps': 500, 'cli_compile_runs': 32},
            'thorough': {'evaluations': 34000, 'decodes_compiled_compared': 18000, 'decodes_reloaded_compared': 18000,
                      'encodes_compared': 18000, 'tabled_programs': 490, 'history_steps': 8000, 'evictions_seen': 500,
                      'loop_programs': 12000, 'operator_programs': 8000, 'marker_programs': 3000}}


EXTRA_SHAPES = [
    ('marker-after-203000', [12001, 4024, 203012, 12001, 203255, 12001, 203000, 223000, 101000, 31001, 31031, 101000, 31001, 223255]),
    ('marker-with-203-in-force', [12001, 4024, 203012, 12001, 203255, 12001, 223000, 101000, 31001, 31031, 101000, 31001, 223255, 203000]),
    ('marker-under-208', [1015, 12001, 208004, 223000, 101002, 31031, 101000, 31001, 223255, 208000]),
    ('marker-under-207', [12001, 4024, 207001, 232000, 101002, 31031, 101000, 31001, 232255, 207000]),
    ('marker-under-201-202', [12001, 4024, 201130, 202129, 224000, 101002, 31031, 8023, 101000, 31001, 224255, 202000, 201000]),
    ('225-after-203000', [21146, 203014, 21146, 203255, 21146, 203000, 225000, 101000, 31001, 31031, 8024, 101000, 31001, 225255]),
    ('assoc-and-skip', [204004, 31021, 12001, 206008, 63250, 1015, 204000, 206012, 63251]),
    ('loop-with-ops-inside', [103002, 201130, 12001, 201000, 104000, 31001, 202129, 12001, 4024, 202000]),
    ('nested-loops', [102003, 1001, 103000, 31001, 12001, 101002, 4024, 2001]),
    # a replication (its class-31 factor included) INSIDE an operator range opened and closed at the same level: the factor is a
    # field like any other as far as the two execution paths are concerned
    ('delayed-replication-under-201', [201132, 101000, 31001, 12001, 201000, 1001]),
    ('delayed-replication-under-202-207', [207001, 102000, 31001, 12001, 10004, 207000, 202129, 101000, 31002, 12001, 202000, 1001]),
    ('short-factor-under-201', [201130, 101000, 31000, 12001, 12001, 201000, 4024]),
    ('fixed-and-delayed-under-201-202', [201130, 202129, 102002, 12001, 4024, 101000, 31001, 10004, 202000, 201000, 1001]),
    # a whole bitmap construct (closed by 235000) inside a replication that runs several times
    ('bitmap-in-fixed-replication', [109003, 12001, 4024, 222000, 101002, 31031, 101000, 31001, 33007, 235000]),
    ('bitmap-in-delayed-replication', [110000, 31001, 12001, 4024, 5001, 223000, 101003, 31031, 101000, 31001, 223255, 235000]),
    ('first-bitmap-in-replication-then-another', [109002, 12001, 4024, 222000, 101002, 31031, 101000, 31001, 33007, 235000,
                                                  10004, 224000, 101001, 31031, 8023, 101000, 31001, 224255]),
    # several marker operators in one subset whose operator context differs from marker to marker
    ('markers-201-then-none', [12001, 12003, 223000, 101002, 31031, 201130, 223255, 201000, 223255]),
    ('markers-none-then-202', [12001, 12003, 232000, 101002, 31031, 232255, 202129, 232255, 202000]),
    ('markers-207-then-201', [12001, 4024, 224000, 101002, 31031, 8023, 207001, 224255, 207000, 201129, 224255, 201000]),
    ('markers-208-then-none', [1015, 1019, 223000, 101002, 31031, 208004, 223255, 208000, 223255]),
    ('markers-201-202-then-202', [12001, 12003, 10004, 223000, 101003, 31031, 201130, 202129, 223255, 201000, 223255, 202000, 223255]),
    # markers INSIDE a replication body whose operator context changes from marker to marker (the body is compiled once and
    # executed 0..n times), and a marker after a loop that may run zero times
    ('markers-in-loop-201-between', [12001, 4024, 10004, 13011, 12003, 12004, 224000, 101006, 31031, 8023,
                                     104000, 31001, 224255, 201130, 224255, 201000]),
    ('markers-in-loop-202-207', [12001, 4024, 10004, 13011, 12003, 12004, 223000, 101006, 31031,
                                 106000, 31001, 202129, 223255, 202000, 207001, 223255, 207000]),
    ('marker-after-zero-count-loop', [12001, 4024, 10004, 13011, 223000, 101004, 31031, 103000, 31001, 201130, 223255, 201000,
                                      201130, 223255, 201000]),
    ('marker-in-fixed-loop-208', [1015, 1019, 1015, 1019, 232000, 101004, 31031, 104002, 208004, 232255, 208000, 232255]),
    ('two-bitmaps-in-sequence', [12001, 4024, 5001, 223000, 31031, 31031, 31031, 101000, 31001, 223255,
                                 232000, 31031, 31031, 31031, 101000, 31001, 232255]),
    ('explicit-after-replicated-bitmap', [12001, 4024, 5001, 223000, 101003, 31031, 101000, 31001, 223255,
                                          232000, 31031, 31031, 31031, 101000, 31001, 232255]),
]


def anchors():
    from pybufrkit import templatecompiler as tc
    return [tc.TemplateCompiler.process_bitmapped_descriptor, tc.TemplateCompiler.process_bitmap_definition,
            tc.process_statements, tc.CompiledTemplateManager.get_or_compile, tc.loads_compiled_template,
            tc.load_method_call_from_dict, tc.load_loop_from_dict, tc.MethodCall.to_dict]


class AssignPolicy(EdgePolicy):
    """delayed replication factors and bitmap bits follow given assignment vectors (cyclic)."""

    def __init__(self, rng, counts, bits, phase=0):
        EdgePolicy.__init__(self, rng, phase=phase)
        self.counts, self.bits, self.ci, self.bi = counts, bits, 0, 0
        self.n_counts = 0

    def count(self, pw, w, eid):
        self.n_counts += 1
        hi = (1 << w) - 2 if w > 1 else 1
        c = self.counts[self.ci % len(self.counts)]
        self.ci += 1
        return min(hi, c)

    def bitmap_bit(self, pw):
        b = self.bits[self.bi % len(self.bits)]
        self.bi += 1
        return b

    def bitmap_length(self, pw, w, P):
        return min(P, 4, (1 << w) - 2)


def make_coders():
    from pybufrkit.decoder import Decoder
    from pybufrkit.encoder import Encoder
    from pybufrkit.templatecompiler import CompiledTemplateManager, loads_compiled_template

    class ReloadManager(CompiledTemplateManager):
        def get_or_compile(self, template, table_group):
            ct = CompiledTemplateManager.get_or_compile(self, template, table_group)
            return loads_compiled_template(json.dumps(ct.to_dict()))

    class SavingManager(CompiledTemplateManager):
        """a caller who writes every compiled template to disk (what `pybufrkit compile` prints) and goes on using the cached
        original: saving is a read, the template executes afterwards as before"""
        def get_or_compile(self, template, table_group):
            ct = CompiledTemplateManager.get_or_compile(self, template, table_group)
            json.dumps(ct.to_dict())
            return ct

    class HoldingManager(CompiledTemplateManager):
        """a caller who keeps the handle a manager gave him for a template and goes on executing THAT handle, while the manager
        (cache of one entry) is asked for other templates in between and evicts and recompiles as it likes: a compiled template
        that has been handed out is the caller's, it executes the same whatever the cache did since"""
        def get_or_compile(self, template, table_group):
            ct = CompiledTemplateManager.get_or_compile(self, template, table_group)
            held = self.__dict__.setdefault('held_handles', {})
            key = (tuple(template.original_descriptor_ids), repr(getattr(table_group, 'key', None)))
            return held.setdefault(key, ct)

    d = dict(plain=Decoder(), compiled=Decoder(compiled_template_cache_max=3), reloaded=Decoder(compiled_template_cache_max=0),
             saved=Decoder(compiled_template_cache_max=3), held=Decoder(compiled_template_cache_max=1))
    d['held'].compiled_template_manager = HoldingManager(1)
    d['reloaded'].compiled_template_manager = ReloadManager(0)
    d['saved'].compiled_template_manager = SavingManager(3)
    e = dict(plain=Encoder(), compiled=Encoder(compiled_template_cache_max=3), reloaded=Encoder(compiled_template_cache_max=0),
             saved=Encoder(compiled_template_cache_max=3), held=Encoder(compiled_template_cache_max=1))
    e['held'].compiled_template_manager = HoldingManager(1)
    e['reloaded'].compiled_template_manager = ReloadManager(0)
    e['saved'].compiled_template_manager = SavingManager(3)
    return d, e


def snap(m):
    td = td_of(m)
    return ('ok', repr(td.decoded_values_all_subsets), [[str(x) for x in ds] for ds in td.decoded_descriptors_all_subsets],
            [sorted(dict(x).items()) for x in td.bitmap_links_all_subsets])


def outcome(f):
    try:
        return f()
    except Exception as e:
        return ('exc', type(e).__name__, str(e)[:100])


def why_differs(a, b):
    if a[0] != b[0]:
        return 'error-vs-result'
    if a[0] == 'exc':
        return 'exception-class'
    return 'labels' if a[2] != b[2] else ('values' if a[1] != b[1] else 'links')


def feature_sig(ids):
    f = []
    if any(i % 1000 == 255 and i // 1000 in (223, 224, 225, 232) for i in ids):
        f.append('marker')
    for op in (203, 204, 206, 207, 208, 221):
        if any(i // 1000 == op for i in ids):
            f.append(str(op))
    if any(i == 31031 for i in ids) and any(ids[k] // 1000 in (222, 223, 224, 225, 232) and ids[k] % 1000 == 0 and ids[k + 1] == 31031
                                            for k in range(len(ids) - 1)):
        f.append('explicit-bitmap')
    return '+'.join(f) or 'plain'


def judge_interpreted(kind, m, base, opts):
    """C08's oracle for a message delivered / read in the middle of other work on a compiling decoder: the interpreted decode of the
    same octets on a quiet decoder"""
    if kind != 'full':
        return None
    o = snap(m)
    if o != base:
        w = why_differs(o, base)
        return ('%s-differ-from-interpreted' % w, 'decoded %s differ from the interpreted decode of the same message' % w)
    return None


def compare_message(ctx, decs, encs, b, ids, spec, do_encode=True):
    from pybufrkit.renderer import FlatJsonRenderer
    from pybufrkit.utils import EntityEncoder
    has_loop = any(i // 100000 == 1 for i in ids) or any(i // 100000 == 3 for i in ids)
    has_op = any(i // 100000 == 2 for i in ids)
    fs = feature_sig(ids)
    base = outcome(lambda: snap(decs['plain'].process(b)))
    ctx.evaluated(b.hex(), has_loop or has_op, sample=dict((k, v) for k, v in spec.items() if k != 'hex'))
    if has_loop:
        ctx.count('loop_programs')
    if has_op:
        ctx.count('operator_programs')
    if 'marker' in fs:
        ctx.count('marker_programs')
    if base[0] == 'exc':
        ctx.count('plain_decode_raises')
    for name in ('compiled', 'reloaded', 'saved', 'saved', 'held'):
        o = outcome(lambda: snap(decs[name].process(b)))
        ctx.count('decodes_%s_compared' % name)
        if o[0] == 'exc' and base[0] == 'exc' and o[1] == base[1]:
            continue
        if o != base:
            w = why_differs(o, base)
            ctx.violate('decode/%s-differs/%s/%s' % (name, w, fs),
                        '%s decode differs from the interpreted one (%s): %r vs %r'
                        % (name, w, o[1:3] if o[0] == 'exc' else o[0], base[1:3] if base[0] == 'exc' else base[0]),
                        spec, expected=base if base[0] == 'exc' else None, observed=o if o[0] == 'exc' else None)
    # the handle kept for an EARLIER template is executed again now that the manager has compiled (and evicted) others since
    ring = ctx.__dict__.setdefault('_c08_ring', [])
    if base[0] == 'ok':
        ring.append((b, base, fs))
    if len(ring) > 3:
        ob, obase, ofs = ring.pop(0)
        o = outcome(lambda: snap(decs['held'].process(ob)))
        ctx.count('kept_handles_executed_after_other_templates')
        if o != obase:
            ctx.violate('decode/held-differs/after-other-templates/%s/%s' % (why_differs(o, obase), ofs),
                        'a compiled template whose handle was kept, executed again after the manager had compiled other templates, decodes '
                        'differently from the interpreted decoder', dict(spec, earlier_hex=ob.hex()))
    # compiled decoding is the interpreted decoding also when its messages are delivered by scans and decodes that are in flight
    # together on ONE compiling decoder (small caches: templates are compiled, evicted and compiled again between two next() calls)
    # (only octet strings that ARE one message: some workloads of this check hand the decoders a message followed by other octets)
    if base[0] == 'ok' and len(b) < 3000 and b[7] >= 2 and int.from_bytes(b[4:7], 'big') == len(b) and b.count(b'BUFR') == 1 and b.count(b'7777') == 1:
        recent = ctx.__dict__.setdefault('_c08_recent', [])
        recent.append((b, base))
        if len(recent) >= 6:
            ctx.count('mid_scan_blocks')
            if ctx.counters['mid_scan_blocks'] % (5 if ctx.quick else 2) == 1:
                from pybufrkit.decoder import Decoder
                size = ctx.rng.choice([1, 1, 2, 3, 8])
                midscan.scenarios(ctx, 'compiled', lambda: Decoder(compiled_template_cache_max=size), recent[:3], recent[3:6],
                                  judge_interpreted, dict(origin='mid-scan', cache_max=size))
            del recent[:]
    if not do_encode or base[0] != 'ok':
        return
    try:
        m = decs['plain'].process(b)
        fjs = json.dumps(FlatJsonRenderer().render(m), cls=EntityEncoder)
    except Exception:
        return
    # the same values with the delayed replication factors given as floats (2.0 for 2: what other tools' JSON may hold): whatever
    # the interpreting encoder makes of that form - bytes or a refusal - the compiling encoders make the same of it
    try:
        labels_all = [[str(d) for d in ds] for ds in td_of(m).decoded_descriptors_all_subsets]
        fo = json.loads(fjs)
        nfac = 0
        for si, srow in enumerate(fo[-2][-1]):
            labs = labels_all[si if si < len(labels_all) else 0]
            for j, lab in enumerate(labs):
                if lab in ('031000', '031001', '031002') and j < len(srow) and isinstance(srow[j], int):
                    srow[j] = float(srow[j])
                    nfac += 1
        if nfac:
            ff = json.dumps(fo)
            ctx.count('encodes_with_float_replication_factors')
            ob = outcome(lambda: ('ok', encs['plain'].process(ff).serialized_bytes))
            for name in ('compiled', 'reloaded'):
                o = outcome(lambda: ('ok', encs[name].process(ff).serialized_bytes))
                if o[0] != ob[0] or (o[0] == 'ok' and o != ob) or (o[0] == 'exc' and o[1] != ob[1]):
                    ctx.violate('encode/%s-differs/input-form/float-replication-factor/%s' % (name, 'error-vs-result' if o[0] != ob[0] else 'other'),
                                '%s encoder and interpreting encoder disagree on values whose replication factors are given as floats: %r vs %r'
                                % (name, o[1:] if o[0] == 'exc' else len(o[1]), ob[1:] if ob[0] == 'exc' else len(ob[1])), dict(spec, form='float-replication-factor'))
                    break
    except Exception as e:
        ctx.notes.append('float factor form skipped: %r' % (e,))
    eb = outcome(lambda: ('ok', encs['plain'].process(fjs).serialized_bytes))
    for name in ('compiled', 'reloaded', 'saved', 'saved', 'held'):
        o = outcome(lambda: ('ok', encs[name].process(fjs).serialized_bytes))
        ctx.count('encodes_compared')
        if o[0] == 'exc' and eb[0] == 'exc' and o[1] == eb[1]:
            continue
        if o != eb:
            w = 'bytes' if o[0] == eb[0] == 'ok' else ('exception-class' if o[0] == eb[0] else 'error-vs-result')
            ctx.violate('encode/%s-differs/%s/%s' % (name, w, fs),
                        '%s encoder differs from the interpreted one (%s): %r vs %r'
                        % (name, w, o[1:] if o[0] == 'exc' else len(o[1]), eb[1:] if eb[0] == 'exc' else len(eb[1])), spec)


def cli_compile(ctx, ids, mtv, b, spec):
    """`pybufrkit compile <ids>` prints a compiled template; loaded back it must behave like the interpreted decoder"""
    from mon.cli import run_cli
    from pybufrkit.decoder import Decoder
    from pybufrkit.templatecompiler import CompiledTemplateManager, loads_compiled_template
    ctx.count('cli_compile_runs')
    so, se, exc, code = run_cli(['compile', ','.join('%06d' % i for i in ids), '--master-table-version', str(mtv)])
    if exc is not None or se.strip():
        ctx.violate('cli-compile-fails', 'pybufrkit compile failed: %r %s' % (exc, se[:120]), dict(spec, cli='compile'))
        return
    try:
        ct = loads_compiled_template(so)
    except Exception as e:
        ctx.violate('cli-compile-output-unloadable:%s' % type(e).__name__, 'output of pybufrkit compile cannot be loaded: %r' % (e,),
                    dict(spec, cli='compile'), exc=e)
        return

    class Fixed(CompiledTemplateManager):
        def get_or_compile(self, template, table_group):
            return ct
    d = Decoder(compiled_template_cache_max=1)
    d.compiled_template_manager = Fixed(1)
    base = outcome(lambda: snap(Decoder().process(b)))
    o = outcome(lambda: snap(d.process(b)))
    ctx.evaluated((b.hex(), 'cli-compile'), True)
    if o != base and not (o[0] == 'exc' and base[0] == 'exc' and o[1] == base[1]):
        ctx.violate('decode/cli-compiled-differs/%s/%s' % (why_differs(o, base), feature_sig(ids)),
                    'decoding with the template printed by `pybufrkit compile` differs from the interpreted decode', dict(spec, cli='compile'))


def refused_programs(ctx, decs, encs):
    """templates that are refused (a descriptor in no table, an operator that is not implemented) at the top level, inside a fixed
    and inside a delayed replication: same error with compilation on, first time and again (nothing half-compiled is kept)"""
    B, D = cases.tables(33)
    rng = ctx.rng
    variants = [([1001, 12001, 2001], 1, 63255), ([1001, 102002, 12001, 2001], 3, 63255), ([1001, 102002, 12001, 2001], 2, 12250),
                ([101000, 31001, 12001, 1001], 2, 48001), ([1001, 103002, 12001, 2001, 1002], 3, 363255),
                ([1001, 102002, 12001, 2001], 3, 241000), ([101000, 31001, 12001, 1001], 2, 0)]
    for vi, (ids, pos, bad) in enumerate(variants):
        if not ctx.mine(vi):
            continue
        for comp in (False, True):
            try:
                msg = R.build_message(ids, B, D, AssignPolicy(rng, [2], [0], phase=vi), 2, comp, 4)
            except R.Unsupported:
                continue
            fr = R.parse_frame(msg.bytes)
            st = fr.sections[3][0] + 7 + 2 * pos
            b = bytearray(msg.bytes)
            b[st] = ((bad // 100000) << 6) | (bad // 1000 % 100)
            b[st + 1] = bad % 1000
            ids2 = list(ids)
            ids2[pos] = bad
            spec = dict(origin='refused-program', ids=ids2, compressed=comp, hex=bytes(b).hex())
            for rep in range(2):
                ctx.count('refused_programs')
                compare_message(ctx, decs, encs, bytes(b), ids2, spec, do_encode=False)
            # an intact message with the ORIGINAL list afterwards is not affected either
            compare_message(ctx, decs, encs, msg.bytes, ids, dict(spec, ids=ids, hex=msg.bytes.hex(), after='refused'), do_encode=False)


def count_delayed(ids, D, depth=0):
    n = 0
    for i in ids:
        if i // 100000 == 1 and i % 1000 == 0:
            n += 1
        elif i >= 300000 and depth < 10 and i in D:
            n += count_delayed(D[i], D, depth + 1)
    return n


def assignments(nd, K, rng):
    if nd == 0:
        # no structure to vary: still several data contents (edge-value phases, compressed and not) - a single
        # content can hide a difference behind a missing value
        return [(1,), (1,), (1,)]
    allv = list(itertools.product(range(4), repeat=min(nd, 6)))
    if len(allv) <= K:
        return allv
    picks = [tuple([0] * min(nd, 6)), tuple([1] * min(nd, 6)), tuple([3] * min(nd, 6))]
    picks += rng.sample(allv, K - 3)
    return picks


def run_program(ctx, decs, encs, ids, B, D, mtv, origin, name=None, K=None, local=None):
    rng = ctx.rng
    K = K or KASSIGN[ctx.tier]
    nd = count_delayed(ids, D)
    produced = 0
    for ai, counts in enumerate(assignments(nd, K, rng)):
        comp = bool(ai % 2)
        bits = [(ai >> k) & 1 for k in range(4)] if ai < 16 else [rng.randint(0, 1) for _ in range(4)]
        if all(bits):
            bits[0] = 0
        meta = dict(master_table_version=mtv)
        if local:
            meta.update(local)
        try:
            msg = R.build_message(ids, B, D, AssignPolicy(rng, counts, bits, phase=ai), 2 if comp else 1 + ai % 2, comp,
                                  [4, 3, 4, 2][ai % 4], meta, grey31=True)
        except R.Unsupported as e:
            ctx.count('r_unsupported_programs')
            ctx.add('r_unsupported', str(e)[:50])
            break
        except (KeyError, RecursionError):
            ctx.count('r_unsupported_programs')
            break
        produced += 1
        spec = dict(origin=origin, name=name, ids=ids if len(ids) < 60 else ids[:60], mtv=mtv, counts=list(counts), bits=bits,
                    compressed=comp, hex=msg.bytes.hex())
        compare_message(ctx, decs, encs, msg.bytes, msg.ids, spec, do_encode=(ai % 2 == 0))
        if origin == 'shape' and ai == 0 and not local and ids:
            cli_compile(ctx, ids, mtv, msg.bytes, spec)
    return produced


def tabled_programs(quick, rng):
    """[(mtv, seq id, local meta or None)] de-duplicated by (expanded ids, Table B attributes)"""
    seen = set()
    out = []
    for v in R.wmo_versions():
        if v < 19:
            continue
        B, D = R.load_tables(0, 0, 0, v, 0)
        for sid in sorted(D):
            try:
                flat = flat_ids(D[sid], D)
            except (KeyError, RecursionError):
                continue
            key = (tuple(flat), tuple(B.get(i, ())[1:] for i in flat if i < 100000))
            if key in seen:
                continue
            seen.add(key)
            out.append((v, sid, None))
    for ce, su, lv, path in R.local_table_dirs():
        try:
            B, D = R.load_tables(0, ce, su, 33, lv)
        except Exception:
            continue
        from mon.refbufr.rtables import load_dir
        Bl, Dl = load_dir(path)
        for sid in sorted(Dl):
            out.append((33, sid, dict(originating_centre=ce, originating_subcentre=su, local_table_version=lv)))
    return out


def flat_ids(ids, D, depth=0):
    if depth > 12:
        raise RecursionError
    out = []
    for i in ids:
        if i >= 300000:
            out += flat_ids(D[i], D, depth + 1)
        else:
            out.append(i)
    return out


def history(ctx, pool):
    """cache sizes 0/1/2/n x random orders with repeats: every step equals the interpreted result"""
    from pybufrkit.decoder import Decoder
    from pybufrkit.encoder import Encoder
    rng = ctx.rng
    plain = Decoder()
    expected = {}
    for i, (b, ids) in enumerate(pool):
        expected[i] = outcome(lambda: snap(plain.process(b)))
    for size in (0, 1, 2, len(pool) + 1):
        dec = Decoder(compiled_template_cache_max=size)
        order = [rng.randrange(len(pool)) for _ in range(12 if ctx.quick else 40)]
        prev_keys = set()
        for step, i in enumerate(order):
            b, ids = pool[i]
            o = outcome(lambda: snap(dec.process(b)))
            ctx.count('history_steps')
            ctx.evaluated((b.hex(), 'hist', size, step, tuple(order[:step])), True)
            try:      # (private bookkeeping of the manager: evidence and an ADVISORY only)
                keys = set(dec.compiled_template_manager.cache.keys())
            except Exception:
                keys = set()
                ctx.count('cache_probe_unavailable')
            if prev_keys - keys:
                ctx.count('evictions_seen')
            prev_keys = keys
            if len(keys) > max(size, 0):
                ctx.violate('cache/size-exceeds-max', 'compiled-template cache holds %d entries with cache_max=%d' % (len(keys), size),
                            dict(order=order[:step + 1], size=size), advisory=True)
            e = expected[i]
            if o != e and not (o[0] == 'exc' and e[0] == 'exc' and o[1] == e[1]):
                ctx.violate('history/compiled-differs/cache%s/%s' % (size if size < 3 else 'n', why_differs(o, e)),
                            'after the message order %r with cache size %d the compiled decode of message %d differs from the interpreted one'
                            % (order[:step + 1], size, i), dict(order=order[:step + 1], size=size, hex=b.hex(), ids=ids))
                break


def version_collisions(ctx):
    """same descriptor list under two table versions that define an element differently, processed by
    ONE compiled coder in both orders: the cache must be keyed by the table group as well"""
    from pybufrkit.decoder import Decoder
    from pybufrkit.encoder import Encoder
    from pybufrkit.renderer import FlatJsonRenderer
    from pybufrkit.utils import EntityEncoder
    rng = ctx.rng
    pairs = cases.version_sensitive_pairs(19 if ctx.quick else 6)
    lpairs = cases.local_sensitive_pairs()
    if not pairs:
        return
    plain_d, plain_e = Decoder(), Encoder()
    for it in range(6 if ctx.quick else 40):
        try:
            if lpairs and it % 3 == 2:
                # same descriptors and master version, two bundled LOCAL table versions
                lp = rng.choice(lpairs)
                ids, (ma, mb) = cases.local_pair_messages(rng, lp, compressed=rng.random() < 0.3, form=rng.choice(['plain', 'marker', 'assoc', 'first-order']))
                pair = (lp[0], lp[1][2], lp[2][2])
                ctx.count('local_table_collision_pairs')
            else:
                pair = rng.choice(pairs)
                ids, (ma, mb) = cases.version_pair_messages(rng, pair, compressed=rng.random() < 0.3, form=rng.choice(['plain', 'marker', 'assoc', 'first-order']))
        except (R.Unsupported, KeyError):
            continue
        msgs = {'A': ma.bytes, 'B': mb.bytes}
        want = {k: outcome(lambda: snap(plain_d.process(b))) for k, b in msgs.items()}
        fjs = {}
        wante = {}
        for k, b in msgs.items():
            try:
                fjs[k] = json.dumps(FlatJsonRenderer().render(plain_d.process(b)), cls=EntityEncoder)
                wante[k] = outcome(lambda: ('ok', plain_e.process(fjs[k]).serialized_bytes))
            except Exception:
                pass
        for size in (1, 2, 50):
            for order in ('AB', 'BA', 'ABA'):
                dec = Decoder(compiled_template_cache_max=size)
                enc = Encoder(compiled_template_cache_max=size)
                for step, k in enumerate(order):
                    ctx.count('version_collision_steps')
                    ctx.evaluated((msgs[k].hex(), 'vc', size, order, step), True)
                    o = outcome(lambda: snap(dec.process(msgs[k])))
                    if o != want[k] and not (o[0] == 'exc' and want[k][0] == 'exc' and o[1] == want[k][1]):
                        ctx.violate('history/same-ids-other-table-version/decode/cache%s' % (size if size < 3 else 'n'),
                                    'element %06d differs between versions %d and %d: with one compiled decoder (cache %d) and order %s, '
                                    'message %s (step %d) decodes differently from the interpreted decoder (%s)'
                                    % (pair[0], pair[1], pair[2], size, order, k, step, why_differs(o, want[k])),
                                    dict(pair=list(pair), ids=ids, order=order, size=size, hexA=msgs['A'].hex(), hexB=msgs['B'].hex()))
                        break
                    if k in fjs:
                        oe = outcome(lambda: ('ok', enc.process(fjs[k]).serialized_bytes))
                        if oe != wante[k] and not (oe[0] == 'exc' and wante[k][0] == 'exc' and oe[1] == wante[k][1]):
                            ctx.violate('history/same-ids-other-table-version/encode/cache%s' % (size if size < 3 else 'n'),
                                        'element %06d, versions %d/%d: one compiled encoder (cache %d), order %s: message %s encodes differently'
                                        % (pair[0], pair[1], pair[2], size, order, k),
                                        dict(pair=list(pair), ids=ids, order=order, size=size, hexA=msgs['A'].hex(), hexB=msgs['B'].hex()))
                            break


NEAR_PAIRS = [
    # descriptor lists that differ only INSIDE a top-level replication (members or class-31 factor)
    ([1001, 102002, 12001, 4024], [1001, 102002, 12001, 2001]),
    ([1001, 101000, 31001, 12001], [1001, 101000, 31002, 12001]),
    ([103002, 1001, 12001, 4024, 5001], [103002, 1001, 12001, 2001, 5001]),
    ([1001, 102000, 31001, 12001, 101002, 4024], [1001, 102000, 31001, 12001, 101002, 10004]),
    ([101003, 12001], [101002, 12001]),
    ([1001, 102002, 12001, 4024, 2001], [1001, 102002, 12001, 4024, 2002]),
]


def structure_collisions(ctx):
    """two messages of one table group whose descriptor lists differ only inside a replication, processed by one
    compiled coder in both orders"""
    from pybufrkit.decoder import Decoder
    rng = ctx.rng
    B, D = cases.tables(33)
    plain = Decoder()
    for pi, (ia, ib) in enumerate(NEAR_PAIRS):
        if not ctx.mine(pi):
            continue
        try:
            ma = R.build_message(ia, B, D, R.Policy(rng), 1, False, 4)
            mb = R.build_message(ib, B, D, R.Policy(rng), 1, False, 4)
        except R.Unsupported:
            continue
        msgs = {'A': ma.bytes, 'B': mb.bytes}
        want = {k: outcome(lambda: snap(plain.process(b))) for k, b in msgs.items()}
        for size in (1, 2, 50):
            for order in ('AB', 'BA', 'ABAB'):
                dec = Decoder(compiled_template_cache_max=size)
                for step, k in enumerate(order):
                    ctx.count('structure_collision_steps')
                    ctx.evaluated((msgs[k].hex(), 'sc', size, order, step), True)
                    o = outcome(lambda: snap(dec.process(msgs[k])))
                    if o != want[k] and not (o[0] == 'exc' and want[k][0] == 'exc' and o[1] == want[k][1]):
                        ctx.violate('history/near-identical-descriptor-lists/decode/cache%s' % (size if size < 3 else 'n'),
                                    'lists %r and %r differ only inside a replication: one compiled decoder (cache %d), order %s: '
                                    'message %s (step %d) differs from the interpreted decode (%s)'
                                    % (ia, ib, size, order, k, step, why_differs(o, want[k])),
                                    dict(idsA=ia, idsB=ib, order=order, size=size, hexA=msgs['A'].hex(), hexB=msgs['B'].hex()))
                        break


def run(ctx):
    rng = ctx.rng
    decs, encs = make_coders()
    version_collisions(ctx)
    structure_collisions(ctx)
    refused_programs(ctx, decs, encs)
    B33, D33 = cases.tables(33)
    pool = []
    # hand-made shapes (scoped only)
    n = 0
    for name, ids in EXTRA_SHAPES + list(SHAPES) + CHAIN_SHAPES + ASSOC_SHAPES:
        n += 1
        if not ctx.mine(n):
            continue
        if not scoped(ids, D33):
            ctx.count('unscoped_skipped')
            continue
        ctx.add('shapes', name)
        run_program(ctx, decs, encs, ids, B33, D33, 33, 'shape', name, K=8 if ctx.quick else 40)
    # Table D programs
    progs = tabled_programs(ctx.quick, rng)
    ctx.count('tabled_programs_total', len(progs) if ctx.shard == 0 else 0)
    if ctx.quick:
        r2 = __import__('random').Random(ctx.seed)
        progs = r2.sample(progs, min(len(progs), 320))
    for i, (v, sid, local) in enumerate(progs):
        if not ctx.mine(i) or not ctx.more():
            continue
        if local:
            B, D = R.load_tables(0, local['originating_centre'], local['originating_subcentre'], v, local['local_table_version'])
        else:
            B, D = R.load_tables(0, 0, 0, v, 0)
        if not scoped([sid], D):
            ctx.count('unscoped_skipped')
            continue
        got = run_program(ctx, decs, encs, [sid], B, D, v, 'tableD', '%06d@v%d' % (sid, v), local=local)
        if got:
            ctx.count('tabled_programs')
    # corpus templates with their own data
    repo = os.environ.get('VERIF_REPO', '/repo')
    files = sorted(glob.glob(os.path.join(repo, 'tests', 'data', '*.bufr')) +
                   ([] if ctx.quick else glob.glob(os.path.join(repo, 'tests', 'benchmark_data', '*.bufr'))))
    for i, f in enumerate(files):
        if not ctx.mine(i) or os.path.basename(f) in ('multi_invalid_messages.bufr', 'prepbufr.bufr'):
            continue
        b = open(f, 'rb').read()
        try:
            ids = R.parse_frame(b[b.find(b'BUFR'):]).param('unexpanded_descriptors')
        except Exception:
            continue
        ctx.count('corpus_messages')
        compare_message(ctx, decs, encs, b, ids, dict(origin='corpus', file=os.path.basename(f)))
        if len(pool) < 6 and len(b) < 4000:
            pool.append((b, ids))
    # generated templates
    q = 0
    while q < QUOTA[ctx.tier] and ctx.more():
        q += 1
        mtv = rng.choice(cases.MTVS)
        g = cases.gen_for(mtv, rng, pclose=1.0)
        ids = g.template(ptail=0.5)
        Bv, Dv = cases.tables(mtv)
        if not scoped(ids, Dv):
            ctx.count('unscoped_skipped')
            continue
        comp = rng.random() < 0.4
        try:
            msg = R.build_message(ids, Bv, Dv, R.Policy(rng), rng.choice([1, 2, 3]), comp, rng.choice([2, 3, 4]),
                                  dict(master_table_version=mtv))
        except R.Unsupported:
            ctx.count('gen_unsupported')
            continue
        if any(me and me[0] == 'n' and me[2] > 0 and me[1] > 48 for s in msg.subsets for me in s.meta):
            continue
        spec = dict(origin='random', ids=ids, mtv=mtv, compressed=comp, nsub=msg.nsub, hex=msg.bytes.hex())
        compare_message(ctx, decs, encs, msg.bytes, ids, spec, do_encode=(q % 2 == 0))
        if len(pool) < 14:
            pool.append((msg.bytes, ids))
    if len(pool) >= 3:
        for _ in range(2 if ctx.quick else 10):
            history(ctx, pool)


def replay(ctx, case):
    spec = case['case']
    decs, encs = make_coders()
    if 'hex' in spec:
        b = bytes.fromhex(spec['hex'])
    else:
        repo = os.environ.get('VERIF_REPO', '/repo')
        p = os.path.join(repo, 'tests', 'data', spec['file'])
        if not os.path.exists(p):
            p = os.path.join(repo, 'tests', 'benchmark_data', spec['file'])
        b = open(p, 'rb').read()
    ids = R.parse_frame(b[b.find(b'BUFR'):]).param('unexpanded_descriptors')
    compare_message(ctx, decs, encs, b, ids, spec)
