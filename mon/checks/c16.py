"""C16 - data queries return exactly the values the path designates.

Oracle: an independent evaluator of '/' and '.' steps with slices over the message's nested JSON
rendering (mon/nested.py, DESIGN appendix B): one envelope per replication, one list per
repetition, selected matches in document order.  Paths are derived from the structure so every
step exists; steps the documentation leaves undefined (node without members/attributes, final node
without value) are UNSPECIFIED and not judged.  Bare-ID clause: flatten(result[subset]) == values
carrying that label in the flat data, for ordinary element IDs.  '@' selectors: exactly the
selected subsets.  Invariance: same query on compressed / uncompressed / compiled / non-compiled
decodes of the same data.
"""
import glob
import json
import os

from mon import refbufr as R
from mon import handover, midscan
from mon import nested
from mon.compare import td_of
from mon.gen import cases
from mon.gen import failures
from mon.gen.shapes import SHAPES, EdgePolicy
from mon.checks.c07 import ASSOC_SHAPES, CHAIN_SHAPES

ID = 'C16'
LEVEL = 'exploration'
TECHNIQUE = ('runtime monitoring: independent path evaluator over the nested JSON view as oracle for DataQuerent; '
             'differential runs across compressed/uncompressed and compiled/non-compiled decodes')
RULE = ('R-produced messages (random templates with sequences, fixed/delayed/zero-count/nested replications, factors, '
        'associated, marker and quality attributes) and sample files x every structure-derived path (depth <= 6) x slice '
        'variants (none, 0, 1, 2, -1, -2, [:], [1:], [::2], [::-1], [0:1], [-2:]) drawn per step x subset selectors; '
        'bare element IDs; non-trivial = non-empty result; distinct by SHA-1 of (message bytes, expression); mixed-sign slices; selector queries over several subsets judged per subset (attribute paths first); same-layout-different-bitmap subsets; `pybufrkit query` (text, -j, -j -n, two files, -t <tables root>)')
RULE += '; added with rounds 10-12: results of queries on earlier messages read after later queries of the same querent; paths written with tabs / line ends; bare-ID queries on messages delivered / decoded while scans are suspended (mid-scan scenarios); twins'
ASSUMPTIONS = ['the nested JSON rendering is the reference structure (its own correctness is C07/C09)',
               'a step applied to a node without members/attributes, or a final node without a value, is unspecified (library: QueryError) and not judged',
               'bare-ID clause is judged for element IDs (F=0) outside class 31 that never occur as an attribute or factor in the message '
               'and have no occurrence without data (221YYY) - the library raises QueryError for a valueless match',
               'descendant (>) steps other than the leading bare ID are outside the stated space']
BUDGET = {'quick': 45, 'thorough': 600}
QUOTA = {'quick': 45, 'thorough': 900}
REQUIRED = {'quick': {'evaluations': 8000, 'path_queries_compared': 6000, 'bare_id_queries': 800,
                      'subset_selector_queries': 500, 'all_values_parallel_checks': 500, 'attribute_step_queries': 500, 'replication_envelope_results': 800,
                      'invariance_checks': 300, 'corpus_messages': 6, 'sliced_queries': 3000,
                      'malformed_queries_interleaved': 500, 'query_result_renderings': 1500,
                      'same_layout_different_bitmap_messages': 12, 'cli_query_runs': 30},
            'thorough': {'evaluations': 150000, 'path_queries_compared': 120000, 'bare_id_queries': 15000,
                      'subset_selector_queries': 10000, 'all_values_parallel_checks': 10000, 'attribute_step_queries': 10000,
                      'replication_envelope_results': 15000, 'invariance_checks': 5000, 'corpus_messages': 62,
                      'sliced_queries': 60000}}


SL = [None, 0, 1, 2, -1, -2, (None, None, None), (1, None, None), (None, None, 2), (None, None, -1), (0, 1, None),
      (-2, None, None), (None, 1, None), (1, 3, None),
      # mixed signs: a negative start is resolved against ALL matches, whatever the stop
      (-2, 3, None), (-1, 1, None), (-3, 2, None), (-2, -1, None), (None, 0, None), (1, -1, None), (0, None, 2)]
SELECTORS = [('@[0]', lambda n: [0]), ('@[-1]', lambda n: list(range(n))[-1:]), ('@[::2]', lambda n: list(range(n))[::2]),
             ('@[1:]', lambda n: list(range(n))[1:]), ('@[:1]', lambda n: list(range(n))[:1]),
             ('@[::-1]', lambda n: list(range(n))[::-1]), ('@[1]', lambda n: [1])]


def anchors():
    from pybufrkit.dataquery import DataQuerent
    return [DataQuerent.query, DataQuerent.filter_for_child_sub_nodes, DataQuerent.filter_for_attribute_sub_nodes,
            DataQuerent.filter_for_descendant_sub_nodes, DataQuerent.filter_for_entities,
            DataQuerent.create_values_from_nodes, DataQuerent.query_compressed_data]


def norm(x):
    if isinstance(x, list):
        return [norm(y) for y in x]
    if isinstance(x, tuple):
        return [norm(y) for y in x]
    if isinstance(x, bytes):
        return x.decode('latin-1')
    return x


def flat(x):
    out = []
    for y in x:
        if isinstance(y, list):
            out += flat(y)
        else:
            out.append(y)
    return out


def has_envelope(x):
    return any(isinstance(y, list) for y in x)


def expr_of(comps):
    return ''.join(s + i + nested.slice_str(x) for s, i, x in comps)


def valueless_ids(nodes, out):
    for n in nodes:
        if 'value' not in n:
            out.add(n['id'])
        mem = n.get('members')
        if mem:
            if nested.is_replication(n):
                for rep in mem:
                    valueless_ids(rep, out)
            else:
                valueless_ids(mem, out)


def attribute_ids(nodes, out):
    for n in nodes:
        for a in n.get('attributes', []):
            out.add(a['id'])
            attribute_ids([a], out)
        if 'factor' in n:
            out.add(n['factor']['id'])
            attribute_ids([n['factor']], out)
        mem = n.get('members')
        if mem:
            if nested.is_replication(n):
                for rep in mem:
                    attribute_ids(rep, out)
            else:
                attribute_ids(mem, out)


def judge_bare_ids(kind, m, exp, opts):
    """C16's bare-ID clause as the oracle for a message delivered / decoded in the middle of other work: for an ordinary element
    (never an attribute, no valueless occurrence) the bare ID returns, per subset, the values carrying that label in the flat data"""
    from pybufrkit.renderer import NestedJsonRenderer
    from pybufrkit.dataquery import NodePathParser, DataQuerent
    if kind != 'full':
        return None
    if opts.get('wire_template_data') is False:
        m.wire()
    nj = NestedJsonRenderer().render(m)
    nodes_all = json.loads(json.dumps(nj[-2][-1]['value'], default=lambda b: b.decode('latin-1')))
    td = td_of(m)
    nsub = len(nodes_all)
    if not nsub or all(not sub for sub in nodes_all):
        if any(len(v) for v in td.decoded_values_all_subsets):
            return ('hierarchical-view-empty', 'the message holds %d values but its hierarchical view is empty: no path can be evaluated'
                    % sum(len(v) for v in td.decoded_values_all_subsets))
        return None
    skip = set()
    for sub in nodes_all:
        attribute_ids(sub, skip)
        valueless_ids(sub, skip)
    labels_all = [[str(d) for d in ds] for ds in td.decoded_descriptors_all_subsets]
    ids = []
    for lab in labels_all[0]:
        if lab[0] == '0' and lab[:3] != '031' and lab not in skip and lab not in ids:
            ids.append(lab)
    q = DataQuerent(NodePathParser())
    for lab in ids[:4]:
        try:
            qr = q.query(m, lab)
        except Exception as ex:
            return ('bare-id-raises:%s' % type(ex).__name__, 'bare ID query %r raised %s' % (lab, type(ex).__name__))
        if qr.subset_indices() != list(range(nsub)):
            return ('bare-id-subsets', 'bare ID query %r returned subsets %r' % (lab, qr.subset_indices()))
        for k in range(nsub):
            want = [norm(v) for l, v in zip(labels_all[k], td.decoded_values_all_subsets[k]) if l == lab]
            got = norm(qr.get_values(k, flat=True))
            if got != want:
                return ('bare-id-values', 'bare ID %r in subset %d returned %r, flat data has %r' % (lab, k, got[:6], want[:6]))
    return None


def query_message(ctx, q, m, spec, origin, npaths):
    """compare the real querent with the evaluator on message m. Returns the list of (expr) used."""
    from pybufrkit.renderer import NestedJsonRenderer
    from pybufrkit.errors import QueryError
    rng = ctx.rng
    nj = NestedJsonRenderer().render(m)
    nodes_all = json.loads(json.dumps(nj[-2][-1]['value'], default=lambda b: b.decode('latin-1')))
    try:
        sb = bytes(m.serialized_bytes)
        if len(sb) < 20000:
            # a query result is the result for the message: the same after other queries (other subsets, other paths), renderings,
            # explicit wiring in either order
            handover.on_message(ctx, sb, spec, site=origin, p=0.25)
    except Exception as e:
        ctx.notes.append('object history skipped: %r' % (e,))
    td = td_of(m)
    nsub = len(nodes_all)
    if nsub == 0:
        return []
    try:
        # what a bare ID returns does not depend on the scans and decodes under way on the decoder that delivered the message
        recent = ctx.__dict__.setdefault('_c16_recent', [])
        if origin in ('random', 'shape') and len(sb) < 3000 and sb[:4] == b'BUFR' and sb.count(b'BUFR') == 1 and sb[7] != 0 and \
                int.from_bytes(sb[4:7], 'big') == len(sb) and m.data_category.value != 11:
            recent.append((sb, None))
        if len(recent) >= 6:
            ctx.count('mid_scan_blocks')
            if ctx.counters['mid_scan_blocks'] % (4 if ctx.quick else 2) == 1:
                from pybufrkit.decoder import Decoder
                midscan.scenarios(ctx, 'bare-id', Decoder, recent[:3], recent[3:6], judge_bare_ids, dict(origin='mid-scan'))
            del recent[:]
    except NameError:
        pass
    mode = 'c' if m.is_compressed.value else 'u'
    allp = []
    for sub in nodes_all[:3]:
        for p in nested.derive_paths(sub, max_depth=6):
            if p not in allp:
                allp.append(p)
    if len(allp) > npaths:
        allp = rng.sample(allp, npaths)
    used = []
    MALFORMED = ['/001001[1:x]', '/001001[0:', '@[1', '/012001[1:2:3:4]', '@[2]', '/[', '001001[::', '/001001[7']
    for p in allp:
        for trial in range(3 if ctx.quick else 5):
            if rng.random() < 0.15:
                # the querent (and its parser) is long-lived: a rejected expression must leave no trace
                bad = rng.choice(MALFORMED)
                try:
                    q.query(m, bad)
                    ctx.count('malformed_query_accepted')
                except Exception:
                    ctx.count('malformed_queries_interleaved')
            comps = [(s, i, rng.choice(SL) if trial else None) for s, i in p]
            expr = expr_of(comps)
            sliced = any(c[2] is not None for c in comps)
            attr = any(c[0] == '.' for c in comps)
            k = rng.randrange(nsub)
            try:
                ref = ('ok', norm(nested.ref_query(nodes_all[k], comps)))
            except nested.Unspec:
                ref = ('unspec',)
            full = '@[%d]' % k + expr
            try:
                qr = q.query(m, full)
                obs = ('ok', norm(qr.all_values()[0]) if qr.subset_indices() else None, qr.subset_indices())
            except QueryError as ex:
                obs = ('qerr', str(ex)[:80])
            except Exception as ex:
                obs = ('exc', type(ex).__name__, str(ex)[:80])
            if ref[0] == 'unspec':
                ctx.count('unspecified_skipped')
                if obs[0] == 'exc':
                    ctx.violate('query-raises:%s/%s' % (obs[1], mode), 'query %r raised %s: %s' % (full, obs[1], obs[2]),
                                dict(spec, expr=full))
                continue
            used.append(expr)
            ctx.count('path_queries_compared')
            if sliced:
                ctx.count('sliced_queries')
            if attr:
                ctx.count('attribute_step_queries')
            if ref[1] and has_envelope(ref[1]):
                ctx.count('replication_envelope_results')
            ctx.evaluated((spec.get('hex', spec.get('file', ''))[:300], full), bool(ref[1]))
            if len(ctx.samples) < 4 and ref[1] and sliced and attr:
                ctx.sample(dict(origin=origin, expr=full, result=ref[1]))
            kind = ('attr' if attr else 'child') + ('/sliced' if sliced else '') + ('/depth%d' % min(len(comps), 4))
            if obs[0] != 'ok':
                ctx.violate('query-fails-where-path-is-defined:%s/%s/%s' % (obs[1] if obs[0] == 'exc' else 'QueryError', kind, mode),
                            'query %r raised %s, evaluation over the nested view gives %r' % (full, obs[1:], ref[1]),
                            dict(spec, expr=full), expected=ref[1])
            elif obs[2] != [k]:
                ctx.violate('subset-selector/int/%s' % mode, 'query %r returned subsets %r' % (full, obs[2]), dict(spec, expr=full))
            elif obs[1] != ref[1]:
                shape = 'nesting' if flat(obs[1]) == flat(ref[1]) else ('order' if sorted(map(repr, flat(obs[1]))) == sorted(map(repr, flat(ref[1]))) else 'values')
                ctx.violate('query-result-differs/%s/%s/%s' % (shape, kind, mode),
                            'query %r returned %r, evaluation over the nested view gives %r' % (full, obs[1], ref[1]),
                            dict(spec, expr=full), expected=ref[1], observed=obs[1])
            else:
                if rng.random() < 0.12:
                    # the same path written as a file or a shell would hand it over: a line end behind it, tabs / line ends between
                    # the steps, blanks in front
                    spaced = rng.choice(['%s\n', '%s\r\n', '\t%s', '  %s  ', '%s\t']) % full.replace('/', rng.choice(['\t/', '/\n', ' / ', '/'])).replace('.', rng.choice(['.', ' .\t']))
                    ctx.count('queries_with_other_white_space')
                    try:
                        qs = q.query(m, spaced)
                        obs2 = (norm(qs.all_values()[0]) if qs.subset_indices() else None, qs.subset_indices())
                    except Exception as ex:
                        obs2 = ('raises ' + type(ex).__name__,)
                    if obs2 != (obs[1], obs[2]):
                        ctx.violate('query-differs-with-other-white-space/%s' % mode, 'query %r returns %r, the same path written %r returns %r'
                                    % (full, (obs[1], obs[2]), spaced, obs2), dict(spec, expr=full, spaced=spaced))
                # a result belongs to the caller: results of queries on EARLIER messages, kept while this querent went on to answer
                # queries about other messages, still give the values they designated when they are read now
                held = ctx.__dict__.setdefault('_c16_held', [])
                late = [h for h in held if h[4] != id(m)]
                for hq, href, hk, hfull, hid, hm in late:
                    held.remove((hq, href, hk, hfull, hid, hm))
                    ctx.count('query_results_read_after_later_queries')
                    try:
                        now = (norm(hq.all_values()[0]) if hq.subset_indices() else None, hq.subset_indices())
                    except Exception as ex:
                        now = ('raises ' + type(ex).__name__,)
                    if now != (href, hk):
                        ctx.violate('query-result-read-late-differs/%s' % mode, 'the result of query %r on an earlier message, read after the same querent answered '
                                    'queries about another message, gives %r; it designated %r' % (hfull, now, (href, hk)), dict(spec, expr=hfull, later_expr=full),
                                    expected=href)
                        break
                if len(held) < 3 and ref[1] and rng.random() < 0.3:
                    held.append((qr, ref[1], [k], full, id(m), m))
    # ---- subset selectors on a few paths: queries over SEVERAL subsets at once, judged per subset against that
    # subset's own nested view (attribute steps first: which node owns a bitmap-driven attribute is per-subset data)
    attr_paths = [p for p in allp if any(sep == '.' for sep, _ in p)]
    rng.shuffle(attr_paths)
    sel_paths = attr_paths[:(8 if origin == 'shape' else 4)] + [p for p in allp if p not in attr_paths[:8]][:3]
    for p in sel_paths:
        comps = [(s, i, None) for s, i in p]
        expr = expr_of(comps)
        refs = []
        for k in range(nsub):
            try:
                refs.append(norm(nested.ref_query(nodes_all[k], comps)))
            except nested.Unspec:
                refs.append(None)     # the path is not defined in this subset: only selections avoiding it are judged
        if all(r is None for r in refs):
            continue
        for sel, fn in [(None, lambda n: list(range(n)))] + rng.sample(SELECTORS, 3) + [('@[1:]', lambda n: list(range(n))[1:]),
                                                                                     ('@[:-1]', lambda n: list(range(n))[:-1]),
                                                                                     ('@[::-1]', lambda n: list(range(n))[::-1]),
                                                                                     ('@[-1:0:-1]', lambda n: list(range(n))[-1:0:-1])]:
            want_idx = fn(nsub)
            if sel == '@[1]' and nsub < 2:
                continue
            if not want_idx or any(refs[i] is None for i in want_idx):
                ctx.count('selector_over_undefined_subset_skipped')
                continue
            full = (sel or '') + expr
            ctx.count('subset_selector_queries')
            ctx.evaluated((spec.get('hex', spec.get('file', ''))[:300], full), True)
            try:
                qr = q.query(m, full)
                got_idx = qr.subset_indices()
                got = [norm(qr.get_values(i)) for i in got_idx]
            except Exception as ex:
                ctx.violate('subset-selector/raises:%s/%s' % (type(ex).__name__, mode), 'query %r raised %s' % (full, type(ex).__name__),
                            dict(spec, expr=full), exc=ex)
                continue
            if sorted(got_idx) != sorted(want_idx) or got != [refs[i] for i in got_idx]:
                ctx.violate('subset-selector/%s/%s' % ('slice' if sel else 'none', mode),
                            'query %r returned subsets %r, expected %r with per-subset results of the path' % (full, got_idx, want_idx),
                            dict(spec, expr=full))
                continue
            # all_values() lists the per-subset results in the order of subset_indices(): the two are read side by side
            try:
                ctx.count('all_values_parallel_checks')
                av = [norm(v) for v in qr.all_values()]
                avf = [norm(v) for v in qr.all_values(flat=True)]
                if av != got or avf != [flat(g) for g in got]:
                    ctx.violate('subset-selector/all_values-not-parallel-to-subset_indices/%s' % mode,
                                'query %r: subset_indices() is %r, all_values()%s is not the list of those subsets\' values in that order'
                                % (full, list(got_idx), '' if av != got else '(flat=True)'), dict(spec, expr=full))
                    continue
            except Exception as ex:
                ctx.violate('subset-selector/raises:%s/%s' % (type(ex).__name__, mode), 'all_values() of %r raised %s' % (full, type(ex).__name__),
                            dict(spec, expr=full), exc=ex)
                continue
            # the renderings of the result (what the `query` command prints) attribute values to the same subsets
            try:
                from pybufrkit.renderer import FlatJsonRenderer, NestedJsonRenderer, FlatTextRenderer
                ctx.count('query_result_renderings')
                nj = NestedJsonRenderer().render(qr)
                fjr = FlatJsonRenderer().render(qr)
                ft = FlatTextRenderer().render(qr)
                bad = None
                if [int(k) for k in nj.keys()] != list(got_idx) or [norm(v) for v in nj.values()] != got:
                    bad = 'nested-json'
                elif [int(k) for k in fjr.keys()] != list(got_idx) or [norm(v) for v in fjr.values()] != [flat(g) for g in got]:
                    bad = 'flat-json'
                else:
                    heads = [ln for ln in ft.splitlines() if ln.startswith('######')]
                    if heads != ['###### subset %d of %d ######' % (i + 1, nsub) for i in got_idx]:
                        bad = 'flat-text'
                if bad:
                    ctx.violate('query-result-rendering/%s/subset-attribution' % bad,
                                'rendering (%s) of the result of %r attributes values to subsets other than %r' % (bad, full, list(got_idx)),
                                dict(spec, expr=full))
            except Exception as ex:
                ctx.violate('query-result-rendering/raises:%s' % type(ex).__name__, 'rendering the result of %r raised %s' % (full, type(ex).__name__),
                            dict(spec, expr=full), exc=ex)
    # ---- a query refused while walking the nodes (a child step below a plain element), then the same path again: the
    # long-lived querent answers like a new one
    try:
        from pybufrkit.dataquery import DataQuerent, NodePathParser
        plain = [str(d) for d in td.decoded_descriptors_all_subsets[0] if str(d)[0] == '0' and str(d)[:3] != '031'][:2]
        for e in plain:
            bad = '/%s/%s' % (e, e)

            def oc(qq, ex):
                try:
                    return ('values', repr(norm(qq.query(m, ex).all_values())))
                except Exception as exn:
                    return ('raises', type(exn).__name__)
            if used:
                oc(q, used[0])
            first = oc(q, bad)
            again = oc(q, '@[0]' + bad)
            fresh = oc(DataQuerent(NodePathParser()), '@[0]' + bad)
            ctx.count('refused_queries_repeated')
            ctx.evaluated((spec.get('hex', spec.get('file', ''))[:300], 'refused-twice', bad), True)
            if again != fresh:
                ctx.violate('refused-query-repeated-differs/%s' % mode, 'query %r was %r; asked again on the same querent it is %r, a new '
                            'querent says %r' % (bad, first, again, fresh), dict(spec, expr=bad))
    except Exception as ex:
        ctx.notes.append('refused-query step unavailable: %r' % (ex,))
    # ---- bare IDs
    attr_ids = set()
    for sub in nodes_all:
        attribute_ids(sub, attr_ids)
        valueless_ids(sub, attr_ids)   # an occurrence suppressed by 221YYY has no value: unspecified
    labels_all = [[str(d) for d in ds] for ds in td.decoded_descriptors_all_subsets]
    ids = []
    for lab in labels_all[0]:
        if lab[0] == '0' and lab[:3] != '031' and lab not in attr_ids and lab not in ids:
            ids.append(lab)
    for lab in (ids if len(ids) <= 12 else rng.sample(ids, 12)):
        ctx.count('bare_id_queries')
        ctx.evaluated((spec.get('hex', spec.get('file', ''))[:300], 'bare', lab), True)
        try:
            qr = q.query(m, lab)
        except Exception as ex:
            ctx.violate('bare-id/raises:%s/%s' % (type(ex).__name__, mode), 'bare ID query %r raised %s: %s' % (lab, type(ex).__name__, str(ex)[:80]),
                        dict(spec, expr=lab), exc=ex)
            continue
        used.append(lab)
        if qr.subset_indices() != list(range(nsub)):
            ctx.violate('bare-id/subsets/%s' % mode, 'bare ID query %r returned subsets %r' % (lab, qr.subset_indices()), dict(spec, expr=lab))
            continue
        for k in range(nsub):
            want = [norm(v) for l, v in zip(labels_all[k], td.decoded_values_all_subsets[k]) if l == lab]
            got = norm(qr.get_values(k, flat=True))
            if got != want:
                why = 'order' if sorted(map(repr, got)) == sorted(map(repr, want)) else 'values'
                ctx.violate('bare-id/%s/%s' % (why, mode), 'bare ID %r in subset %d returned %r, flat data has %r' % (lab, k, got[:8], want[:8]),
                            dict(spec, expr=lab), expected=want, observed=got)
                break
    return used


def cli_query(ctx, q, m, b, exprs, spec, tag, prefix=()):
    """the `query` command prints what the querent returns (text, flat JSON, nested JSON) - same values, same subsets"""
    from mon.cli import run_cli
    scratch = os.path.join(os.environ.get('VERIF_SCRATCH', '/verif/.scratch'), 'c16-%d' % ctx.shard)
    os.makedirs(scratch, exist_ok=True)
    path = os.path.join(scratch, 'q_%s.bufr' % tag)
    with open(path, 'wb') as f:
        f.write(b)
    try:
        for expr in exprs:
            try:
                qr = q.query(m, expr)
            except Exception:
                continue
            idx = list(qr.subset_indices())
            nestedv = [norm(qr.get_values(i)) for i in idx]
            flatv = [norm(qr.get_values(i, flat=True)) for i in idx]
            for flags, want in ((['-j', '-n'], nestedv), (['-j'], flatv), ([], flatv)):
                ctx.count('cli_query_runs')
                ctx.evaluated((spec.get('hex', spec.get('file', ''))[:300], 'cli', expr, tuple(flags)), True)
                so, se, exc, code = run_cli(list(prefix) + ['query'] + flags + [expr, path])
                name = (''.join(flags) or 'text') + ('/tables-root-option' if prefix else '')
                if exc is not None or se.strip():
                    ctx.violate('cli-query-fails/%s' % name, 'pybufrkit query %s %r failed: %r %s' % (flags, expr, exc, se[:120]),
                                dict(spec, expr=expr, cli=flags))
                    continue
                try:
                    if flags:
                        got = json.loads(so)
                        ok = [int(k) for k in got.keys()] == idx and [norm(v) for v in got.values()] == json.loads(json.dumps(want))
                    else:
                        lines = so.splitlines()
                        heads = [ln for ln in lines if ln.startswith('######')]
                        vals = [ln for ln in lines[1:] if not ln.startswith('######')]
                        ok = (lines[:1] == [path] and heads == ['###### subset %d of %d ######' % (i + 1, qr.n_subsets) for i in idx]
                              and len(vals) == len(idx)
                              and all(v == ','.join(repr(x) for x in qr.get_values(i, flat=True)) for v, i in zip(vals, idx)))
                except Exception as ex:
                    ok = False
                if ok and flags == ['-j']:
                    so2, se2, exc2, code2 = run_cli(list(prefix) + ['query'] + flags + [expr, path, path])
                    ctx.count('cli_query_two_file_runs')
                    if exc2 is not None or so2 != so + so:
                        ctx.violate('cli-query-several-files', 'pybufrkit query over two copies of a file does not print the single-file output twice',
                                    dict(spec, expr=expr, cli=flags), observed=so2[:400])
                if not ok:
                    ctx.violate('cli-query-output-differs/%s' % name,
                                'pybufrkit query %s %r prints other values/subsets than the querent returns (%r)' % (flags, expr, want),
                                dict(spec, expr=expr, cli=flags), observed=so[:400])
    finally:
        try:
            os.remove(path)
        except OSError:
            pass


def invariance(ctx, q, dec, decc, enc, msg, m, used, spec):
    """same data compressed/uncompressed, compiled/not: same query results"""
    from pybufrkit.renderer import FlatJsonRenderer
    from pybufrkit.utils import EntityEncoder
    variants = []
    from mon.gen.templates import scoped
    if scoped(msg.ids, cases.tables((msg.meta or {}).get('master_table_version', 33))[1]):
        # C08's proviso: compilation is only claimed to preserve behaviour for templates whose operators
        # are opened and closed within one replication scope
        try:
            variants.append(('compiled', decc.process(msg.bytes)))
        except Exception as e:
            ctx.count('compiled_decode_raises')
    else:
        ctx.count('unscoped_template_not_compared_compiled')
    try:
        tdm = td_of(m)
        if not m.is_compressed.value and (
                any([str(d) for d in ds] != [str(d) for d in tdm.decoded_descriptors_all_subsets[0]] for ds in tdm.decoded_descriptors_all_subsets)
                or any(dict(lk) != dict(tdm.bitmap_links_all_subsets[0]) for lk in tdm.bitmap_links_all_subsets)):
            # subsets that differ in layout or in what their bitmaps designate cannot be stored compressed at all
            ctx.count('recompression_not_possible')
            raise LookupError
        fj = json.loads(json.dumps(FlatJsonRenderer().render(m), cls=EntityEncoder))
        s3 = fj[-3]
        flag_idx = 4  # [length, reserved, n_subsets, is_observation, is_compressed, flag_bits, descriptors]
        s3[flag_idx] = not s3[flag_idx]
        m2 = dec.process(enc.process(json.dumps(fj)).serialized_bytes)
        if norm(td_of(m2).decoded_values_all_subsets) == norm(td_of(m).decoded_values_all_subsets):
            variants.append(('other-compression', m2))
        else:
            ctx.count('recompression_changes_values_skipped')
    except LookupError:
        pass
    except Exception:
        ctx.count('recompression_not_possible')
    for expr in used[:25]:
        try:
            base = norm(q.query(m, expr).all_values())
        except Exception:
            continue
        for name, mv in variants:
            ctx.count('invariance_checks')
            ctx.evaluated((spec.get('hex', '')[:300], 'inv', name, expr), True)
            try:
                got = norm(q.query(mv, expr).all_values())
            except Exception as ex:
                ctx.violate('invariance/%s/raises:%s' % (name, type(ex).__name__), 'query %r raises on the %s decode only' % (expr, name),
                            dict(spec, expr=expr), exc=ex)
                continue
            if got != base:
                ctx.violate('invariance/%s/differs' % name, 'query %r gives %r on the %s decode, %r otherwise' % (expr, got, name, base),
                            dict(spec, expr=expr))


def run(ctx):
    from pybufrkit.decoder import Decoder
    from pybufrkit.encoder import Encoder
    from pybufrkit.dataquery import NodePathParser, DataQuerent
    dec, decc, enc = Decoder(), Decoder(compiled_template_cache_max=8), Encoder()
    q = DataQuerent(NodePathParser())
    rng = ctx.rng
    B, D = cases.tables(33)
    n = 0
    shapes = [s for s in SHAPES if s[0] in ('nested-delayed', 'nested-fixed', 'zero-count', 'sequence', '204', '204-replicated',
                                            'qa-222', 'first-order-224', 'reuse-237', 'bitmap-over-replication')] + ASSOC_SHAPES[:4] + CHAIN_SHAPES[-4:]
    shapes = shapes + [
        ('same-id-two-depths', [103000, 31001, 1001, 101002, 1001, 12001]),
        ('same-id-two-depths-fixed', [102002, 12001, 102002, 12001, 4024]),
        ('same-id-three-depths', [1001, 103002, 1001, 101000, 31001, 1001, 2001]),
    ]
    for name, ids in shapes:
        for comp in (False, True):
            n += 1
            if not ctx.mine(n):
                continue
            try:
                msg = R.build_message(ids, B, D, EdgePolicy(rng, phase=n), 3, comp, 4)
            except R.Unsupported:
                continue
            try:
                failures.maybe(ctx, [dec], [enc], every=6)
                m = dec.process(msg.bytes)
            except Exception:
                ctx.count('decode_raises')
                continue
            spec = dict(origin='shape', shape=name, ids=ids, compressed=comp, hex=msg.bytes.hex())
            used = query_message(ctx, q, m, spec, 'shape', 40)
            invariance(ctx, q, dec, decc, enc, msg, m, used, spec)
            if n % 3 == 0 and used:
                cli_query(ctx, q, m, msg.bytes, ['@[1:]' + used[0], used[-1], '@[-1]' + used[len(used) // 2]], spec, 's%d' % n)
    if ctx.shard % 4 == 2:
        from mon.cli import alt_tables_root, alt_message
        scr = os.path.join(os.environ.get('VERIF_SCRATCH', '/verif/.scratch'), 'c16-%d' % ctx.shard)
        os.makedirs(scr, exist_ok=True)
        root = alt_tables_root(scr)
        am = alt_message(rng, root, nsub=3)
        try:
            mm = Decoder(tables_root_dir=root).process(am.bytes)
            ctx.count('cli_query_with_tables_root_option')
            cli_query(ctx, q, mm, am.bytes, ['/012101', '@[1:]/102002/012101', '012101'], dict(origin='alt-tables', hex=am.bytes.hex()),
                      'alt', prefix=['-t', root])
        except Exception as e:
            ctx.notes.append('alt tables query unavailable: %r' % (e,))
    for bi, (name, msg) in enumerate(cases.big_cases(rng)):
        if not ctx.mine(bi):
            continue
        try:
            failures.maybe(ctx, [dec], [enc], every=6)
            m = dec.process(msg.bytes)
        except Exception:
            ctx.count('decode_raises')
            continue
        ctx.count('big_cases')
        query_message(ctx, q, m, dict(origin='big', shape=name, ids=msg.ids, compressed=msg.compressed, nsub=msg.nsub), 'big', 20)
    for nsub in (2, 3, 4, 5, 3, 4):
        for name, msg in cases.same_layout_cases(rng, nsub=nsub):
            n += 1
            if not ctx.mine(n):
                continue
            try:
                failures.maybe(ctx, [dec], [enc], every=6)
                m = dec.process(msg.bytes)
            except Exception:
                ctx.count('decode_raises')
                continue
            ctx.count('same_layout_different_bitmap_messages')
            spec = dict(origin='shape', shape=name, ids=msg.ids, compressed=False, nsub=nsub, hex=msg.bytes.hex())
            used = query_message(ctx, q, m, spec, 'shape', 40)
            invariance(ctx, q, dec, decc, enc, msg, m, used, spec)
    repo = os.environ.get('VERIF_REPO', '/repo')
    files = sorted(glob.glob(os.path.join(repo, 'tests', 'data', '*.bufr')) +
                   ([] if ctx.quick else glob.glob(os.path.join(repo, 'tests', 'benchmark_data', '*.bufr'))))
    for i, f in enumerate(files):
        if not ctx.mine(i) or os.path.basename(f) in ('multi_invalid_messages.bufr', 'prepbufr.bufr'):
            continue
        try:
            m = dec.process(open(f, 'rb').read())
        except Exception:
            continue
        ctx.count('corpus_messages')
        query_message(ctx, q, m, dict(origin='corpus', file=os.path.basename(f)), 'corpus', 30 if ctx.quick else 80)
    qn = 0
    while qn < QUOTA[ctx.tier] and ctx.more():
        qn += 1
        mtv = rng.choice(cases.MTVS)
        g = cases.gen_for(mtv, rng, pclose=0.85)
        ids = g.template(ptail=0.5)
        comp = rng.random() < 0.5
        Bv, Dv = cases.tables(mtv)
        try:
            msg = R.build_message(ids, Bv, Dv, R.Policy(rng), rng.choice([1, 2, 3, 4]), comp, rng.choice([2, 3, 4]),
                                  dict(master_table_version=mtv))
        except R.Unsupported:
            ctx.count('gen_unsupported')
            continue
        if any(me and me[0] == 'n' and me[2] > 0 and me[1] > 48 for s in msg.subsets for me in s.meta):
            continue
        try:
            failures.maybe(ctx, [dec], [enc], every=6)
            m = dec.process(msg.bytes)
        except Exception:
            ctx.count('decode_raises')
            continue
        spec = dict(origin='random', ids=ids, compressed=comp, nsub=msg.nsub, mtv=mtv, hex=msg.bytes.hex())
        used = query_message(ctx, q, m, spec, 'random', 40 if ctx.quick else 60)
        if qn % 2 == 0:
            invariance(ctx, q, dec, decc, enc, msg, m, used, spec)


def replay(ctx, case):
    from pybufrkit.decoder import Decoder
    from pybufrkit.dataquery import NodePathParser, DataQuerent
    from pybufrkit.renderer import NestedJsonRenderer
    spec = case['case']
    if 'hex' in spec:
        b = bytes.fromhex(spec['hex'])
    else:
        repo = os.environ.get('VERIF_REPO', '/repo')
        p = os.path.join(repo, 'tests', 'data', spec['file'])
        if not os.path.exists(p):
            p = os.path.join(repo, 'tests', 'benchmark_data', spec['file'])
        b = open(p, 'rb').read()
    m = Decoder().process(b)
    q = DataQuerent(NodePathParser())
    ctx.evaluated(spec.get('expr', ''), True)
    try:
        qr = q.query(m, spec['expr'])
        got = norm(qr.all_values())
    except Exception as e:
        got = 'raises %r' % (e,)
    print('replay: %r -> %r (expected %r)' % (spec['expr'], got, case.get('expected')))
    if case.get('expected') is not None and got != [case['expected']] and got != case['expected']:
        ctx.violate(case['sig'], 'replay: query %r still returns %r' % (spec['expr'], got), spec)
