"""C01 - decoding yields exactly the values FM-94 assigns to the bit stream.

Oracle: R produces the bytes and the expected (label, exact value, link) lists; the real Decoder
reads those bytes; position-by-position comparison (DESIGN 2.2).  Plus the sample corpus, which
R consumes independently.
"""
import glob
import os

from mon import refbufr as R
from mon.compare import diff_message, opsig, jsonable
from mon.gen import cases
from mon import handover, midscan, forms

ID = 'C01'
LEVEL = 'exploration'
TECHNIQUE = 'runtime monitoring: differential oracle against an independent FM-94 reference decoder/producer'
RULE = ('messages produced by the independent reference model R (random + mandatory edge-shaped '
        'templates over bundled tables, editions 2-4, 1-5 subsets, compressed with widened '
        'difference widths) and every sample file; a case is non-trivial when the real decoder '
        'returned, >=3 fields were compared and the template has an operator, replication, '
        'compression or a missing value; distinct by SHA-1 of the message bytes')
RULE += '; added with rounds 10-12: a long-lived compiling decoder (scoped templates) with near-identical descriptor lists; messages decoded while scans are suspended on the same decoder (mid-scan scenarios: alternate / nested-process / nested-scan / abandoned / late); bytearray input; twins (differently configured instances given the same input first)'
ASSUMPTIONS = ['R (mon/refbufr) is a correct reading of FM-94 for the shapes of DESIGN appendix A',
               'grey shapes of DESIGN 2.3 are excluded (R answers Unsupported)',
               'floats compared within 4 ulp of the exact rational']
BUDGET = {'quick': 45, 'thorough': 600}
QUOTA = {'quick': 1100, 'thorough': 12000}   # random cases per shard
REQUIRED = {'quick': {'evaluations': 2000, 'shape_cases_compared': 130, 'corpus_compared': 6, 'compressed_compared': 300,
                      'r_self_ok': 1000},
            'thorough': {'evaluations': 40000, 'shape_cases_compared': 130, 'corpus_compared': 62,
                      'compressed_compared': 5000, 'r_self_ok': 20000}}


def anchors():
    from pybufrkit.coder import Coder
    from pybufrkit.decoder import Decoder
    return [Coder.process_operator_descriptor, Coder.process_element_descriptor,
            Coder.process_bitmap_definition, Decoder.process_numeric_compressed,
            Decoder.process_codeflag_compressed, Decoder.process_string_compressed,
            Decoder.process_new_refval_compressed]


def classify(msg, d, decoder):
    """mechanism signature of a divergence (never random values)."""
    k, why = d[0], d[1]
    mode = 'c' if msg.compressed else 'u'
    if not msg.compressed and msg.nsub > 1:
        # does every subset decode correctly when it stands alone?  -> inter-subset state leak
        alone_ok = True
        for j in range(msg.nsub):
            one = R.select_subsets(msg, [j])
            try:
                m1 = decoder.process(one.bytes)
                if diff_message(m1, one.subsets):
                    alone_ok = False
            except Exception:
                alone_ok = False
        if alone_ok:
            return 'decode/u/inter-subset-state-leak'
    if msg.noncanon:
        return 'decode/%s/%s/noncanonical-code-table-unit-under-201-202-207' % (mode, why)
    fk = ''
    if why == 'values' and k is not None:
        meta = msg.subsets[k].meta[d[2]]
        lab = msg.subsets[k].labels[d[2]]
        fk = '/%s%s/w%s' % (meta[0] if meta else '?', lab[0] if not lab[0].isdigit() else '',
                             'eq1' if meta and meta[1] == 1 else 'gt1')
    return 'decode/%s/%s%s/ops[%s]' % (mode, why, fk, opsig(msg.ids))


def compare_case(ctx, decoder, msg, origin, name=None):
    if not cases.self_consistent(msg):
        ctx.count('r_self_fail')
        ctx.add('r_self_fail_ids', str(msg.ids))
        return
    ctx.count('r_self_ok')
    spec = dict(origin=origin, shape=name, ids=msg.ids, nsub=msg.nsub, compressed=msg.compressed,
                edition=msg.edition, mtv=(msg.meta or {}).get('master_table_version', 33),
                hex=msg.bytes.hex())
    try:
        m = decoder.process(msg.bytes)
    except Exception as e:
        d = (None, 'exception:' + type(e).__name__, None, str(e)[:200], None)
        sig = classify(msg, d, decoder)
        ctx.violate(sig, 'decoder raised %s on a well-formed message: %s' % (type(e).__name__, str(e)[:150]),
                    spec, exc=e)
        ctx.evaluated(spec['hex'][:64] + str(len(msg.bytes)), False)
        return
    d = diff_message(m, msg.subsets)
    nfields = sum(len(s.values) for s in msg.subsets)
    nontrivial = nfields >= 3 and (bool(msg.ops) or msg.compressed or any(i // 100000 == 1 for i in msg.ids)
                                   or any(v is None for s in msg.subsets for v in s.values))
    ctx.evaluated(msg.bytes.hex(), nontrivial, sample=dict(origin=origin, shape=name, ids=msg.ids,
                                                           nsub=msg.nsub, compressed=msg.compressed,
                                                           edition=msg.edition, nfields=nfields))
    ctx.count('fields_compared', nfields)
    if msg.compressed:
        ctx.count('compressed_compared')
    for op in msg.ops:
        ctx.add('operators', op)
    for f in msg.feat:
        if f.startswith('c-') or f.startswith('cs-') or f == 'newref':
            ctx.add('features', f)
        elif f.startswith('w'):
            ctx.add('widths', int(f[1:]))
    ctx.add('editions', msg.edition)
    if d:
        k, why, j, obs, exp = d
        sig = classify(msg, d, decoder)
        ctx.violate(sig, 'decoded %s differ from FM-94 reading at subset %s field %s: observed %r expected %r'
                    % (why, k, j, jsonable(obs), jsonable(exp)), spec, expected=exp, observed=obs)
        return
    if ctx.counters['evaluations'] % 7 == 0:
        forms.decoder_forms(ctx, msg.bytes, 'decode', spec, lambda mm: repr((mm.template_data.value.decoded_values_all_subsets,
                                                                              [[str(x) for x in ds] for ds in mm.template_data.value.decoded_descriptors_all_subsets],
                                                                              bytes(mm.serialized_bytes))))
    # the values a decode returned stay what they are when the message object (and objects derived from it) is used further
    handover.on_message(ctx, msg.bytes, spec, site=origin)
    # ... and the same values come out when the message is decoded while scans are under way on the same decoder
    recent = ctx.__dict__.setdefault('_c01_recent', [])
    if len(msg.bytes) < 3000:
        recent.append((msg.bytes, msg))
    if len(recent) >= 6:
        ctx.count('mid_scan_blocks')
        if ctx.counters['mid_scan_blocks'] % (12 if ctx.quick else 6) == 1:
            from pybufrkit.decoder import Decoder
            midscan.scenarios(ctx, 'decode', Decoder, recent[:3], recent[3:6], judge_values, dict(origin='mid-scan', ids_a=[m.ids for _, m in recent[:3]]))
        del recent[:]


# descriptor lists that differ only inside a nested replication / behind a sequence / in the last member of a replication
NEAR_LISTS = [([103002, 4004, 101002, 7002], [103002, 4004, 101002, 12101]),
              ([1001, 102002, 301011, 101003, 12001], [1001, 102002, 301011, 101003, 10004]),
              ([104000, 31001, 2001, 102002, 4024, 12001], [104000, 31001, 2001, 102002, 4024, 13003]),
              ([101002, 301011, 12001], [101002, 301012, 12001]),
              ([1001, 103000, 31001, 101002, 4024, 12001, 2001], [1001, 103000, 31001, 101002, 4025, 12001, 2001])]


def judge_values(kind, m, msg, opts):
    """oracle of C01 for a message delivered in the middle of other work: R's labels and values (full decodes)"""
    if kind != 'full':
        return None
    d = diff_message(m, msg.subsets)
    if d:
        return ('decoded-%s-differ' % str(d[1]).split(':')[0], 'decoded %s differ from FM-94 reading at subset %s field %s: observed %r expected %r' % (d[1], d[0], d[2], jsonable(d[3]), jsonable(d[4])))
    return None


def corpus_files():
    repo = os.environ.get('VERIF_REPO', '/repo')
    return sorted(glob.glob(os.path.join(repo, 'tests', 'data', '*.bufr')) +
                  glob.glob(os.path.join(repo, 'tests', 'benchmark_data', '*.bufr')))


def run_corpus(ctx, decoder, files):
    for n, f in enumerate(files):
        if not ctx.mine(n):
            continue
        with open(f, 'rb') as fh:
            b = fh.read()
        name = os.path.basename(f)
        if name in ('multi_invalid_messages.bufr', 'prepbufr.bufr'):
            continue  # multi-message / table-definition streams: C11, C12, C20
        try:
            r = R.decode(b)
        except R.Unsupported as e:
            ctx.count('corpus_r_unsupported')
            continue
        except Exception as e:
            ctx.count('corpus_r_error')
            ctx.add('corpus_r_error', '%s:%s' % (name, type(e).__name__))
            continue
        try:
            m = decoder.process(b)
        except Exception as e:
            ctx.violate('decode/corpus/exception:' + type(e).__name__,
                        'decoder raised on sample file %s: %s' % (name, str(e)[:150]), dict(file=name), exc=e)
            continue
        d = diff_message(m, r['subsets'])
        ctx.count('corpus_compared')
        ctx.evaluated('corpus:' + name, True)
        if d:
            ctx.violate('decode/corpus/%s/%s' % (d[1], name),
                        'sample file %s: decoded %s differ from R at subset %s field %s: %r vs %r'
                        % (name, d[1], d[0], d[2], jsonable(d[3]), jsonable(d[4])), dict(file=name))


_FAILING = {}


def provoke_failure(ctx, decoder, msg):
    """the decoder is long-lived: a message it refused must leave no trace in how it decodes the next one.  Refused here:
    an UNCOMPRESSED and a COMPRESSED message cut short inside the data section (the failure happens in the middle of the
    template walk), and copies of the current message with a damaged stop signature / cut short"""
    if not _FAILING:
        B, D = cases.tables(33)
        for comp in (False, True):
            m = R.build_message([1001, 12001, 101000, 31001, 4024, 1015], B, D, R.Policy(ctx.rng), 3, comp, 4)
            fr = R.parse_frame(m.bytes)
            _FAILING[comp] = m.bytes[:fr.sections[4][0] + 6]
    b = msg.bytes
    for bad in (_FAILING[False], _FAILING[True], b[:max(20, len(b) - 7)], b[:-4] + b'7767', _FAILING[not msg.compressed]):
        try:
            decoder.process(bad)
            ctx.count('damaged_copy_decoded')
        except Exception:
            ctx.count('failures_provoked')


def run(ctx):
    from pybufrkit.decoder import Decoder
    decoder = Decoder()
    from mon.gen.templates import scoped as _scoped
    decc0 = Decoder(compiled_template_cache_max=3)
    D33s = cases.tables(33)[1]
    for name, msg in cases.shape_cases(ctx):
        if ctx.counters.get('shape_cases_compared', 0) % 4 == 1:
            provoke_failure(ctx, decoder, msg)
        compare_case(ctx, decoder, msg, 'shape', name)
        if _scoped(msg.ids, D33s):
            # (the mandatory shapes - operators, markers, bitmaps - through a decoder with template compilation on as well)
            ctx.count('compiling_decoder_cases')
            compare_case(ctx, decc0, msg, 'compiling-decoder', name)
        ctx.count('shape_cases_compared')
        ctx.add('shapes', name)
    # several marker operators in one subset whose operator context differs from marker to marker (C08's shapes), through the
    # compiling decoder and the plain one: FM-94 values for every marker
    try:
        from mon.checks.c08 import EXTRA_SHAPES, AssignPolicy
        B33m, D33m = cases.tables(33)
        for si, (name, ids) in enumerate(EXTRA_SHAPES):
            if not name.startswith('marker') or not ctx.mine(si) or not _scoped(ids, D33m):
                continue
            for comp in (False, True):
                try:
                    msg = R.build_message(ids, B33m, D33m, AssignPolicy(ctx.rng, [2], [0], phase=si), 2, comp, 4)
                except R.Unsupported:
                    continue
                ctx.count('compiling_decoder_cases')
                compare_case(ctx, decc0, msg, 'compiling-decoder', name)
                compare_case(ctx, decoder, msg, 'shape', name)
    except ImportError:
        pass
    for bi, (name, msg) in enumerate(cases.big_cases(ctx.rng)):
        if ctx.mine(bi):
            compare_case(ctx, decoder, msg, 'big', name)
            ctx.count('big_cases')
            ctx.add('shapes', name)
    # compressed character columns stored with increments narrower than the field (a foreign but legal layout): the values are
    # the stored octets, and they stay that after the object was rendered, subset and re-encoded (object histories)
    B33, D33 = cases.tables(33)
    for k, ids in enumerate(([1001, 1015, 12001], [1008, 1001, 1011, 1015], [208005, 1015, 208000, 1008, 205006, 1001])):
        try:
            msg = R.build_message(ids, B33, D33, R.Policy(ctx.rng, narrow_strings=1.0), 2 + (k + ctx.shard) % 3, True, 4 - (ctx.shard + k) % 3)
        except R.Unsupported:
            continue
        if msg.feat.get('cs-narrow'):
            ctx.count('narrow_character_increment_cases')
        compare_case(ctx, decoder, msg, 'narrow-strings', 'narrow-character-increments')
    # a decoder with template compilation on is a decoder: for templates within the scope the option is documented for (operators
    # opened and closed inside one replication scope) it returns the FM-94 values too - also for consecutive messages whose
    # descriptor lists differ only deep inside (nested replications, sequences): one long-lived compiling decoder, both orders
    from mon.gen.templates import scoped
    decc = Decoder(compiled_template_cache_max=4)
    for pi, (ia, ib) in enumerate(NEAR_LISTS):
        if not ctx.mine(pi):
            continue
        try:
            pair = [R.build_message(ids, B33, D33, R.Policy(ctx.rng), 2, bool(pi % 2), 4) for ids in (ia, ib)]
        except R.Unsupported:
            continue
        for msg in (pair[0], pair[1], pair[0], pair[1]):
            if scoped(msg.ids, D33):
                ctx.count('compiling_decoder_cases')
                compare_case(ctx, decc, msg, 'compiling-decoder', 'near-identical-descriptor-lists')
    files = corpus_files()
    if ctx.quick:
        files = [f for f in files if os.sep + 'data' + os.sep in f]
    run_corpus(ctx, decoder, files)
    n = 0
    while n < QUOTA[ctx.tier] and ctx.more():
        n += 1
        c = cases.random_case(ctx, narrow_strings=0.4)
        if c is None:
            continue
        if n % 5 == 0:
            provoke_failure(ctx, decoder, c[0])
        compare_case(ctx, decoder, c[0], 'random')
        if n % 4 == 0 and scoped(c[0].ids, cases.tables(c[1])[1]):
            ctx.count('compiling_decoder_cases')
            compare_case(ctx, decc, c[0], 'compiling-decoder')


def replay(ctx, case):
    from pybufrkit.decoder import Decoder
    spec = case['case']
    b = bytes.fromhex(spec['hex']) if 'hex' in spec else open(
        os.path.join(os.environ.get('VERIF_REPO', '/repo'), 'tests', 'data', spec['file']), 'rb').read()
    r = R.decode(b)
    try:
        m = Decoder().process(b)
    except Exception as e:
        ctx.violate(case['sig'], 'replay: decoder raised %r' % (e,), spec, exc=e)
        return
    d = diff_message(m, r['subsets'])
    ctx.evaluated(b.hex(), True)
    if d:
        ctx.violate(case['sig'], 'replay: %r' % (jsonable(d),), spec)
