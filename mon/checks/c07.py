"""C07 - bitmap-driven and associated attributes are linked to the element they qualify.

Oracle: R computes link[attribute index] = owner index from the FM-94 rule (k-th value <-> k-th
zero bit, bits matched to the N element descriptors preceding the operator; 236000/237000/237255/
235000 honoured) while producing the bytes.  The real decoder reads the bytes; its
bitmap_links_all_subsets must equal R's map, and the nested JSON view - read with an independent
flattener - must show every linked value as a `virtual` attribute of exactly its owner, first-order
/ difference statistics with their 008023/008024 meaning, associated fields as (non-virtual)
attributes of the element that follows them with their 031021 meaning.  Difference statistics are
valued by R with width+1 and reference -2^width.
"""
import collections
import itertools
import json

from mon import refbufr as R
from mon import handover, midscan
from mon import nested
from mon.compare import diff_message, opsig, jsonable, td_of
from mon.gen import cases
from mon.gen import failures
from mon.gen.shapes import SHAPES, EdgePolicy

ID = 'C07'
LEVEL = 'exploration'
TECHNIQUE = ('runtime monitoring: reference link map (FM-94 bitmap rule) vs bitmap_links and an independent '
             'reader of the nested view')
RULE = ('R-produced messages: (a) every 0/1 pattern of every bitmap length 1..8 (quick 1..7) for each of '
        '222/223/224/225/232 over bases with sequences, nested fixed and delayed replication; (b) chains of '
        'operators sharing/redefining bitmaps (236000/237000/237255/235000); (c) associated fields (204) on '
        'plain, replicated and string elements; (d) explicit 031031 lists; (e) random templates with bitmap '
        'tails; compressed and uncompressed, 1-4 subsets.  Non-trivial = at least one attribute link or '
        'associated field compared; distinct by SHA-1 of the message bytes')
RULE += '; added with rounds 10-12: links re-read after later decodes / in the middle of scans (mid-scan scenarios incl. late reads); bitmap bits given as null / true-false / floats; twins'
ASSUMPTIONS = ['R (mon/refbufr) reads the bitmap rule as stated in the property (DESIGN appendix A)',
               'bits are matched to plain Table B element fields (incl. class 31) preceding the first bitmap operator '
               'since the start of the subset or the last 235000',
               'marker operators while 204 is in force, nested 204 and 225255 on non-numeric owners are grey '
               '(DESIGN 2.3) and not generated',
               'attribute order under one owner is not judged (multiset comparison)']
BUDGET = {'quick': 45, 'thorough': 600}
QUOTA = {'quick': 250, 'thorough': 5000}
REQUIRED = {'quick': {'evaluations': 1500, 'links_compared': 5000, 'patterns_exhaustive_cases': 500,
                      'assoc_fields_compared': 200, 'nested_views_checked': 1500, 'chain_cases': 48,
                      'explicit_list_cases': 20, 'encodes_checked': 800, 'encodes_with_per_subset_bitmaps': 100},
            'thorough': {'evaluations': 20000, 'links_compared': 80000, 'patterns_exhaustive_cases': 6100,
                      'assoc_fields_compared': 3000, 'nested_views_checked': 20000, 'chain_cases': 580,
                      'explicit_list_cases': 99}}


EXHAUSTIVE = {'quick': False, 'thorough': False}
EXHAUSTIVE_NOTE = {'quick': 'all 0/1 patterns of bitmap lengths 1..7 x 5 operators (sub-space only)',
                   'thorough': 'all 0/1 patterns of bitmap lengths 1..8 x 5 operators x 3 bases x compressed/uncompressed (sub-space only)'}

# bases with >= 8 plain element fields before the operator; numeric-only ones are usable with 225
BASES = [
    ('plain-numeric', [1001, 12001, 4024, 5001, 10004, 7004, 13011, 6001], True),
    ('seq+fixed-nested', [301011, 102002, 1001, 12001, 4024, 10004], True),
    ('mixed-kinds', [1001, 2001, 1015, 12001, 20011, 4024, 8023, 5001], False),
    ('delayed-owner-factor', [12001, 101000, 31001, 4024, 103002, 1001, 12001, 4024], True),
]

ASSOC_SHAPES = [
    ('assoc-plain', [204003, 31021, 12001, 2001, 1015, 204000, 12001]),
    ('assoc-replicated', [204002, 31021, 102002, 12001, 4024, 204000]),
    ('assoc-delayed', [204005, 31021, 101000, 31001, 12001, 1001, 204000, 4024]),
    ('assoc-1bit', [204001, 31021, 12001, 2001, 204000]),
    ('assoc-sequence', [204004, 31021, 301011, 301021, 204000]),
    ('assoc-under-201', [204006, 31021, 201130, 12001, 201000, 4024, 204000]),
    ('assoc-then-bitmap', [204002, 31021, 12001, 4024, 204000, 1001, 222000, 101000, 31001, 31031,
                           101000, 31001, 33007]),
    ('assoc-redefined-meaning', [204002, 31021, 12001, 31021, 4024, 204000]),
]

CHAIN_SHAPES = [n for n in SHAPES if n[0] in ('qa-222', 'subst-223', 'first-order-224', 'difference-225',
                                              'replaced-232', 'reuse-237', 'cancel-235',
                                              'bitmap-over-replication', 'marker-under-201')] + [
    ('chain-5', [12001, 4024, 5001, 10004, 222000, 236000, 101000, 31001, 31031, 101000, 31001, 33007,
                 223000, 237000, 101000, 31001, 223255, 224000, 237000, 8023, 101000, 31001, 224255,
                 225000, 237000, 8024, 101000, 31001, 225255, 232000, 237000, 101000, 31001, 232255]),
    ('redefine', [12001, 4024, 5001, 223000, 101000, 31001, 31031, 101000, 31001, 223255,
                  224000, 101000, 31001, 31031, 8023, 101000, 31001, 224255]),
    ('cancel-237255-then-new', [12001, 4024, 5001, 222000, 236000, 101000, 31001, 31031, 101000, 31001, 33007,
                                237255, 232000, 101000, 31001, 31031, 101000, 31001, 232255]),
    ('235-then-new-backrefs', [1001, 12001, 223000, 101000, 31001, 31031, 101000, 31001, 223255, 235000,
                               4024, 5001, 10004, 232000, 101000, 31001, 31031, 101000, 31001, 232255]),
    ('qa-two-classes33', [12001, 4024, 222000, 101000, 31001, 31031, 1031, 1032, 101000, 31001, 33007,
                          101000, 31001, 33003]),
    ('marker-under-202-207', [12001, 4024, 223000, 101002, 31031, 202129, 223255, 202000, 207001, 223255, 207000]),
    ('owner-in-delayed-replication', [103000, 31001, 1001, 12001, 4024, 224000, 101000, 31001, 31031, 8023,
                                      101000, 31001, 224255]),
]


def anchors():
    from pybufrkit.coder import Coder, CoderState
    from pybufrkit.templatedata import TemplateData
    return [Coder.process_bitmap_definition, CoderState.build_bitmapped_descriptors,
            Coder.process_bitmapped_descriptor, CoderState.add_bitmap_link,
            TemplateData.wire_element_descriptor, TemplateData.wire_operator_descriptor,
            TemplateData.wire_bitmap_attribute]


class PatternPolicy(EdgePolicy):
    """bitmap of exactly N bits following `pattern` (cyclic when several bitmaps are defined)."""

    def __init__(self, rng, n, pattern, phase=0):
        EdgePolicy.__init__(self, rng, phase=phase)
        self.n, self.pattern, self.j = n, pattern, 0

    def bitmap_length(self, pw, w, P):
        return min(self.n, P, (1 << w) - 2)

    def bitmap_bit(self, pw):
        b = self.pattern[self.j % len(self.pattern)]
        self.j += 1
        return b

    def count(self, pw, w, eid):
        self.k += 1
        return [2, 1, 3][self.k % 3]


def op_template(base, op, explicit=None, keep=False):
    t = list(base) + [op * 1000]
    if keep:
        t.append(236000)
    if explicit is None:
        t += [101000, 31001, 31031]
    else:
        t += [31031] * explicit
    if op == 222:
        t += [101000, 31001, 33007]
    else:
        if op == 224:
            t.append(8023)
        if op == 225:
            t.append(8024)
        t += [101000, 31001, op * 1000 + 255]
    return t


def norm(v):
    if isinstance(v, bytes):
        return v.decode('latin-1')
    if isinstance(v, (list, tuple)):
        return [norm(x) for x in v]
    return v


def meaning_index(labels, a):
    """flat index of the node that gives the meaning of attribute field a, or None (unspecified)."""
    lab = labels[a]
    if lab[0] == 'A':
        for j in range(a - 1, -1, -1):
            if labels[j] == '031021':
                return j
        return None
    want, opener = {'F': ('008023', '224000'), 'D': ('008024', '225000')}.get(lab[0], (None, None))
    if want is None:
        return None
    z = None
    for j in range(a - 1, -1, -1):
        if labels[j] == opener:
            z = j
            break
    if z is None:
        return None
    for j in range(z + 1, a):
        if labels[j] == want:
            return j
    return None


def check_nested(nodes, labels, values, links):
    """nested view of one subset against the expected link map. Returns None or (clause, detail)."""
    try:
        fl = nested.flatten(nodes)
    except nested.Malformed as e:
        return ('nested/malformed', str(e))
    if norm(fl.values) != norm(values) or fl.ids != labels:
        return ('nested/flat-order-not-recoverable', 'walk gives %d values, flat has %d' % (len(fl.values), len(values)))
    expected = collections.Counter()
    for a, o in links.items():
        expected[(o, labels[a], repr(norm(values[a])))] += 1
    for a, lab in enumerate(labels):
        if lab[0] in 'FDA':
            mi = meaning_index(labels, a)
            if mi is not None:
                expected[(a, labels[mi], repr(norm(values[mi])))] += 1
    observed = collections.Counter()
    for o, att in fl.virtual:
        observed[(o, att['id'], repr(norm(att.get('value'))))] += 1
    if observed != expected:
        miss = list((expected - observed).items())[:3]
        extra = list((observed - expected).items())[:3]
        kinds = sorted(set(k[1][0] if not k[1][0].isdigit() else ('Q' if k[1].startswith('033') else 'M')
                           for k, _ in miss + extra))
        return ('nested/attribute-owner/' + ''.join(kinds), 'missing under owner %r, unexpected %r' % (miss, extra))
    # copies shown under their owner carry the meaning as well
    for o, att in fl.virtual:
        if att['id'][0] in 'FD':
            a_candidates = [a for a, oo in links.items() if oo == o and labels[a] == att['id']
                            and repr(norm(values[a])) == repr(norm(att.get('value')))]
            want = set()
            for a in a_candidates:
                mi = meaning_index(labels, a)
                if mi is not None:
                    want.add((labels[mi], repr(norm(values[mi]))))
            got = set((b['id'], repr(norm(b.get('value')))) for b in att.get('attributes', []))
            if want and not (got & want):
                return ('nested/meaning-of-attribute-copy/' + att['id'][0], 'owner %d attribute %s has meaning %r, expected one of %r'
                        % (o, att['id'], sorted(got), sorted(want)))
    # associated fields: attached (non-virtual) to the element that follows
    for a, lab in enumerate(labels):
        if lab[0] == 'A':
            if a + 1 >= len(labels):
                return ('nested/associated-field-owner', 'associated field at %d has no follower' % a)
            owner = fl.node_at.get(a + 1)
            me = fl.node_at.get(a)
            if owner is None or me is None or not any(x is me for x in owner.get('attributes', [])) or me.get('virtual'):
                return ('nested/associated-field-owner', 'associated field at flat index %d is not a non-virtual '
                        'attribute of the element at %d' % (a, a + 1))
            if labels[a + 1][1:] != lab[1:]:
                return ('nested/associated-field-owner', 'associated field %s precedes %s' % (lab, labels[a + 1]))
    return None


def features(msg):
    f = []
    ids = msg.ids
    if any(ids[i] // 1000 in (222, 223, 224, 225, 232) and ids[i] % 1000 == 0 and
           (ids[i + 1] == 31031 or (ids[i + 1] == 236000 and ids[i + 2] == 31031))
           for i in range(len(ids) - 2)):
        f.append('explicit-031031-list')
    if 237000 in ids:
        f.append('reuse-237')
    if 235000 in ids:
        f.append('cancel-235')
    if 237255 in ids:
        f.append('cancel-237255')
    if sum(1 for i in ids if i // 1000 in (222, 223, 224, 225, 232) and i % 1000 == 0) > 1:
        f.append('chain')
    if any(i // 1000 == 204 for i in ids):
        f.append('assoc')
    return f


def judge_links(kind, m, msg, opts):
    """C07's oracle for a message delivered / read in the middle of other work: R's link map, and (wired messages) the owners shown
    in the hierarchical view"""
    if kind != 'full':
        return None
    d = diff_message(m, msg.subsets, check_links=True)
    if d:
        return ('decoded-%s-differ' % d[1], 'decoded %s differ from the FM-94 bitmap rule at subset %s field %s: observed %r expected %r' % (d[1], d[0], d[2], jsonable(d[3]), jsonable(d[4])))
    if opts.get('wire_template_data', True):
        try:
            from pybufrkit.renderer import NestedJsonRenderer
            nj = NestedJsonRenderer().render(m)
            nodes_all = json.loads(json.dumps(nj[-2][-1]['value'], default=lambda b: b.decode('latin-1')))
        except Exception as e:
            return ('nested-rendering-raises:%s' % type(e).__name__, 'nested rendering raised %s' % type(e).__name__)
        td = m.template_data.value
        for k, nodes in enumerate(nodes_all):
            if k >= len(msg.subsets):
                break
            s = msg.subsets[k]
            if any(l[0] == 'A' for l in s.labels) and s.links:
                continue        # quality values that carry associated fields: placement not judged (DESIGN 9.2)
            try:
                bad = check_nested(nodes, list(s.labels), [norm(v) for v in td.decoded_values_all_subsets[k]], dict(s.links))
            except Exception:
                continue
            if bad and bad[0].startswith('nested/attribute-owner'):
                return ('attribute-under-wrong-owner', 'attributes under other owners in the nested view of subset %d: %s' % (k, bad[1][:200]))
    return None


def compare_case(ctx, dec, msg, origin, name=None, extra=None, enc=None):
    if not cases.self_consistent(msg):
        ctx.count('r_self_fail')
        return
    ctx.count('r_self_ok')
    failures.maybe(ctx, [dec], [enc] if enc is not None else [], every=7)
    spec = dict(origin=origin, shape=name, ids=msg.ids, nsub=msg.nsub, compressed=msg.compressed,
                edition=msg.edition, mtv=(msg.meta or {}).get('master_table_version', 33), hex=msg.bytes.hex())
    if extra:
        spec.update(extra)
    feats = features(msg)
    mode = 'c' if msg.compressed else 'u'
    fsig = '+'.join(feats) or 'plain'
    # attributes stay with their owners whatever was done with the message object before the hierarchical view is taken
    handover.on_message(ctx, msg.bytes, spec, site=origin, p=0.2)
    nlinks = sum(len(s.links) for s in msg.subsets)
    nassoc = sum(1 for s in msg.subsets for l in s.labels if l[0] == 'A')
    try:
        m = dec.process(msg.bytes)
    except Exception as e:
        ctx.evaluated(msg.bytes.hex(), False)
        ctx.violate('decode-raises:%s/%s/%s/ops[%s]' % (type(e).__name__, mode, fsig, opsig(msg.ids)),
                    'decoder raised %s on a well-formed bitmap/associated-field message: %s'
                    % (type(e).__name__, str(e)[:150]), spec, exc=e)
        return
    ctx.evaluated(msg.bytes.hex(), nlinks + nassoc > 0,
                  sample=dict(origin=origin, shape=name, ids=msg.ids, nsub=msg.nsub, compressed=msg.compressed,
                              links=sorted(msg.subsets[0].links.items())[:8], **(extra or {})))
    ctx.count('links_compared', nlinks)
    ctx.count('assoc_fields_compared', nassoc)
    for f in feats:
        ctx.count('feature_' + f)
    for op in msg.ops:
        ctx.add('operators', op)
    ctx.add('link_counts', min(9, len(msg.subsets[0].links)))
    d = diff_message(m, msg.subsets, check_links=True)
    if not d and nlinks and len(msg.bytes) < 3000:
        # the links of a message are its own also when it is delivered / read while other scans and decodes use the same decoder
        recent = ctx.__dict__.setdefault('_c07_recent', [])
        recent.append((msg.bytes, msg))
        if len(recent) >= 6:
            ctx.count('mid_scan_blocks')
            if ctx.counters['mid_scan_blocks'] % (6 if ctx.quick else 3) == 1:
                from pybufrkit.decoder import Decoder
                midscan.scenarios(ctx, 'links', Decoder, recent[:3], recent[3:6], judge_links, dict(origin='mid-scan'))
            del recent[:]
    if d:
        k, why, j, obs, exp = d
        ctx.violate('links/%s/%s/%s/ops[%s]' % (why, mode, fsig, opsig(msg.ids)),
                    'decoded %s differ from the FM-94 bitmap rule at subset %s field %s: observed %r expected %r'
                    % (why, k, j, jsonable(obs), jsonable(exp)), spec, expected=exp, observed=obs)
        return
    # D-fields: coding width+1 / reference -2^width is in R's meta; values already compared above
    for s in msg.subsets:
        for lab, me in zip(s.labels, s.meta):
            if lab[0] == 'D':
                ctx.count('difference_stats_fields')
    try:
        from pybufrkit.renderer import NestedJsonRenderer
        nj = NestedJsonRenderer().render(m)
        nodes_all = json.loads(json.dumps(nj[-2][-1]['value'], default=lambda b: b.decode('latin-1')))
    except Exception as e:
        ctx.violate('nested/render-raises:%s/%s/%s' % (type(e).__name__, mode, fsig),
                    'NestedJsonRenderer raised %s: %s' % (type(e).__name__, str(e)[:150]), spec, exc=e)
        return
    td = td_of(m)
    for k, rs in enumerate(msg.subsets):
        ctx.count('nested_views_checked')
        r = check_nested(nodes_all[k], rs.labels, norm(td.decoded_values_all_subsets[k]), rs.links)
        if r:
            ctx.violate('%s/%s/%s/ops[%s]' % (r[0], mode, fsig, opsig(msg.ids)),
                        'nested view of subset %d: %s' % (k, r[1]), spec)
            return
    if enc is not None and not msg.noncanon:
        encode_side(ctx, dec, enc, msg, spec, mode, fsig)


def encode_side(ctx, dec, enc, msg, spec, mode, fsig):
    """the encoder must designate the same owners: values given in flat order (bitmaps may differ per
    subset) encode to R's bytes (uncompressed) / to a message that decodes to R's links (compressed)"""
    if any(me and me[0] == 'n' and me[2] > 0 and me[1] > 48 for s in msg.subsets for me in s.meta):
        return
    ctx.count('encodes_checked')
    if len(set(tuple(sorted(s.links.items())) for s in msg.subsets)) > 1:
        ctx.count('encodes_with_per_subset_bitmaps')
    try:
        out = enc.process(json.dumps(R.flat_json(msg))).serialized_bytes
    except Exception as e:
        ctx.violate('encode-raises:%s/%s/%s' % (type(e).__name__, mode, fsig),
                    'encoder raised %s on conforming bitmap/associated-field values: %s' % (type(e).__name__, str(e)[:120]), spec, exc=e)
        return
    # the same values in other forms: a bitmap bit "not present" given as null (a one-bit field has no missing value: null is written
    # as 1, exactly like 1) or as true, "present" given as false; values as parsed lists / tuples - the same bytes
    try:
        fj = json.loads(json.dumps(R.flat_json(msg)))
        rows = fj[-2][-1]
        for form, one, zero in (('bitmap-bits-null-for-1', None, 0), ('bitmap-bits-true-false', True, False), ('bitmap-bits-floats', 1.0, 0.0)):
            v = json.loads(json.dumps(fj))
            n_bits = 0
            for si, srow in enumerate(v[-2][-1]):
                for j, lab in enumerate(msg.subsets[si].labels):
                    if lab == '031031' and j < len(srow):
                        srow[j] = one if srow[j] == 1 else zero
                        n_bits += 1
            if not n_bits:
                break
            ctx.count('encodes_with_bitmap_bits_in_other_forms')
            try:
                out2 = enc.process(v if form != 'bitmap-bits-null-for-1' else json.dumps(v)).serialized_bytes
            except Exception:
                ctx.count('bitmap_bit_forms_refused')
                continue
            if out2 != out:
                ctx.violate('encode-bytes-differ/input-form/%s/%s' % (form, mode), 'the encoder given the bitmap bits as %s writes other bytes than for 0/1 '
                            '(other owners designated?)' % form, dict(spec, form=form), expected=out.hex()[:600], observed=out2.hex()[:600])
                break
    except Exception as e:
        ctx.notes.append('bitmap bit forms skipped: %r' % (e,))
    if not msg.compressed:
        if out != msg.bytes:
            ctx.violate('encode-bytes-differ/%s/%s' % (mode, fsig), 'encoder output differs from the reference message '
                        '(attribute values written for other owners than the bitmap designates?)', spec,
                        expected=msg.bytes.hex(), observed=out.hex())
        return
    try:
        d = diff_message(dec.process(out), msg.subsets, check_links=True)
    except Exception as e:
        ctx.violate('encode-output-undecodable:%s/%s/%s' % (type(e).__name__, mode, fsig), 'encoder output does not decode: %s' % str(e)[:120], spec, exc=e)
        return
    if d:
        ctx.violate('encode-then-decode/%s/%s/%s' % (d[1], mode, fsig), 'encoded message decodes to %s that differ from the reference at subset %s field %s'
                    % (d[1], d[0], d[2]), spec)


def build(ctx, ids, pol, nsub, comp, ed=4, mtv=33):
    B, D = cases.tables(mtv)
    try:
        return R.build_message(ids, B, D, pol, nsub, comp, ed, dict(master_table_version=mtv) if mtv != 33 else None)
    except R.Unsupported as e:
        ctx.count('gen_unsupported')
        ctx.add('gen_unsupported', str(e)[:60])
        return None


def run(ctx):
    from pybufrkit.decoder import Decoder
    from pybufrkit.encoder import Encoder
    dec = Decoder()
    enc = Encoder()
    rng = ctx.rng
    maxn = 7 if ctx.quick else 8
    # (a) exhaustive bitmap patterns
    n = 0
    for N in range(1, maxn + 1):
        for pat in itertools.product((0, 1), repeat=N):
            for oi, op in enumerate((222, 223, 224, 225, 232)):
                variants = [(n + oi) % len(BASES)] if ctx.quick else [0, 1, 3]
                for bi in variants:
                    for comp in ([bool((n + oi) % 2)] if ctx.quick else [False, True]):
                        n += 1
                        if not ctx.mine(n):
                            continue
                        bname, base, numeric = BASES[bi]
                        if op == 225 and not numeric:
                            bname, base, numeric = BASES[0]
                        ids = op_template(base, op, keep=bool(n % 3 == 0))
                        nsub = 1 if not comp else 1 + n % 3
                        msg = build(ctx, ids, PatternPolicy(rng, N, pat, phase=n), nsub if comp else 1 + n % 2, comp,
                                    [4, 3, 2][n % 3])
                        if msg is None:
                            continue
                        ctx.count('patterns_exhaustive_cases')
                        ctx.add('bitmap_lengths', N)
                        compare_case(ctx, dec, msg, 'pattern', bname, dict(op=op, pattern=''.join(map(str, pat))), enc=enc if n % 3 == 0 else None)
    # (b) chains, (c) associated fields
    k = 0
    for name, ids in CHAIN_SHAPES + ASSOC_SHAPES:
        for comp in (False, True):
            for phase in range(4 if ctx.quick else 48):
                k += 1
                if not ctx.mine(k):
                    continue
                pol = EdgePolicy(rng, phase=phase) if phase % 2 == 0 else R.Policy(rng)
                msg = build(ctx, ids, pol, 1 + phase % 4, comp, [4, 3, 2][phase % 3])
                if msg is None:
                    continue
                ctx.count('chain_cases' if (name, ids) in CHAIN_SHAPES else 'assoc_cases')
                ctx.add('shapes', name)
                compare_case(ctx, dec, msg, 'shape', name, enc=enc)
    # (c2) same layout, different owners: uncompressed subsets with identical descriptor lists whose bitmaps differ
    k = 0
    for nsub in (2, 3, 4):
        for name, msg in cases.same_layout_cases(rng, nsub=nsub, edition=[4, 3, 2][nsub % 3]):
            k += 1
            if not ctx.mine(k):
                continue
            ctx.count('same_layout_cases')
            ctx.add('shapes', name)
            compare_case(ctx, dec, msg, 'shape', name, enc=enc)
    # (d) explicit 031031 lists
    k = 0
    for N in range(1, 6):
        for pat in itertools.product((0, 1), repeat=N):
            for op in (222, 223, 224, 232):
                k += 1
                if not ctx.mine(k) or (ctx.quick and k % 3):
                    continue
                ids = op_template(BASES[0][1][:max(N, 3)], op, explicit=N, keep=bool(k % 2))
                msg = build(ctx, ids, PatternPolicy(rng, N, pat, phase=k), 1 + k % 2, bool(k % 4 == 0))
                if msg is None:
                    continue
                ctx.count('explicit_list_cases')
                compare_case(ctx, dec, msg, 'explicit-list', None, dict(op=op, pattern=''.join(map(str, pat))), enc=enc)
    # (e) random templates with bitmap tails
    q = 0
    while q < QUOTA[ctx.tier] and ctx.more():
        q += 1
        mtv = rng.choice(cases.MTVS)
        g = cases.gen_for(mtv, rng, pclose=0.8)
        ids = g.template(ptail=1.0)
        comp = rng.random() < 0.5
        msg = build(ctx, ids, R.Policy(rng, bitmap_cap=10), rng.choice([1, 2, 3, 4]), comp, rng.choice([2, 3, 4]), mtv)
        if msg is None:
            continue
        ctx.count('random_cases')
        compare_case(ctx, dec, msg, 'random', enc=enc)


def replay(ctx, case):
    from pybufrkit.decoder import Decoder
    spec = case['case']
    b = bytes.fromhex(spec['hex'])
    r = R.decode(b)
    msg = R.Message(bytes=b, subsets=r['subsets'], ids=r['ids'], nsub=r['nsub'], compressed=r['comp'],
                    edition=r['edition'], meta=dict(master_table_version=spec.get('mtv', 33)), ops=r['ops'],
                    feat={}, sec2=None, surplus={})
    compare_case(ctx, Decoder(), msg, 'replay', spec.get('shape'))
