"""C17 - metadata queries and metadata-only decoding agree with the full decode.

Oracle: expected values come from R's own parse of the message with R's hard-coded section layouts
(editions 2/3/4, optional section 2), so "first section in order that has the parameter" is computed
independently.  Info-only decoding must give the same section 0-3 values, must be unaffected by
replacing the content of section 4 (and section 5) with noise, and in stream mode must take each
message's bytes from its declared total length (tested with messages whose declared total exceeds
the encoded sections).  The bit tape shows what an info-only decode touched inside section 4.
"""
import glob
import json
import os

from mon import refbufr as R
from mon import handover, midscan, twins
from mon.gen import cases, streams
from mon.monitors import tape

ID = 'C17'
LEVEL = 'exploration'
TECHNIQUE = ('runtime monitoring: metadata querent and info-only decoder compared with an independent frame parser; '
             'invariance under data-section corruption; bit-tape observation of info-only reads')
RULE = ('R-produced messages over editions 2/3/4 x section 2 present/absent x random identification metadata and '
        'surplus octets; every parameter name of definitions/*.json x {implicit, explicit section index 0..6, 9}; '
        'malformed expressions; info-only vs full; info-only on noise-filled data sections; info-only stream scan '
        'with declared total length > encoded length.  Non-trivial = name occurring in >= 2 sections or an explicit '
        'index; distinct by SHA-1 of (message bytes, expression); section indices up to 1000; info-only decodes after lenient full decodes on the same decoder and together with ignore_value_expectation; `pybufrkit query %expr`')
RULE += '; added with rounds 10-12: metadata of messages delivered / decoded while scans are suspended (mid-scan scenarios, metadata-only and full); twins (another definitions directory)'
ASSUMPTIONS = ['R\'s section layouts (mon/refbufr/frame.py) are the FM-94 octet layouts under the repository\'s parameter names',
               'the value of %template_data is not compared (it is the decoded data object)',
               'the empty expression and expressions with more than one dot are outside the stated space (recorded, not judged)',
               'skipping section 4 by its declared length is a legitimate way not to read the data: judged by invariance under '
               'corruption of its content, not by the highest bit touched']
BUDGET = {'quick': 40, 'thorough': 400}
QUOTA = {'quick': 40, 'thorough': 1300}
REQUIRED = {'quick': {'evaluations': 8000, 'explicit_index_queries': 5000, 'multi_section_name_queries': 1000,
                      'malformed_rejected': 300, 'info_only_compared': 400, 'noise_data_info_only': 400,
                      'declared_length_streams': 100, 'cells_edition_sec2': 6,
                      'category11_messages_in_info_only_streams': 50},
            'thorough': {'evaluations': 200000, 'explicit_index_queries': 150000, 'multi_section_name_queries': 30000,
                      'malformed_rejected': 8000, 'info_only_compared': 15000, 'noise_data_info_only': 15000,
                      'declared_length_streams': 3000, 'cells_edition_sec2': 6,
                      'category11_messages_in_info_only_streams': 1500}}


MALFORMED = ['length', ' length', 'x%length', '%a.length', '%1x.length', '%.length', '%-.length', '%x1.edition',
             '0.length', '$length', '%one.n_subsets', '% .length', '%1,0.length']
INDICES = [0, 1, 2, 3, 4, 5, 6, 9, 10, 12, 99, 255, 1000, -1, -2]


def anchors():
    from pybufrkit.mdquery import MetadataExprParser, MetadataQuerent
    from pybufrkit.bufr import SectionConfigurer
    from pybufrkit.decoder import Decoder
    return [MetadataExprParser.parse, MetadataQuerent.query, SectionConfigurer.get_configuration,
            SectionConfigurer.info_configuration, Decoder.process]


def definition_names():
    repo = os.environ.get('VERIF_REPO', '/repo')
    names = []
    for f in sorted(glob.glob(os.path.join(repo, 'pybufrkit', 'definitions', '*.json'))):
        with open(f) as fh:
            for p in json.load(fh)['parameters']:
                if p['name'] not in names:
                    names.append(p['name'])
    return names


def norm(v):
    if isinstance(v, bytes):
        return v.decode('latin-1')
    if isinstance(v, (list, tuple)):
        return [norm(x) for x in v]
    return v


def frame_sections(fr):
    """[(index, {name: value})] in section order from R's parse, lengths included."""
    out = []
    for idx in fr.order:
        st, ln, vals = fr.sections[idx]
        d = dict(vals)
        out.append((idx, d))
    return out


def judge_metadata(kind, m, b, opts):
    """C17's oracle for a message delivered in the middle of other work: every parameter of sections 0-3 has the value R's own
    section layouts read from the bytes; a metadata-only decode has no data, a full decode has the data and the end section"""
    from pybufrkit.mdquery import MetadataExprParser, MetadataQuerent
    fr = R.parse_frame(b)
    q = MetadataQuerent(MetadataExprParser())
    for idx, d in frame_sections(fr):
        if idx > 3:
            continue
        for nme, exp in d.items():
            if nme in ('template_data',):
                continue
            got = q.query(m, '%%%d.%s' % (idx, nme))
            if norm_md(got) != norm_md(exp):
                return ('parameter-value/section%d' % idx, '%%%d.%s is %r, the bytes hold %r' % (idx, nme, got, exp))
    idxs = [sec.get_metadata('index') for sec in m.sections]
    if kind == 'info':
        if 5 in idxs:
            return ('info-only-reads-on', 'metadata-only decode went on to the end section (sections %r)' % (idxs,))
        if any(p.name == 'template_data' and p.value is not None for sec in m.sections for p in sec):
            return ('info-only-holds-data', 'metadata-only decode holds template data')
    else:
        if idxs != list(fr.order):
            return ('full-decode-sections', 'full decode has sections %r, the message has %r' % (idxs, list(fr.order)))
        if not any(p.name == 'template_data' and p.value is not None for sec in m.sections for p in sec):
            return ('full-decode-without-data', 'full decode holds no template data')
    return None


def norm_md(v):
    if isinstance(v, (bytes, bytearray)):
        return bytes(v).decode('latin-1')
    if isinstance(v, bool):
        return int(v)
    if isinstance(v, (list, tuple)):
        return [norm_md(x) for x in v]
    return v


def check_message(ctx, dec, q, names, b, spec, edition, sec2):
    from pybufrkit.errors import MetadataExprParsingError
    fr = R.parse_frame(b)
    secs = frame_sections(fr)
    try:
        m = dec.process(b)
    except Exception as e:
        ctx.count('full_decode_raises')
        return
    cell = 'ed%d/%s' % (edition, 'sec2' if sec2 else 'nosec2')
    ctx.add('cells', cell)
    # metadata of message objects that come from further successful operations (the Encoder's returned object for a rendering /
    # a selection of this message; this message after renderings and queries): what a query answers is what the bytes hold
    handover.on_message(ctx, b, spec, site=str(spec.get('origin')), p=0.3, light=True)
    count_sections = {}
    for idx, d in secs:
        for nme in d:
            count_sections[nme] = count_sections.get(nme, 0) + 1
    # ---- %name and %k.name
    for nme in names:
        if nme == 'template_data':
            continue
        exp = None
        for idx, d in secs:
            if nme in d:
                exp = d[nme]
                break
        multi = count_sections.get(nme, 0) >= 2
        exprs = [('%' + nme, exp, None)]
        for k in INDICES:
            e = None
            for idx, d in secs:
                if idx == k and nme in d:
                    e = d[nme]
            exprs.append(('%%%d.%s' % (k, nme), e, k))
        if ctx.rng.random() < 0.2:
            exprs.append(('  %' + nme + ' ', exp, None))
        for expr, e, k in exprs:
            ctx.evaluated((len(b), b[:40].hex(), expr), multi or k is not None)
            if k is not None:
                ctx.count('explicit_index_queries')
            if multi:
                ctx.count('multi_section_name_queries')
            try:
                got = q.query(m, expr)
            except Exception as ex:
                ctx.violate('query-raises:%s/%s' % (type(ex).__name__, 'explicit' if k is not None else 'implicit'),
                            'query %r raised %s' % (expr, type(ex).__name__), dict(spec, expr=expr), exc=ex)
                continue
            if norm(got) != norm(e):
                ctx.violate('query-value/%s/%s/%s' % ('explicit' if k is not None else 'first-match', nme, cell),
                            'query %r returned %r, the section layout gives %r' % (expr, norm(got), norm(e)),
                            dict(spec, expr=expr), expected=norm(e), observed=norm(got))
    ctx.sample(dict(edition=edition, sec2=sec2, example='%section_length', length=len(b)))
    if spec.get('origin') == 'core' or ctx.rng.random() < 0.05:
        cli_md_query(ctx, b, spec, secs, names, '%d' % (ctx.counters.get('cli_query_runs', 0)))
    # ---- malformed expressions
    # (each one is submitted twice in a row: the long-lived querent must refuse it the second time as well)
    for expr in [e_ for e_ in MALFORMED for _ in (0, 1)]:
        ctx.evaluated((len(b), 'malformed', expr), True)
        try:
            r = q.query(m, expr)
        except MetadataExprParsingError:
            ctx.count('malformed_rejected')
            continue
        except Exception as ex:
            ctx.violate('malformed-expression/wrong-exception:%s' % type(ex).__name__,
                        'expression %r raised %s, not MetadataExprParsingError' % (expr, type(ex).__name__),
                        dict(spec, expr=expr), exc=ex)
            continue
        ctx.violate('malformed-expression/accepted', 'expression %r was accepted (returned %r)' % (expr, r), dict(spec, expr=expr))
    # ---- info-only vs full, and under corrupted data
    data_start = fr.data_start // 8
    s4start, s4len = fr.sections[4][0], fr.sections[4][1]
    noise = bytearray(b)
    for i in range(data_start, len(b)):
        noise[i] = ctx.rng.randrange(256)
    variants = [('intact', b), ('noise-data-and-stop', bytes(noise))]
    nz = bytearray(noise)
    nz[len(b) - 4:] = b'7777'
    variants.append(('noise-data', bytes(nz)))
    # history on the shared decoder: a lenient FULL decode first - the metadata-only decodes that follow must still be metadata-only
    try:
        dec.process(b, ignore_value_expectation=True)
        dec.process(b, ignore_value_expectation=True, wire_template_data=False)
        ctx.count('lenient_full_decodes_before_info_only')
    except Exception:
        ctx.count('lenient_full_decode_raises')
    # (the lenient option ignore_value_expectation must not turn a metadata-only decode into a full one)
    variants = [(vn, vb, {}) for vn, vb in variants] + [(vn + '+ignore-value-expectation', vb, dict(ignore_value_expectation=True))
                                                         for vn, vb in variants]
    for vname, vb, opts in variants:
        tape.recent.clear()
        try:
            with twins.paused():        # the tape of THIS call is looked at below: no other instance reads in between
                mi = dec.process(vb, info_only=True, **opts)
        except Exception as ex:
            ctx.violate('info-only-raises:%s/%s' % (type(ex).__name__, vname),
                        'info-only decode of a message with %s raised %s: %s' % (vname, type(ex).__name__, str(ex)[:100]),
                        dict(spec, variant=vname), exc=ex)
            continue
        typed = [ev for ev in tape.recent if isinstance(ev[1], int) and ev[1] >= fr.data_start and ev[0] != 'read_bin']
        if tape.STATE['attached']:
            ctx.count('tape_info_only_observed')
            if typed:
                ctx.violate('probe/info-only-typed-read-in-data-section', 'info-only decode made typed reads inside the data: %r' % (typed[:3],),
                            dict(spec, variant=vname), advisory=True)
        ctx.count('info_only_compared' if vname.startswith('intact') else 'noise_data_info_only')
        ctx.evaluated((len(b), b[:40].hex(), 'info', vname), True)
        for idx, d in secs:
            if idx > 3:
                continue
            for nme, e in d.items():
                expr = '%%%d.%s' % (idx, nme)
                got = q.query(mi, expr)
                full = q.query(m, expr)
                if norm(got) != norm(e) or norm(got) != norm(full):
                    ctx.violate('info-only-value/%s/%s' % (vname, nme), 'info-only decode gives %s = %r, full decode %r, layout %r'
                                % (expr, norm(got), norm(full), norm(e)), dict(spec, variant=vname, expr=expr))
                    break


def cli_md_query(ctx, b, spec, secs, names, tag):
    """`pybufrkit query %expr file` (metadata-only decode inside the command) prints the file name and the value"""
    from mon.cli import run_cli
    scratch = os.path.join(os.environ.get('VERIF_SCRATCH', '/verif/.scratch'), 'c17-%d' % ctx.shard)
    os.makedirs(scratch, exist_ok=True)
    path = os.path.join(scratch, 'md_%s.bufr' % tag)
    with open(path, 'wb') as f:
        f.write(b)
    try:
        picks = [nme for nme in names if nme != 'template_data']
        ctx.rng.shuffle(picks)
        for nme in picks[:6]:
            for k in (None, ctx.rng.choice(INDICES)):
                exp = None
                for idx, d in secs:
                    if nme in d and (k is None or idx == k):
                        exp = d[nme]
                        break
                if exp is None and any(nme in d for idx, d in secs if idx >= 4):
                    continue       # sections 4/5 are not part of a metadata-only decode
                if any(nme in d for idx, d in secs if idx >= 4) and k is None and not any(nme in d for idx, d in secs if idx < 4):
                    continue
                expr = '%' + nme if k is None else '%%%d.%s' % (k, nme)
                if k is not None and k >= 4:
                    continue
                ctx.count('cli_query_runs')
                ctx.evaluated((len(b), b[:40].hex(), 'cli', expr), True)
                so, se, exc, code = run_cli(['query', expr, path])
                if exc is not None or se.strip():
                    ctx.violate('cli-query-fails', 'pybufrkit query %r failed: %r %s' % (expr, exc, se[:120]), dict(spec, expr=expr))
                    continue
                lines = so.splitlines()
                if k is None:
                    so2, se2, exc2, code2 = run_cli(['query', expr, path, path])
                    ctx.count('cli_query_two_file_runs')
                    if exc2 is not None or so2 != so + so:
                        ctx.violate('cli-query-several-files', 'pybufrkit query %r over two copies of a file does not print the single-file '
                                    'output twice' % expr, dict(spec, expr=expr), observed=so2[:200])
                if lines[:1] != [path] or lines[1:] != [str(exp)]:
                    ctx.violate('cli-query-output-differs', 'pybufrkit query %r printed %r, the section layout gives %r' % (expr, lines[1:3], exp),
                                dict(spec, expr=expr), expected=str(exp), observed=so[:200])
    finally:
        try:
            os.remove(path)
        except OSError:
            pass


def declared_length_stream(ctx, dec, rng, k):
    """info-only scanning takes each message's bytes from the declared total length."""
    from pybufrkit.decoder import generate_bufr_message
    B, D = cases.tables(33)
    parts = []
    want = []
    for j in range(rng.randint(1, 3)):
        # metadata-only scanning never looks at the data, whatever the data category says (11 = table definitions)
        cat = rng.choice([0, 11, 11, 2, 255])
        if cat == 11:
            ctx.count('category11_messages_in_info_only_streams')
        msg = streams.small_message(rng, k + j, data_category=cat)
        if rng.random() < 0.4:
            B33, D33 = cases.tables(33)
            try:
                msg = R.build_message([1001, 101000, 31001, 12001], B33, D33, R.Policy(rng), rng.choice([1, 2, 3]), False,
                                      rng.choice([2, 3, 4]), dict(data_category=cat, update_sequence_number=(k + j) % 256))
            except R.Unsupported:
                pass
        fr = R.parse_frame(msg.bytes)
        extra = rng.choice([0, 1, 2, 3, 6])
        secs = frame_sections(fr)
        b = bytearray(msg.bytes)
        b[4:7] = (len(b) + extra).to_bytes(3, 'big')
        tail = bytes(rng.choice(b'xyz\x00\xff') for _ in range(extra))
        piece = bytes(b) + tail
        parts.append(piece)
        want.append(piece)
    stream = b'\r\r\n'.join(parts) + b'\r\r\n'
    spec = dict(origin='declared-length', stream_hex=stream.hex())
    ctx.count('declared_length_streams')
    ctx.evaluated(('declared', stream.hex()), True, sample=dict(kind='declared-total-length stream', lengths=[len(p) for p in parts]))
    for opts in ({}, dict(ignore_value_expectation=True), dict(continue_on_error=True)):
        oname = '+'.join(sorted(opts)) or 'default'
        try:
            got = [m.serialized_bytes for m in generate_bufr_message(dec, stream, info_only=True, **opts)]
        except Exception as e:
            ctx.violate('info-only-stream-raises:%s/%s' % (type(e).__name__, oname), 'info-only scan (%s) raised %s' % (oname, type(e).__name__),
                        dict(spec, options=opts), exc=e)
            continue
        if got != want:
            ctx.violate('info-only-stream/bytes-not-from-declared-length/' + oname,
                        'info-only scan (%s) yielded lengths %r, declared total lengths are %r' % (oname, [len(g) for g in got], [len(w) for w in want]),
                        dict(spec, options=opts))


def run(ctx):
    from pybufrkit.decoder import Decoder
    from pybufrkit.mdquery import MetadataExprParser, MetadataQuerent
    dec = Decoder()
    q = MetadataQuerent(MetadataExprParser())
    rng = ctx.rng
    names = definition_names()
    rnames = R.all_parameter_names()
    if set(names) != set(rnames):
        ctx.notes.append('parameter names differ between definitions/*.json and R: %r' % (sorted(set(names) ^ set(rnames)),))
        ctx.add('name_set_differences', ','.join(sorted(set(names) ^ set(rnames))))
    names = [n for n in names] + [n for n in rnames if n not in names] + ['no_such_parameter']
    B, D = cases.tables(33)
    # mandatory core: every edition x section 2
    n = 0
    for ed in (2, 3, 4):
        for sec2 in (None, b'', b'abc'):
            n += 1
            if not ctx.mine(n):
                continue
            meta = dict(data_category=7, originating_centre=98, originating_subcentre=3, update_sequence_number=2,
                        data_local_subcategory=5, data_i18n_subcategory=6, local_table_version=0, year=2019,
                        month=11, day=30, hour=23, minute=59, second=58, flag_bits1='0000000')
            msg = R.build_message([1001, 12001, 101002, 4024], B, D, R.Policy(rng), 2, ed == 3, ed, meta, sec2,
                                  surplus={1: n % 3, 4: n % 2})
            check_message(ctx, dec, q, names, msg.bytes, dict(origin='core', edition=ed, sec2=sec2 is not None, hex=msg.bytes.hex()),
                          ed, sec2 is not None)
            ctx.count('cells_edition_sec2')
    k = ctx.shard * 100000
    qn = 0
    while qn < QUOTA[ctx.tier] and ctx.more():
        qn += 1
        k += 5
        ed = rng.choice([2, 3, 4])
        sec2 = rng.choice([None, b'', b'ab', b'local data octets'])
        meta = dict(data_category=rng.randrange(256), originating_centre=rng.randrange(256),
                    originating_subcentre=rng.randrange(256), update_sequence_number=rng.randrange(256),
                    data_local_subcategory=rng.randrange(256), data_i18n_subcategory=rng.randrange(256),
                    master_table_version=rng.choice(cases.MTVS), year=rng.choice([1999, 2000, 2024, 99, 0]),
                    month=rng.randint(1, 12), day=rng.randint(1, 28), hour=rng.randrange(24), minute=rng.randrange(60),
                    second=rng.randrange(60), is_observation=rng.random() < 0.8,
                    flag_bits3=rng.choice(['000000', '000001', '100000']), reserved3=rng.choice(['00000000', '00000001']),
                    reserved4=rng.choice(['00000000', '10000000']))
        mtv = meta['master_table_version']
        Bv, Dv = cases.tables(mtv)
        g = cases.gen_for(mtv, rng, pclose=0.8)
        ids = g.template(max_items=4, ptail=0.2)
        try:
            msg = R.build_message(ids, Bv, Dv, R.Policy(rng), rng.choice([1, 2, 3]), rng.random() < 0.4, ed, meta, sec2,
                                  surplus={1: rng.choice([0, 0, 1, 3]), 2: rng.choice([0, 2]), 4: rng.choice([0, 0, 2])})
        except R.Unsupported:
            continue
        check_message(ctx, dec, q, names, msg.bytes, dict(origin='random', edition=ed, sec2=sec2 is not None, ids=ids,
                                                         hex=msg.bytes.hex()), ed, sec2 is not None)
        recent = ctx.__dict__.setdefault('_c17_recent', [])
        if meta['data_category'] != 11:       # (a full scan reads category 11 as NCEP table definitions: only info-only streams carry it here)
            recent.append((msg.bytes, msg.bytes))
        if len(recent) >= 6:
            ctx.count('mid_scan_blocks')
            if ctx.counters['mid_scan_blocks'] % (3 if ctx.quick else 2) == 1:
                midscan.scenarios(ctx, 'metadata', Decoder, recent[:3], recent[3:6], judge_metadata, dict(origin='mid-scan'))
            del recent[:]
        declared_length_stream(ctx, dec, rng, k)
        if qn % 4 == 0:
            declared_length_stream(ctx, dec, rng, k + 3)


def replay(ctx, case):
    from pybufrkit.decoder import Decoder
    from pybufrkit.mdquery import MetadataExprParser, MetadataQuerent
    spec = case['case']
    if 'hex' not in spec:
        ctx.evaluated('replay', True)
        declared_length_stream(ctx, Decoder(), ctx.rng, 1)
        return
    b = bytes.fromhex(spec['hex'])
    check_message(ctx, Decoder(), MetadataQuerent(MetadataExprParser()), definition_names(), b, spec,
                  spec.get('edition', 4), spec.get('sec2', False))
