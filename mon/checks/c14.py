"""C14 - templates are built from descriptor lists exactly as FM-94 prescribes.

Oracle: R's table loader and id-level expander (reads the table *files* directly).
Exhaustive: every Table D entry of the bundled master versions (and local tables) expands to the
direct expansion of the file, every Table B entry's attributes are intact, template_from_ids(ids)
round-trips.  Random: well-formed id lists with replication nested to depth 4, X<=63: ownership tree
vs R's and flattening back.  Undefined descriptors (top level / in a replication / in a sequence)
=> UnknownDescriptor.  Version selection incl. fall-back equals the documented rule.
"""
import json
import os
import shutil

from mon import refbufr as R
from mon.refbufr import rtables

ID = 'C14'
LEVEL = 'exploration'
TECHNIQUE = 'runtime monitoring: table loader / template builder of the real code compared with an independent expander over the table files'
RULE = ('exhaustive over Table B/D entries of the chosen versions (quick: 6 versions rotating with the seed + '
        'local tables; thorough: all 36 + local); random well-formed id lists (depth<=4, X<=63); undefined '
        'descriptor placements; master/local version selections 0..255; non-trivial = entry nests a sequence '
        'or replication / list contains a replication; distinct by (version, id) / list hash; descriptors in no table (incl. 0 00 000) inside lists, ids given as strings; the same list under two versions in one process; `lookup` and `info -t` output')
RULE += '; added with rounds 10-12: definitions in force when the definition message has been delivered (template built from the loop body / after the scan was left); -t <root> before lookup / compile; table-group requests preceded by the same request for other tables roots (twins)'
ASSUMPTIONS = ['the bundled table files are the ground truth (not checked against WMO)',
               'documented fall-back: master table dir else 0; version dir else 33; local <centre>_<sub> else <centre>_0 else none']
BUDGET = {'quick': 50, 'thorough': 500}
EXHAUSTIVE = {'quick': False, 'thorough': True}
EXHAUSTIVE_NOTE = {'quick': '6 master versions (seed-rotated) + all local tables fully enumerated',
                   'thorough': 'every Table B and Table D entry of all bundled master versions and local tables'}
REQUIRED = {'quick': {'tabled_entries': 2200, 'tableb_entries': 6600, 'random_lists': 9600, 'undefined_cases': 68,
                      'version_selections': 110, 'roundtrip_ids': 2200},
            'thorough': {'tabled_entries': 8500, 'tableb_entries': 24000, 'random_lists': 380000, 'undefined_cases': 440,
                      'version_selections': 330, 'roundtrip_ids': 8500}}


MONITORS = ('boundary', 'telemetry')


def anchors():
    from pybufrkit import tables, descriptors
    return [tables._descriptors_from_ids_iter, tables.normalize_tables_sn, tables.TableD.__init__,
            tables.TableB.__init__, descriptors.flat_member_ids,
            descriptors.BufrTemplate.original_descriptor_ids.fget]


def expand(D, ids, depth=0):
    """direct expansion of a Table D member list: sequences replaced by members, everything else kept"""
    if depth > 30:
        raise RecursionError
    out = []
    for i in ids:
        if i >= 300000:
            out += expand(D, D[i], depth + 1)
        else:
            out.append(i)
    return out


def rtree(D, ids):
    """R's ownership tree of an id list: nested tuples"""
    out = []
    i = 0
    n = len(ids)
    while i < n:
        d = ids[i]
        i += 1
        F = d // 100000
        if F == 1:
            X = d // 1000 % 100
            fac = None
            if d % 1000 == 0:
                fac = ids[i] if i < n else None
                i += 1
            body = ids[i:i + X]
            i += X
            out.append(('R', d, fac, rtree(D, body)))
        elif F == 3:
            out.append(('S', d, rtree(D, D[d]) if d in D else None))
        else:
            out.append(('E', d))
    return out


def itree(members):
    from pybufrkit.descriptors import (FixedReplicationDescriptor, DelayedReplicationDescriptor,
                                       SequenceDescriptor, UndefinedSequenceDescriptor)
    out = []
    for m in members:
        if isinstance(m, DelayedReplicationDescriptor):
            out.append(('R', m.id, m.factor.id if m.factor is not None else None, itree(m.members)))
        elif isinstance(m, FixedReplicationDescriptor):
            out.append(('R', m.id, None, itree(m.members)))
        elif isinstance(m, SequenceDescriptor):
            out.append(('S', m.id, itree(m.members)))
        elif isinstance(m, UndefinedSequenceDescriptor):
            out.append(('S', m.id, None))
        else:
            out.append(('E', m.id))
    return out


def check_version(ctx, key, tg, B, D, label):
    from pybufrkit.descriptors import flat_member_ids, ElementDescriptor
    # Table B
    for eid, (name, unit, scale, ref, width) in B.items():
        d = tg.lookup(eid)
        ctx.count('tableb_entries')
        ok = (isinstance(d, ElementDescriptor) and d.id == eid and
              (d.name, d.unit, d.scale, d.refval, d.nbits) == (name, unit, scale, ref, width))
        ctx.evaluated((label, eid), False)
        if not ok:
            ctx.violate('tableB/attributes-differ', '%s element %06d: lookup gives %r, file has %r' % (
                label, eid, (getattr(d, 'name', None), getattr(d, 'unit', None), getattr(d, 'scale', None),
                             getattr(d, 'refval', None), getattr(d, 'nbits', None)), (name, unit, scale, ref, width)),
                dict(version=label, id=eid))
            return
    # Table D
    for sid, mem in D.items():
        try:
            want = expand(D, mem)
        except (KeyError, RecursionError):
            ctx.count('tabled_unexpandable')
            continue
        ctx.count('tabled_entries')
        nest = any(i >= 100000 for i in mem)
        ctx.evaluated((label, sid), nest, sample=dict(version=label, sequence=sid, members=mem) if sid % 997 == 0 else None)
        try:
            seq = tg.lookup(sid)
            got = flat_member_ids(seq)
        except Exception as e:
            ctx.violate('tableD/exception:%s' % type(e).__name__, '%s sequence %06d raised %r' % (label, sid, e),
                        dict(version=label, id=sid), exc=e)
            continue
        if got != want:
            ctx.violate('tableD/expansion-differs', '%s sequence %06d flattens to %r, direct expansion of the file is %r'
                        % (label, sid, got[:40], want[:40]), dict(version=label, id=sid), expected=want, observed=got)
            continue
        if itree(seq.members) != rtree(D, mem):
            ctx.violate('tableD/ownership-differs', '%s sequence %06d: replication ownership differs' % (label, sid),
                        dict(version=label, id=sid), expected=repr(rtree(D, mem))[:500], observed=repr(itree(seq.members))[:500])
            continue
        # attributes of every element in the flat list
        for i in want:
            if i < 100000 and i in B:
                d = tg.lookup(i)
                if (d.name, d.unit, d.scale, d.refval, d.nbits) != B[i]:
                    ctx.violate('tableD/element-attributes', '%s sequence %06d element %06d attributes differ' % (label, sid, i),
                                dict(version=label, id=sid, element=i))
                    break
        # template_from_ids round trip on the member list
        try:
            t = tg.template_from_ids(*mem)
            ctx.count('roundtrip_ids')
            if t.original_descriptor_ids != mem:
                ctx.violate('template/original-ids-differ', '%s template_from_ids(%r).original_descriptor_ids = %r'
                            % (label, mem[:30], t.original_descriptor_ids[:30]), dict(version=label, ids=mem))
        except Exception as e:
            ctx.violate('template/exception:%s' % type(e).__name__, 'template_from_ids raised %r' % (e,), dict(version=label, ids=mem), exc=e)


def gen_list(rng, B_ids, D_ids, depth, budget):
    """well-formed flat id list; returns list. X counts raw ids."""
    out = []
    n = rng.randint(1, 5)
    for _ in range(n):
        r = rng.random()
        if depth < 4 and r < 0.35 and budget[0] > 0:
            budget[0] -= 1
            body = gen_list(rng, B_ids, D_ids, depth + 1, budget)
            if len(body) > 63:
                body = body[:0] + [rng.choice(B_ids)]
            if rng.random() < 0.5:
                out += [100000 + len(body) * 1000 + rng.randint(1, 255)] + body
            else:
                out += [100000 + len(body) * 1000, rng.choice([31000, 31001, 31002])] + body
        elif r < 0.5:
            out.append(rng.choice(D_ids))
        elif r < 0.6:
            out.append(rng.choice([201130, 201000, 202129, 202000, 222000, 236000, 237000, 224255, 204004, 204000, 205010]))
        elif r < 0.64:
            # descriptors that are in no table (incl. 0 00 000 and an undefined sequence): kept as placeholders in place
            out.append(rng.choice([0, 0, 63255, 48001, 12250, 363255, 1]))
        else:
            out.append(rng.choice(B_ids))
    return out


def big_x_list(rng, B_ids, X):
    body = [rng.choice(B_ids) for _ in range(X)]
    return [100000 + X * 1000 + rng.randint(0, 1) * 5] + ([31001] if False else []) + body


def random_lists(ctx, tg, B, D):
    rng = ctx.rng
    B_ids = sorted(B)
    D_ids = sorted(D)
    quota = 1500 if ctx.quick else 60000
    for q in range(quota):
        if not ctx.more():
            return
        ids = gen_list(rng, B_ids, D_ids, 0, [6])
        if q % 25 == 0:
            X = rng.choice([62, 63, 40])
            body = [rng.choice(B_ids) for _ in range(X)]
            ids = [100000 + X * 1000 + 2] + body + [rng.choice(B_ids)]
        ctx.count('random_lists')
        ctx.evaluated(tuple(ids), any(100000 <= i < 200000 for i in ids),
                      sample=dict(ids=ids) if q == 1 else None)
        as_text = q % 7 == 3     # the command line hands the ids over as zero-padded strings
        if as_text:
            ctx.count('random_lists_given_as_strings')
        try:
            t = tg.template_from_ids(*(['%06d' % i for i in ids] if as_text else ids))
        except Exception as e:
            ctx.violate('random/exception:%s' % type(e).__name__, 'template_from_ids(%r) raised %r' % (ids, e), dict(ids=ids), exc=e)
            continue
        if any(i < 100000 and i not in B for i in ids) or any(i >= 300000 and i not in D for i in ids):
            ctx.count('random_lists_with_undefined_descriptors')
        if t.original_descriptor_ids != ids:
            ctx.violate('random/original-ids-differ', 'flattening the tree of %r gives %r' % (ids, t.original_descriptor_ids), dict(ids=ids))
            continue
        if itree(t.members) != rtree(D, ids):
            ctx.violate('random/ownership-differs', 'replication ownership of %r differs from FM-94' % (ids,), dict(ids=ids),
                        expected=repr(rtree(D, ids))[:600], observed=repr(itree(t.members))[:600])


def undefined_cases(ctx, dec, B, D):
    from pybufrkit.errors import UnknownDescriptor
    from pybufrkit.decoder import Decoder
    rng = ctx.rng
    pol = R.Policy(rng)
    decc = Decoder(compiled_template_cache_max=4)
    variants = [
        ('top-level-element', [1001, 12001, 2001], 1, 63255),
        ('top-level-sequence', [1001, 12001, 2001], 1, 363255),
        ('first-element', [12001, 1001], 0, 63254),
        ('last-sequence', [12001, 1001], 1, 363001),
        ('in-fixed-replication', [1001, 102002, 12001, 2001], 2, 63255),
        ('in-fixed-replication-seq', [1001, 102002, 12001, 2001], 3, 363255),
        ('in-delayed-replication', [101000, 31001, 12001, 1001], 2, 48001),
        # inside a 221YYY range: a defined element of class 12 would merely have no data there, an
        # element that is in no table must still be reported
        ('under-221-class-without-data', [1001, 221001, 12001, 1002], 2, 12250),
        ('under-221-class-with-data', [1001, 221002, 5001, 12001, 1002], 2, 5250),
        ('under-221-last-of-range', [1001, 221002, 12001, 12004, 1002], 3, 20250),
        ('zero-descriptor-top-level', [1001, 12001, 2001], 1, 0),
        ('zero-descriptor-last', [1001, 12001, 2001], 2, 0),
        ('zero-descriptor-in-replication', [1001, 102002, 12001, 2001], 2, 0),
        ('zero-descriptor-under-221', [1001, 221002, 12001, 12004, 1002], 2, 0),
    ]
    reps = 6 if ctx.quick else 40
    n = 0
    for name, ids, pos, bad in variants:
        for rep in range(reps):
            n += 1
            if not ctx.mine(n):
                continue
            for comp in (False, True):

                class P(R.Policy):
                    def count(self, pw, w, eid):
                        return 2
                msg = R.build_message(ids, B, D, P(rng), 2, comp, rng.choice([2, 3, 4]))
                fr = R.parse_frame(msg.bytes)
                st = fr.sections[3][0] + 7 + 2 * pos
                b = bytearray(msg.bytes)
                b[st] = ((bad // 100000) << 6) | (bad // 1000 % 100)
                b[st + 1] = bad % 1000
                spec = dict(part='undefined', where=name, ids=ids, substituted=bad, compressed=comp, hex=bytes(b).hex())
                ctx.count('undefined_cases')
                ctx.evaluated(('undef', name, comp, rep), True)
                for dname, dd in (('plain', dec), ('compiling', decc)):
                    for wire in (True, False):
                        try:
                            dd.process(bytes(b), wire_template_data=wire)
                            ctx.violate('undefined/decoded/%s%s' % (name, '' if dname == 'plain' else '/compiling-decoder'),
                                        'descriptor %06d (in no table) %s: message decoded without error (%s decoder, wire=%s)'
                                        % (bad, name, dname, wire), dict(spec, decoder=dname, wire=wire))
                        except UnknownDescriptor:
                            ctx.count('undefined_raised_unknown_descriptor')
                        except Exception as e:
                            ctx.violate('undefined/wrong-exception:%s/%s%s' % (type(e).__name__, name, '' if dname == 'plain' else '/compiling-decoder'),
                                        'descriptor %06d %s: raised %s instead of UnknownDescriptor: %s (%s decoder)'
                                        % (bad, name, type(e).__name__, str(e)[:100], dname), dict(spec, decoder=dname, wire=wire), exc=e)
    # inside a sequence: scratch tables root whose Table D refers to an id missing from Table B
    if ctx.shard == 0:
        scratch = os.path.join(os.environ.get('VERIF_SCRATCH', '/tmp'), 'c14tables')
        try:
            dst = os.path.join(scratch, '0', '0_0', '33')
            os.makedirs(dst, exist_ok=True)
            src = os.path.join(rtables.TABLES, '0', '0_0', '33')
            for fn in os.listdir(src):
                shutil.copy(os.path.join(src, fn), os.path.join(dst, fn))
            with open(os.path.join(dst, 'TableD.json')) as f:
                td = json.load(f)
            td['363001'] = ['VERIF SEQUENCE WITH UNDEFINED MEMBER', ['001001', '063254', '012001']]
            td['363002'] = ['VERIF SEQUENCE NESTING 363001', ['001001', '363001']]
            with open(os.path.join(dst, 'TableD.json'), 'w') as f:
                json.dump(td, f)
            d2 = Decoder(tables_root_dir=scratch)
            for sid in (363001, 363002):
                for comp in (False, True):
                    # data are well-formed for every descriptor that precedes the undefined member
                    # (001001 [001001] ...), so nothing else can fail before it is reached
                    ids = [1001, 1001, 1001, 1015]
                    msg = R.build_message(ids, B, D, pol, 2, comp, 4)
                    fr = R.parse_frame(msg.bytes)
                    st = fr.sections[3][0] + 7 + 2
                    b = bytearray(msg.bytes)
                    b[st] = (3 << 6) | 63
                    b[st + 1] = sid % 1000
                    spec = dict(part='undefined', where='in-sequence', sequence=sid, compressed=comp, hex=bytes(b).hex())
                    ctx.count('undefined_cases')
                    ctx.evaluated(('undef', 'in-sequence', sid, comp), True)
                    try:
                        d2.process(bytes(b))
                        ctx.violate('undefined/decoded/in-sequence', 'sequence %06d contains an element that is in no table: decoded without error' % sid, spec)
                    except UnknownDescriptor:
                        ctx.count('undefined_raised_unknown_descriptor')
                    except Exception as e:
                        ctx.violate('undefined/wrong-exception:%s/in-sequence' % type(e).__name__,
                                    'undefined member of sequence %06d: raised %s instead of UnknownDescriptor' % (sid, type(e).__name__), spec, exc=e)
        finally:
            shutil.rmtree(scratch, ignore_errors=True)


def version_selection(ctx, dec):
    rng = ctx.rng
    B, D = R.load_tables()
    have = set(R.wmo_versions())
    locs = R.local_table_dirs()
    combos = []
    for v in range(256):
        combos.append((0, 0, 0, v, 0))
    for (ce, su, lv, _p) in locs:
        combos += [(0, ce, su, 33, lv), (0, ce, su + 7, 33, lv), (0, ce + 1, su, 33, lv), (0, ce, su, 29, lv + 50),
                   (0, ce, 3, 13, lv)]
    combos += [(1, 0, 0, 33, 0), (7, 98, 0, 33, 1), (0, 98, 0, 200, 1)]
    for n, (mtn, ce, su, v, lv) in enumerate(combos):
        if not ctx.mine(n):
            continue
        for ed in ((4,) if ctx.quick else (4, 3, 2)):
          if ed == 3 and (ce > 255 or su > 255):
              continue
          if ed == 2 and su != 0:
              continue
          msg = R.build_message([1001, 1002], B, D, R.Policy(rng), 1, False, ed,
                                dict(master_table_number=mtn, originating_centre=ce, originating_subcentre=su,
                                     master_table_version=v, local_table_version=lv))
          dirs = rtables.table_dirs(mtn, ce, su, v, lv)
          want_wmo = tuple(os.path.relpath(dirs[0], rtables.TABLES).split(os.sep))
          want_loc = tuple(os.path.relpath(dirs[1], rtables.TABLES).split(os.sep)) if len(dirs) > 1 else None
          spec = dict(part='version', mtn=mtn, centre=ce, subcentre=su, mtv=v, ltv=lv, hex=msg.bytes.hex())
          ctx.count('version_selections')
          ctx.evaluated(('ver', mtn, ce, su, v, lv, ed), v not in have or lv != 0 or mtn != 0)
          try:
              m = dec.process(msg.bytes)
          except Exception as e:
              ctx.violate('version/exception:%s' % type(e).__name__, 'decode with table selection %r raised %r' % ((mtn, ce, su, v, lv), e), spec, exc=e)
              continue
          key = m.table_group_key
          if tuple(key.wmo_tables_sn) != want_wmo or (tuple(key.local_tables_sn) if key.local_tables_sn else None) != want_loc:
              ctx.violate('version/selection-differs/%s' % ('local' if lv else 'master'),
                          'selection %r used tables %r / %r, documented rule gives %r / %r'
                          % ((mtn, ce, su, v, lv), key.wmo_tables_sn, key.local_tables_sn, want_wmo, want_loc), spec)


def preorder(D, ids, out=None):
    """ids of a descriptor list in display order: sequences before their members, a delayed replication's factor before
    its body"""
    out = [] if out is None else out
    i = 0
    n = len(ids)
    while i < n:
        d = ids[i]
        i += 1
        out.append(d)
        F = d // 100000
        if F == 1:
            X = d // 1000 % 100
            if d % 1000 == 0 and i < n:
                out.append(ids[i])
                i += 1
            preorder(D, ids[i:i + X], out)
            i += X
        elif F == 3 and d in D:
            preorder(D, D[d], out)
    return out


def cross_version(ctx):
    """one process, several table groups: the same descriptor list built under two versions that define it differently
    (sequence membership / element attributes) gives each version's own template, in either order"""
    from pybufrkit.tables import TableGroupCacheManager
    from pybufrkit.descriptors import flat_member_ids
    rng = ctx.rng
    versions = R.wmo_versions()
    pairs = []
    for a, b in list(zip(versions, versions[1:])) + [(versions[0], versions[-1])]:
        Ba, Da = R.load_tables(0, 0, 0, a, 0)
        Bb, Db = R.load_tables(0, 0, 0, b, 0)
        for sid in sorted(set(Da) & set(Db)):
            try:
                if expand(Da, Da[sid]) != expand(Db, Db[sid]):
                    pairs.append(('seq', sid, a, b))
            except (KeyError, RecursionError):
                pass
        for e in sorted(set(Ba) & set(Bb)):
            if Ba[e][2:5] != Bb[e][2:5]:
                pairs.append(('elem', e, a, b))
    rng.shuffle(pairs)
    for kind, d, a, b in pairs[:(12 if ctx.quick else 150)]:
        order = [a, b, a] if rng.random() < 0.5 else [b, a, b]
        for v in order:
            B, D = R.load_tables(0, 0, 0, v, 0)
            tg = TableGroupCacheManager.get_table_group(master_table_version=v)
            ids = [d] if kind == 'seq' else [1001, d, d]
            ctx.count('cross_version_templates')
            ctx.evaluated(('cross', kind, d, tuple(order), v), True)
            spec = dict(part='cross-version', kind=kind, id=d, order=order, version=v)
            try:
                t = tg.template_from_ids(*ids)
                got = flat_member_ids(t)
            except Exception as e:
                ctx.violate('cross-version/exception:%s' % type(e).__name__, 'template_from_ids(%r) under version %d raised %r' % (ids, v, e), spec, exc=e)
                break
            want = expand(D, ids)
            if got != want:
                ctx.violate('cross-version/expansion-differs/%s' % kind, 'list %r under version %d (after %r) flattens to %d ids, the table '
                            'file of that version gives %d' % (ids, v, order, len(got), len(want)), spec)
                break
            if kind == 'elem':
                el = t.members[1]
                if (el.scale, el.refval, el.nbits) != B[d][2:5]:
                    ctx.violate('cross-version/element-attributes', 'element %06d built under version %d (after %r) has %r, Table B of that '
                                'version has %r' % (d, v, order, (el.scale, el.refval, el.nbits), B[d][2:5]), spec)
                    break


def table_isolation(ctx, dec):
    """A descriptor is "in no table" when neither the WMO tables of the message's version nor the local tables the message names
    define it - whatever OTHER tables (another local table set on the same WMO version, a later WMO version) this process has
    loaded before.  Table groups are built here in a hostile order: the group that defines an id first, then (cache emptied, so it
    is built now) the group that does not; a message of the second group that uses the id must be refused with UnknownDescriptor,
    and ids defined by both get their own group's attributes."""
    from pybufrkit.errors import UnknownDescriptor
    from pybufrkit.tables import TableGroupCacheManager
    rng = ctx.rng
    locs = R.local_table_dirs()
    versions = R.wmo_versions()
    plans = []
    for n, (ce, su, lv, _p) in enumerate(locs):
        v = [33, versions[(ctx.seed + n) % len(versions)], 33][n % 3] if ctx.quick else rng.choice(versions)
        others = [x for x in locs if x[:3] != (ce, su, lv)]
        plans.append(('local', (ce, su, lv), v, rng.choice(others)[:3] if others else None))
    for n in range(2 if ctx.quick else 8):
        a, b = sorted(rng.sample(versions, 2))
        plans.append(('wmo', b, a, None))
    for pn, (kind, donor, v, other) in enumerate(plans):
        if not ctx.mine(pn):
            continue
        if kind == 'local':
            ce, su, lv = donor
            Bd, Dd = R.load_tables(0, ce, su, v, lv)
            donor_meta = dict(master_table_version=v, originating_centre=ce, originating_subcentre=su, local_table_version=lv)
            receivers = [dict(master_table_version=v)]
            if other:
                receivers.append(dict(master_table_version=v, originating_centre=other[0], originating_subcentre=other[1],
                                      local_table_version=other[2]))
        else:
            Bd, Dd = R.load_tables(0, 0, 0, donor, 0)
            donor_meta = dict(master_table_version=donor)
            receivers = [dict(master_table_version=v)]
        for rmeta in receivers:
            Br, Dr = R.load_tables(0, rmeta.get('originating_centre', 0), rmeta.get('originating_subcentre', 0),
                                   rmeta['master_table_version'], rmeta.get('local_table_version', 0))
            only_b = sorted(e for e in Bd if e not in Br)
            only_d = sorted(q for q in Dd if q not in Dr)
            rng.shuffle(only_b)
            rng.shuffle(only_d)
            # sequences whose members the receiver knows are the interesting ones: nothing else could refuse the message
            only_d.sort(key=lambda q: not all(m in Br or m // 100000 in (1, 2) for m in expand_safe(Dd, Dd[q])))
            try:
                TableGroupCacheManager.invalidate()
            except Exception:
                ctx.count('isolation_invalidate_unavailable')
            try:
                dec.process(R.build_message([1001, 1002], Bd, Dd, R.Policy(rng), 1, False, 4, donor_meta).bytes)
            except Exception as e:
                ctx.violate('isolation/donor-decode-raises:%s' % type(e).__name__, 'decoding a plain message under %r raised %r' % (donor_meta, e),
                            dict(part='isolation', donor=donor_meta), exc=e)
                continue
            for bad in only_b[:(3 if ctx.quick else 12)] + only_d[:(4 if ctx.quick else 16)]:
                for comp in (False, True):
                    msg = R.build_message([1001, 12001, 2001], Br, Dr, R.Policy(rng), 2, comp, 4, rmeta)
                    fr = R.parse_frame(msg.bytes)
                    st = fr.sections[3][0] + 7 + 2
                    b = bytearray(msg.bytes)
                    b[st] = ((bad // 100000) << 6) | (bad // 1000 % 100)
                    b[st + 1] = bad % 1000
                    spec = dict(part='isolation', donor=donor_meta, message=rmeta, substituted=bad, compressed=comp, hex=bytes(b).hex())
                    ctx.count('isolation_cases')
                    ctx.evaluated(('iso', kind, str(donor), str(sorted(rmeta.items())), bad, comp), True)
                    try:
                        dec.process(bytes(b))
                        ctx.violate('isolation/decoded/defined-by-other-%s-tables' % kind,
                                    'descriptor %06d is defined only by the tables of %r; a message naming %r that uses it decoded without '
                                    'error after those tables had been loaded' % (bad, donor_meta, rmeta), spec)
                    except UnknownDescriptor:
                        ctx.count('isolation_raised_unknown_descriptor')
                    except Exception as e:
                        ctx.violate('isolation/wrong-exception:%s/%s' % (type(e).__name__, kind),
                                    'descriptor %06d (only in the tables of %r) in a message naming %r: raised %s instead of UnknownDescriptor'
                                    % (bad, donor_meta, rmeta, type(e).__name__), spec, exc=e)
            # ids both define, differently: the receiver's own attributes / members
            both_b = [e for e in sorted(Bd) if e in Br and Bd[e][2:5] != Br[e][2:5]]
            both_d = [q for q in sorted(Dd) if q in Dr and Dd[q] != Dr[q]]
            rng.shuffle(both_b)
            rng.shuffle(both_d)
            try:
                from pybufrkit.descriptors import flat_member_ids
                tg = TableGroupCacheManager.get_table_group(**{k: x for k, x in rmeta.items()})
                for e in both_b[:6]:
                    ctx.count('isolation_shared_ids')
                    el = tg.template_from_ids(e).members[0]
                    if (el.scale, el.refval, el.nbits) != tuple(Br[e][2:5]):
                        ctx.violate('isolation/element-attributes-of-other-tables', 'element %06d under %r has %r, its own tables give %r (tables of %r '
                                    'loaded before)' % (e, rmeta, (el.scale, el.refval, el.nbits), Br[e][2:5], donor_meta),
                                    dict(part='isolation', donor=donor_meta, message=rmeta, id=e))
                for q in both_d[:6]:
                    ctx.count('isolation_shared_ids')
                    try:
                        want = expand(Dr, [q])
                    except (KeyError, RecursionError):
                        continue
                    got = flat_member_ids(tg.template_from_ids(q))
                    if got != want:
                        ctx.violate('isolation/sequence-members-of-other-tables', 'sequence %06d under %r flattens to %d ids, its own tables give %d '
                                    '(tables of %r loaded before)' % (q, rmeta, len(got), len(want), donor_meta),
                                    dict(part='isolation', donor=donor_meta, message=rmeta, id=q))
            except Exception as e:
                ctx.violate('isolation/shared-ids-exception:%s' % type(e).__name__, 'building templates under %r raised %r' % (rmeta, e),
                            dict(part='isolation', donor=donor_meta, message=rmeta), exc=e)


def expand_safe(D, ids):
    try:
        return expand(D, ids)
    except (KeyError, RecursionError):
        return [999999]


def with_extra_entries(ctx):
    """LAST step (it changes process-wide state the way an in-stream definition message does): with one unrelated extra Table B
    entry registered, every bundled sequence still builds the same tree and flattens to the same lists"""
    from pybufrkit.tables import TableGroupCacheManager
    from pybufrkit.descriptors import flat_member_ids
    TableGroupCacheManager.invalidate()
    TableGroupCacheManager.add_extra_entries({'063200': ['VERIF EXTRA ELEMENT', 'NUMERIC', 0, 0, 8, '', 0, 0]}, {})
    for v in (33, R.wmo_versions()[ctx.shard % len(R.wmo_versions())]):
        B, D = R.load_tables(0, 0, 0, v, 0)
        tg = TableGroupCacheManager.get_table_group(master_table_version=v)
        for n, (sid, mem) in enumerate(sorted(D.items())):
            if not ctx.mine(n):
                continue
            try:
                want = expand(D, [sid])
            except (KeyError, RecursionError):
                continue
            ctx.count('sequences_with_extra_entries_registered')
            ctx.evaluated(('extra', v, sid), any(i >= 100000 for i in mem))
            spec = dict(part='with-extra-entries', version=v, id=sid)
            try:
                for ids in ([sid], [1001, 101002, sid, 1002]):
                    t = tg.template_from_ids(*ids)
                    if t.original_descriptor_ids != ids:
                        ctx.violate('extra-entries/original-ids-differ', 'with an unrelated extra entry registered, template_from_ids(%r) flattens '
                                    'back to %r' % (ids, t.original_descriptor_ids[:12]), spec)
                        raise StopIteration
                    if itree(t.members) != rtree(D, ids):
                        ctx.violate('extra-entries/ownership-differs', 'with an unrelated extra entry registered the tree of %r differs from FM-94' % (ids,), spec)
                        raise StopIteration
                if flat_member_ids(tg.template_from_ids(sid)) != want:
                    ctx.violate('extra-entries/expansion-differs', 'with an unrelated extra entry registered sequence %06d (v%d) expands differently' % (sid, v), spec)
            except StopIteration:
                break
            except Exception as e:
                ctx.violate('extra-entries/exception:%s' % type(e).__name__, 'template_from_ids(%06d) raised %r with an extra entry registered' % (sid, e), spec, exc=e)
                break


def ncep_entries_stay(ctx):
    """After with_extra_entries (process-wide extra entries are allowed from here on): in-stream style definitions that use the NCEP
    convention - sequences that consist of a replication descriptor and its factor only - are registered.  Building templates
    from lists that need the repair of such sequences is a READ of the tables: every registered sequence still expands to what
    it expanded to before, and a list builds to the same template however many lists were built in between."""
    from pybufrkit.tables import TableGroupCacheManager
    from pybufrkit.descriptors import flat_member_ids
    rng = ctx.rng
    extra_b = {'048001': ['VERIF NCEP ELEMENT A', 'NUMERIC', 1, -100, 12, '', 0, 0],
               '048002': ['VERIF NCEP ELEMENT B', 'CCITT IA5', 0, 0, 32, '', 0, 0]}
    extra_d = {'360001': ['VERIF REP 1-BIT', ['101000', '031000']],
               '360002': ['VERIF REP 8-BIT', ['101000', '031001']],
               '360003': ['VERIF REP 16-BIT', ['101000', '031002']],
               '361001': ['VERIF SEQ A', ['001001', '360002', '002001']],
               '361002': ['VERIF SEQ B', ['360002', '012001']],
               '361003': ['VERIF SEQ C', ['360001', '048001', '360003', '361002']],
               '361004': ['VERIF SEQ D', ['048002', '361001', '360002', '361001']]}
    try:
        TableGroupCacheManager.invalidate()
        TableGroupCacheManager.add_extra_entries(extra_b, extra_d)
        tg = TableGroupCacheManager.get_table_group(master_table_version=33)
    except Exception as e:
        ctx.notes.append('ncep entries: registration unavailable: %r' % (e,))
        ctx.count('ncep_registration_unavailable')
        return
    # what with_extra_entries registered before (063200) is still there after this second registration - the scanner of a stream
    # does exactly this for every definition message: invalidate(), add_extra_entries()
    try:
        el = tg.template_from_ids(63200).members[0]
        ctx.count('earlier_extra_entries_rechecked')
        if (type(el).__name__.startswith('Undefined')) or (el.scale, el.refval, el.nbits) != (0, 0, 8):
            ctx.violate('extra-entries/earlier-registration-lost', 'element 063200 registered before a second invalidate() + add_extra_entries() is now %s'
                        % type(el).__name__, dict(part='ncep', id=63200))
    except Exception as e:
        ctx.violate('extra-entries/earlier-registration-lost', 'element 063200 registered before a second invalidate() + add_extra_entries() now raises %r'
                    % (e,), dict(part='ncep', id=63200), exc=e)
    sids = sorted(int(k) for k in extra_d) + [301011, 301021, 302001]

    def table_view():
        out = {}
        for sid in sids:
            try:
                out[sid] = list(flat_member_ids(tg.lookup(sid)))
            except Exception as e:
                out[sid] = 'raises ' + type(e).__name__
        return out

    def build(ids):
        try:
            return list(flat_member_ids(tg.template_from_ids(*ids)))
        except Exception as e:
            return 'raises ' + type(e).__name__
    before = table_view()
    lists = [[360001, 361001], [361002], [360002, 12001], [361001], [360001, 361001, 361002], [1001, 360003, 361003], [361003],
             [360001, 361004], [361004, 361002], [360002, 361002, 360001, 361001], [101002, 361001], [360003, 361003, 361004]]
    first = {}
    order = list(range(len(lists))) * 2
    rng.shuffle(order)
    for n, li in enumerate(order):
        ids = lists[li]
        got = build(ids)
        ctx.count('ncep_lists_built')
        ctx.evaluated(('ncep', tuple(ids), n), True)
        if li not in first:
            first[li] = got
        elif got != first[li]:
            ctx.violate('ncep/same-list-builds-differently', 'descriptor list %r built a second time (after %d other lists) flattens to %r, the first '
                        'time to %r' % (ids, n, got if isinstance(got, str) else got[:14], first[li] if isinstance(first[li], str) else first[li][:14]),
                        dict(part='ncep', ids=ids, order=[lists[i] for i in order[:n + 1]]))
            return
        now = table_view()
        if now != before:
            bad = [s_ for s_ in sids if now[s_] != before[s_]]
            ctx.violate('ncep/table-entry-changed-by-template-building', 'after building templates from %r the registered sequence %06d expands to %r '
                        '(before: %r)' % ([lists[i] for i in order[:n + 1]][-3:], bad[0], now[bad[0]], before[bad[0]]),
                        dict(part='ncep', built=[lists[i] for i in order[:n + 1]], sequence=bad[0]))
            return


def cli_tables(ctx):
    """`lookup` prints an element's Table B attributes, `info -t` the template of a file: both against the table files"""
    from mon.cli import run_cli
    rng = ctx.rng
    versions = R.wmo_versions()
    for rep in range(2 if ctx.quick else 12):
        v = rng.choice(versions)
        B, D = R.load_tables(0, 0, 0, v, 0)
        eids = rng.sample(sorted(B), 12)
        so, se, exc, code = run_cli(['lookup', ','.join('%06d' % e for e in eids), '--master-table-version', str(v)])
        ctx.count('cli_lookup_runs')
        spec = dict(part='cli-lookup', version=v, ids=eids)
        if exc is not None or se.strip():
            ctx.violate('cli-lookup-fails', 'pybufrkit lookup failed: %r %s' % (exc, se[:120]), spec)
            continue
        lines = [ln for ln in so.splitlines() if ln.strip()]
        for e, ln in zip(eids, lines):
            name, unit, scale, ref, width = B[e][:5]
            ctx.evaluated(('lookup', v, e), True)
            ctx.count('cli_lookup_elements')
            if not ln.startswith('%06d ' % e) or not ln.endswith(', %s, %s, %s, %s' % (unit, scale, ref, width)):
                ctx.violate('cli-lookup-differs', 'lookup of %06d (version %d) printed %r, Table B has unit %r scale %r reference %r width %r'
                            % (e, v, ln[:120], unit, scale, ref, width), spec)
                break
        if len(lines) != len(eids):
            ctx.violate('cli-lookup-differs', 'lookup of %d elements printed %d lines' % (len(eids), len(lines)), spec)
    # the global options -t / -d are written BEFORE the command: `lookup`, `compile` and `info -t` then work with that tables root
    # (a root that differs from the bundled one in element 012101 of version 33: scale 1, 18 bits)
    if ctx.shard % 4 == 0 or not ctx.quick:
        from mon.cli import alt_tables_root
        # (a directory of this shard's own: several shards build their copy at the same time)
        own = os.path.join(os.environ.get('VERIF_SCRATCH') or os.path.join(os.environ.get('VERIF_DIR', '/verif'), '.scratch'), 'c14-%d' % ctx.shard)
        os.makedirs(own, exist_ok=True)
        root = alt_tables_root(own)
        Balt, Dalt = R.load_tables(0, 0, 0, 33, 0, root=root)
        spec = dict(part='cli-tables-root-option')
        for argv, what in ((['-t', root, 'lookup', '012101', '--master-table-version', '33'], 'before-the-command'),
                           (['-t', root + os.sep, 'lookup', '012101,001001', '--master-table-version', '33'], 'with-trailing-slash')):
            so, se, exc, code = run_cli(argv)
            ctx.count('cli_lookup_with_tables_root_option')
            ctx.evaluated(('lookup-t', what), True)
            name, unit, scale, ref, width = Balt[12101][:5]
            lines = [ln for ln in so.splitlines() if ln.strip()]
            if exc is not None or se.strip() or not lines:
                ctx.violate('cli-lookup-fails/tables-root-option', 'pybufrkit -t <root> lookup failed: %r %s' % (exc, se[:120]), dict(spec, how=what))
            elif not lines[0].endswith(', %s, %s, %s, %s' % (unit, scale, ref, width)):
                ctx.violate('cli-lookup-differs/tables-root-option/' + what, 'pybufrkit -t <root> lookup 012101 printed %r, Table B of that root has scale %r reference %r width %r'
                            % (lines[0][:120], scale, ref, width), dict(spec, how=what))
        # compile: the compiled template printed for [012101] carries the element of THAT root (its width shows in the statement)
        try:
            so_a, se_a, exc_a, _ = run_cli(['-t', root, 'compile', '012101', '--master-table-version', '33'])
            so_b, se_b, exc_b, _ = run_cli(['compile', '012101', '--master-table-version', '33'])
            ctx.count('cli_compile_with_tables_root_option')
            ctx.evaluated(('compile-t',), True)
            if exc_a is not None or se_a.strip() or not so_a.strip():
                ctx.violate('cli-compile-fails/tables-root-option', 'pybufrkit -t <root> compile failed: %r %s' % (exc_a, se_a[:120]), spec)
            elif exc_b is None and so_a == so_b and root not in so_b:
                ctx.violate('cli-compile-differs/tables-root-option', 'pybufrkit -t <root> compile 012101 prints the same template as without -t although '
                            'the element is defined differently in that root', spec)
        except Exception as e:
            ctx.notes.append('compile -t probe failed: %r' % (e,))
    repo = os.environ.get('VERIF_REPO', '/repo')
    import glob
    files = sorted(glob.glob(os.path.join(repo, 'tests', 'data', '*.bufr')))
    for i, f in enumerate(files):
        if not ctx.mine(i) or os.path.basename(f) in ('multi_invalid_messages.bufr', 'prepbufr.bufr'):
            continue
        b = open(f, 'rb').read()
        try:
            fr = R.parse_frame(b[b.find(b'BUFR'):])
            ids = fr.param('unexpanded_descriptors')
            mtv = fr.param('master_table_version')
            ce, su, lv = fr.param('originating_centre'), fr.param('originating_subcentre'), fr.param('local_table_version')
            B, D = R.load_tables(0, ce, su or 0, mtv, lv)
            want = preorder(D, list(ids))
        except Exception:
            ctx.count('cli_info_reference_unavailable')
            continue
        so, se, exc, code = run_cli(['info', '-t', f])
        ctx.count('cli_info_template_runs')
        ctx.evaluated(('info-t', os.path.basename(f)), True)
        spec = dict(part='cli-info-t', file=os.path.basename(f))
        if exc is not None or se.strip():
            ctx.violate('cli-info-fails', 'pybufrkit info -t failed: %r %s' % (exc, se[:120]), spec)
            continue
        lines = so.splitlines()
        try:
            st = max(j for j, ln in enumerate(lines) if ln.startswith('BufrTemplate'))
        except ValueError:
            ctx.violate('cli-info-template-missing', 'info -t printed no template', spec)
            continue
        got = []
        for ln in lines[st + 1:]:
            t = ln.lstrip(' .')
            if len(t) >= 6 and t[:6].isdigit():
                got.append(int(t[:6]))
        if got != want:
            k = next((j for j, (a, c) in enumerate(zip(got, want)) if a != c), min(len(got), len(want)))
            ctx.violate('cli-info-template-differs', 'info -t lists %d descriptors, the direct expansion has %d; first difference at %d'
                        % (len(got), len(want), k), spec)


def run(ctx):
    from pybufrkit.tables import TableGroupCacheManager
    from pybufrkit.decoder import Decoder
    dec = Decoder()
    table_isolation(ctx, dec)      # first: the table groups it builds must be the first of their kind in this process
    versions = R.wmo_versions()
    if ctx.quick:
        k = ctx.seed % len(versions)
        pick = sorted(set([33] + [versions[(k + 7 * j) % len(versions)] for j in range(5)]))
    else:
        pick = versions
    jobs = [('wmo', v) for v in pick] + [('local', l) for l in R.local_table_dirs()]
    for n, (kind, what) in enumerate(jobs):
        if not ctx.mine(n):
            continue
        if kind == 'wmo':
            B, D = R.load_tables(0, 0, 0, what, 0)
            tg = TableGroupCacheManager.get_table_group(master_table_version=what)
            label = 'v%d' % what
        else:
            ce, su, lv, path = what
            B, D = R.load_tables(0, ce, su, 33, lv)
            tg = TableGroupCacheManager.get_table_group(originating_centre=ce, originating_subcentre=su,
                                                        master_table_version=33, local_table_version=lv)
            label = 'local%d_%d/%d' % (ce, su, lv)
        ctx.add('versions', label)
        check_version(ctx, None, tg, B, D, label)
    B, D = R.load_tables()
    tg = TableGroupCacheManager.get_table_group(master_table_version=33)
    random_lists(ctx, tg, B, D)
    undefined_cases(ctx, dec, B, D)
    version_selection(ctx, dec)
    cross_version(ctx)
    cli_tables(ctx)
    with_extra_entries(ctx)
    if ctx.shard < 4 or not ctx.quick:
        ncep_entries_stay(ctx)
    definitions_in_force_when_delivered(ctx)


def definitions_in_force_when_delivered(ctx):
    """Entries carried by an in-stream definition message are part of the tables from the moment that message has been delivered:
    a template built from the loop body of the scan, while the scan is suspended at the definition message, already uses them (a
    new sequence expands to its defined members, a re-defined one to its new members) - as does one built after the scan was left
    at that point.  (Last step of a shard: registered entries are never removed.)"""
    from pybufrkit.tables import TableGroupCacheManager
    from pybufrkit.descriptors import flat_member_ids
    from pybufrkit.decoder import Decoder, generate_bufr_message
    from mon.checks.c20 import build_definition
    rng = ctx.rng
    B, D = R.load_tables(0, 0, 0, 33, 0)
    B, D = dict(B), dict(D)
    e1, e2 = 52000 + 10 * ctx.shard + 1, 52000 + 10 * ctx.shard + 2
    sq = 352000 + 10 * ctx.shard + 1
    rounds = [([(e1, ('VERIF E1', 'K', 1, -100, 12)), (e2, ('VERIF E2', 'CODE TABLE', 0, 0, 5))], [(sq, ('VERIF SEQUENCE', [1001, e1, e2]))], [1001, e1, e2], (1, -100, 12)),
              ([(e1, ('VERIF E1 AGAIN', 'K', 2, 0, 16))], [(sq, ('VERIF SEQUENCE', [e2, 12001, e1, e1]))], [e2, 12001, e1, e1], (2, 0, 16))]
    for rno, (b_entries, d_entries, members, attrs) in enumerate(rounds):
        try:
            dm = build_definition(rng, B, D, 33, b_entries, d_entries, 4, 7 + rno)
        except Exception as e:
            ctx.notes.append('definitions_in_force: definition message not built: %r' % (e,))
            return
        for eid, ent in b_entries:
            B[eid] = ent
        for sid, (nm, mem) in d_entries:
            D[sid] = list(mem)
        how = ['suspended', 'left'][rno % 2]
        spec = dict(part='definitions-in-force', round=rno, how=how, stream_hex=dm.bytes.hex())
        try:
            gen = generate_bufr_message(Decoder(), dm.bytes + b'\r\r\n')
            m = next(gen)
            if how == 'left':
                gen.close()
            tg = TableGroupCacheManager.get_table_group(master_table_version=33)
            got = list(flat_member_ids(tg.template_from_ids(sq)))
            el = tg.lookup(e1)
            got_attrs = (el.scale, el.refval, el.nbits)
        except Exception as e:
            ctx.violate('definitions-in-force/raises:%s/%s' % (type(e).__name__, how), 'building a template from the entries of a definition message '
                        'that has been delivered (scan %s at it) raised %s: %s' % (how, type(e).__name__, str(e)[:120]), spec, exc=e)
            return
        ctx.count('definition_entries_used_while_scan_suspended')
        ctx.evaluated(('definitions-in-force', rno, ctx.shard), True)
        if got != members or got_attrs != attrs:
            ctx.violate('definitions-in-force/%s/%s' % ('sequence-members' if got != members else 'element-attributes', how),
                        'with the scan %s at the definition message (round %d), sequence %06d expands to %r (defined: %r), element %06d has %r (defined: %r)'
                        % (how, rno, sq, got, members, e1, got_attrs, attrs), spec)
            return
        if how == 'suspended':
            try:
                list(gen)
            except Exception:
                pass


def replay(ctx, case):
    run(ctx)
