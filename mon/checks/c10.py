"""C10 - subsetting keeps exactly the selected subsets and nothing else changes.

Oracle (direct): D(E(msg.subset(I)))[j] == D(msg)[sorted(set(I))[j]] (all-ones == missing, strings
space-padded, DESIGN 2.6/2.7), n_subsets == |set(I)|, template / identification metadata /
compression flag unchanged, digest of the source message unchanged by subset+encode, indices -1 and
n refused.  The CLI `subset` command is driven in-process on a sample.
"""
import glob
import itertools
import json
import os
import shutil

from mon import refbufr as R
from mon import handover, midscan
from mon.compare import td_of, jsonable, diff_message
from mon.gen import cases
from mon.gen.shapes import EdgePolicy

ID = 'C10'
LEVEL = 'exploration'
TECHNIQUE = 'runtime monitoring: subset -> encode -> decode of the real code compared with the selection; source-message digest contract'
RULE = ('R-produced messages (compressed and not, 1-12 subsets, random templates with replication counts and '
        'bitmaps differing per subset when uncompressed) and multi-subset sample files x index collections: '
        'every non-empty subset of 0..n-1 for n<=4 each also in a permuted-with-repeat variant, and for larger n '
        'singletons, first/last, full, reversed, shuffled, with repeats, off by one; non-trivial = the collection '
        'is not the identity; distinct by SHA-1 of (message bytes, index list); same-layout-different-bitmap subsets; `pybufrkit subset` also with -t <tables root>')
RULE += '; added with rounds 10-12: selections made from the loop body of a running scan on the scanning decoder, for messages with the same ids under another table version; CLI index lists with blanks / other order / repeats, negative and too large indices refused; twins'
ASSUMPTIONS = ['all-ones == missing across an encode (2.6): accepted only when R\'s field metadata confirms the value is the all-ones pattern',
               'strings compared space-padded (2.7)', 'any exception counts as "refused" for out-of-range indices',
               'numeric fields wider than 48 bits with positive scale are not generated (float input cannot carry them)']
BUDGET = {'quick': 45, 'thorough': 600}
QUOTA = {'quick': 60, 'thorough': 1200}
REQUIRED = {'quick': {'evaluations': 1500, 'compressed_pairs': 400, 'uncompressed_pairs': 400, 'repeat_collections': 300,
                      'out_of_range_refused': 200, 'valid_selection_after_refusal': 200, 'source_digest_checks': 1500, 'exhaustive_small_n_messages': 30,
                      'cli_subset_runs': 4},
            'thorough': {'evaluations': 30000, 'compressed_pairs': 8000, 'uncompressed_pairs': 8000,
                      'repeat_collections': 6000, 'out_of_range_refused': 4000, 'valid_selection_after_refusal': 4000, 'source_digest_checks': 30000,
                      'exhaustive_small_n_messages': 600, 'cli_subset_runs': 60}}


def anchors():
    from pybufrkit.bufr import BufrMessage
    from pybufrkit.encoder import Encoder
    return [BufrMessage.subset, Encoder.process_numeric_compressed, Encoder.process_codeflag_compressed,
            Encoder.process_string_compressed]


def digest(m):
    td = td_of(m)
    secs = []
    for s in m.sections:
        for p in s:
            if p.name != 'template_data':
                secs.append((p.name, repr(p.value)))
    return (repr(td.decoded_values_all_subsets), [[str(d) for d in ds] for ds in td.decoded_descriptors_all_subsets],
            repr(td.bitmap_links_all_subsets), secs, m.serialized_bytes)


def metadata(m):
    out = []
    for s in m.sections:
        idx = s.get_metadata('index')
        if idx > 3:
            continue
        for p in s:
            if p.name in ('length', 'section_length', 'n_subsets'):
                continue
            out.append((idx, p.name, repr(p.value)))
    return out


def all_ones_value(meta):
    from fractions import Fraction
    kind, w, s, r = meta
    if kind in ('n',):
        return Fraction((1 << w) - 1 + r) / (Fraction(10) ** s)
    if kind in ('c', 'a', 'k'):
        return (1 << w) - 1
    return None


def same_value(a, b, meta):
    """a from the source decode, b after subset+encode+decode."""
    if a == b and type(a) == type(b):
        return True
    if isinstance(a, (int, float)) and isinstance(b, (int, float)) and not isinstance(a, bool) and a == b:
        return True
    if isinstance(a, bytes) and isinstance(b, bytes):
        n = max(len(a), len(b))
        if a.ljust(n) == b.ljust(n):
            return True
        # all-ones string == missing
        return False
    if b is None and a is not None and meta is not None:
        if isinstance(a, bytes):
            return a == b'\xff' * len(a)
        ao = all_ones_value(meta)
        if ao is not None and meta[1] > 1:
            from mon.compare import close
            return close(a, ao)
    if isinstance(a, float) and isinstance(b, float):
        return abs(a - b) <= 4 * abs(a) * 2.3e-16
    return False


def collections_for(n, rng, quick):
    out = []
    if n <= 4:
        for r in range(1, n + 1):
            for comb in itertools.combinations(range(n), r):
                out.append(('exh', list(comb)))
                v = list(comb) + [rng.choice(comb)]
                rng.shuffle(v)
                out.append(('exh-perm-repeat', v))
    else:
        out.append(('first', [0]))
        out.append(('last', [n - 1]))
        out.append(('full', list(range(n))))
        out.append(('reversed', list(range(n - 1, -1, -1))))
        for _ in range(3 if quick else 8):
            k = rng.randint(1, n)
            out.append(('sample', rng.sample(range(n), k)))
            v = [rng.randrange(n) for _ in range(rng.randint(2, n + 2))]
            out.append(('repeats', v))
        out.append(('tuple', tuple(rng.sample(range(n), max(1, n // 2)))))
    return out


def unbundled_local_tables(m):
    """True when the message selects local tables (local version != 0) whose <centre>_<subcentre>/<version> directory is
    not among the bundled tables (judged from the directory listing, not through the library)"""
    try:
        lv = m.local_table_version.value
        if not lv:
            return False
        root = os.path.join(os.environ.get('VERIF_REPO', '/repo'), 'pybufrkit', 'tables', str(m.master_table_number.value))
        return not os.path.isdir(os.path.join(root, '%d_%d' % (m.originating_centre.value, m.originating_subcentre.value), str(lv)))
    except Exception:
        return False


def check_pairs(ctx, dec, enc, b, rmeta, spec, origin):
    """b: message bytes; rmeta: per-subset list of R field meta (or None)."""
    rng = ctx.rng
    try:
        m = dec.process(b)
    except Exception:
        ctx.count('source_decode_raises')
        return
    td = td_of(m)
    n = m.n_subsets.value
    comp = bool(m.is_compressed.value)
    if len(b) < 20000:
        # subset() hands out the source's own rows: the source stays what it was whatever is done with the selection, and a
        # selection encodes to the same message whatever other encoders exist in the process (interference steps)
        handover.on_message(ctx, b, spec, site=origin, p=0.3)
        if handover._rng(ctx).random() < 0.15:
            handover.interference(handover._rng(ctx))
            ctx.count('interference_steps')
    src_vals = [list(v) for v in td.decoded_values_all_subsets]
    src_labels = [[str(d) for d in ds] for ds in td.decoded_descriptors_all_subsets]
    src_meta = metadata(m)
    dg0 = digest(m)
    if n <= 4:
        ctx.count('exhaustive_small_n_messages')
    mode = 'c' if comp else 'u'
    for kind, I in collections_for(n, rng, ctx.quick):
        sel = sorted(set(I))
        identity = list(I) == list(range(n))
        cspec = dict(spec, indices=list(I), kind=kind)
        repeated = len(set(I)) != len(I)
        rk = 'repeats' if repeated else ('unsorted' if list(I) != sel else 'sorted')
        ctx.evaluated((spec.get('hex', spec.get('file', ''))[:200], len(b), list(I)), not identity,
                      sample=dict(origin=origin, n_subsets=n, compressed=comp, indices=list(I),
                                  ids=spec.get('ids', spec.get('file'))))
        ctx.count('compressed_pairs' if comp else 'uncompressed_pairs')
        if repeated:
            ctx.count('repeat_collections')
        ctx.add('collection_kinds', kind)
        try:
            data = m.subset(I)
            nb = enc.process(data)
            m2 = dec.process(nb.serialized_bytes)
        except Exception as e:
            sig = 'subset-roundtrip-raises:%s/%s/%s' % (type(e).__name__, mode, rk)
            if isinstance(e, OSError) and unbundled_local_tables(m):
                # mechanism: the message names local tables of a sub-centre that is not bundled; the decoder falls back to
                # <centre>_0, the encoder (normalize=0) looks for the exact directory and fails with an OSError
                sig = 'subset-encode-refused/local-tables-of-subcentre-not-bundled'
                ctx.count('subset_of_message_with_unbundled_local_tables')
            ctx.violate(sig, 'subset(%r) -> encode -> decode raised %s: %s' % (list(I), type(e).__name__, str(e)[:120]),
                        cspec, exc=e)
            continue
        # "gives a valid message": framed as FM-94 prescribes (independent frame parser; even section lengths up to edition 3)
        out = nb.serialized_bytes
        try:
            fr = R.parse_frame(out)
            bad = None
            if out[:4] != b'BUFR' or out[-4:] != b'7777' or fr.total != len(out) or fr.end != len(out):
                bad = 'signatures / total length'
            elif m.edition.value <= 3 and any(fr.sections[k][1] % 2 for k in (1, 2, 3, 4) if k in fr.sections):
                bad = 'odd section length in edition %d' % m.edition.value
        except Exception as e:
            bad = 'sections do not tile the message: %r' % (e,)
        ctx.count('result_framing_checks')
        if bad:
            ctx.violate('subset-result-not-a-valid-message/%s' % mode, 'subset(%r): encoded result is not well framed: %s' % (list(I), bad), cspec)
            continue
        ctx.count('source_digest_checks')
        if digest(m) != dg0:
            ctx.violate('source-message-modified/%s' % mode, 'the source message changed after subset(%r)+encode' % (list(I),), cspec)
            return
        if m2.n_subsets.value != len(sel):
            ctx.violate('n_subsets-wrong/%s/%s' % (mode, rk), 'n_subsets is %d for %d distinct indices %r'
                        % (m2.n_subsets.value, len(sel), list(I)), cspec)
            continue
        if metadata(m2) != src_meta:
            diff = [(x, y) for x, y in zip(metadata(m2), src_meta) if x != y][:3]
            ctx.violate('metadata-changed/%s/%s' % (mode, diff[0][0][1] if diff else 'count'),
                        'sections 0-3 changed by subsetting: %r' % (diff,), cspec)
            continue
        td2 = td_of(m2)
        if len(td2.decoded_values_all_subsets) != len(sel):
            ctx.violate('subset-count-wrong/%s/%s' % (mode, rk), 'decoded %d subsets for %d distinct indices'
                        % (len(td2.decoded_values_all_subsets), len(sel)), cspec)
            continue
        bad = None
        for j, k in enumerate(sel):
            v2 = td2.decoded_values_all_subsets[j]
            l2 = [str(d) for d in td2.decoded_descriptors_all_subsets[j]]
            if l2 != src_labels[k]:
                bad = ('labels', j, k, None)
                break
            if len(v2) != len(src_vals[k]):
                bad = ('length', j, k, None)
                break
            for i, (a, bb) in enumerate(zip(src_vals[k], v2)):
                me = rmeta[k][i] if rmeta is not None and k < len(rmeta) and i < len(rmeta[k]) else None
                if not same_value(a, bb, me):
                    if bb is None and a is not None and me is None:
                        ctx.count('all_ones_unverifiable')
                        continue
                    bad = ('values', j, k, (i, a, bb))
                    break
            if bad:
                break
        if bad:
            ctx.violate('selection-differs/%s/%s/%s' % (bad[0], mode, rk),
                        'subset %d of the result (source index %d) differs in %s: %r (indices %r)'
                        % (bad[1], bad[2], bad[0], jsonable(bad[3]), list(I)), cspec)
    # out of range by one
    for I in ([-1], [n], [0, n], [n - 1, -1] if n > 0 else [-1], [-1, 0], [-1, 0, n - 1], [n, 0], [-n - 1, 0], [0, n + 5]):
        try:
            data = m.subset(I)
            enc.process(data)
        except Exception as e:
            ctx.count('out_of_range_refused')
            ctx.add('out_of_range_exceptions', type(e).__name__)
            # a refused selection leaves the source as it was, and the next valid selection on the same message, encoder and
            # decoder still gives the selected subsets
            if digest(m) != dg0:
                ctx.violate('source-message-modified/after-refusal/%s' % mode,
                            'the source message changed after the refused subset(%r)' % (I,), dict(spec, indices=I))
                return
            if n > 0:
                k = rng.randrange(n)
                try:
                    m3 = dec.process(enc.process(m.subset([k])).serialized_bytes)
                    td3 = td_of(m3)
                    ok = (len(td3.decoded_values_all_subsets) == 1
                          and [str(d) for d in td3.decoded_descriptors_all_subsets[0]] == src_labels[k]
                          and len(td3.decoded_values_all_subsets[0]) == len(src_vals[k])
                          and all(same_value(a, bb, None) or bb is None
                                  for a, bb in zip(src_vals[k], td3.decoded_values_all_subsets[0])))
                except Exception as e2:
                    if isinstance(e2, OSError) and unbundled_local_tables(m):
                        continue
                    ok = False
                ctx.count('valid_selection_after_refusal')
                if not ok:
                    ctx.violate('selection-differs/after-refusal/%s' % mode,
                                'subset([%d]) after the refused subset(%r) does not give source subset %d' % (k, I, k),
                                dict(spec, indices=I, then=[k]))
                    return
            continue
        ctx.evaluated((len(b), 'oor', I), True)
        ctx.violate('out-of-range-accepted/%s' % ('negative' if min(I) < 0 else 'too-large'),
                    'subset(%r) on a message with %d subsets was not refused' % (I, n), dict(spec, indices=I))


def too_wide(msg):
    return any(me and me[0] == 'n' and me[2] > 0 and me[1] > 48 for s in msg.subsets for me in s.meta)


def cli_subset(ctx, dec, b, spec, scratch, tag):
    from mon.cli import run_cli
    m = dec.process(b)
    n = m.n_subsets.value
    if n < 2:
        return
    I = sorted(set([0, n - 1, n // 2]))
    src = os.path.join(scratch, 'in_%s.bufr' % tag)
    dst = os.path.join(scratch, 'out_%s.bufr' % tag)
    with open(src, 'wb') as f:
        f.write(b)
    so, se, exc, code = run_cli(['subset', ','.join(str(i) for i in I), src, dst])
    if exc is not None or se.strip() or not os.path.exists(dst):
        sig = 'cli-subset-fails'
        if exc is None and 'No such file or directory' in se and unbundled_local_tables(m):
            sig = 'subset-encode-refused/local-tables-of-subcentre-not-bundled'   # same mechanism through the command
        ctx.violate(sig, 'pybufrkit subset failed: %r %s' % (exc, se[:150]), dict(spec, indices=I))
        return
    ctx.count('cli_subset_runs')
    m2 = dec.process(open(dst, 'rb').read())
    want = [td_of(m).decoded_values_all_subsets[k] for k in I]
    got = td_of(m2).decoded_values_all_subsets
    if len(got) != len(want) or any(len(a) != len(c) for a, c in zip(want, got)):
        ctx.violate('cli-subset-differs', 'CLI subset %r wrote %d subsets' % (I, len(got)), dict(spec, indices=I))
        return
    # the index list as a shell hands it over when it is quoted: blanks around the numbers, another order, a repeat; and an index
    # that is out of range (a negative one as well) is refused by the command as it is by subset()
    ref = open(dst, 'rb').read()
    for text in (', '.join(str(i) for i in I), ' ' + ','.join(str(i) for i in reversed(I)), ' , '.join(str(i) for i in I + [I[0]]) + ' '):
        os.remove(dst)
        so, se, exc, code = run_cli(['subset', text, src, dst])
        ctx.count('cli_subset_index_list_forms')
        out = open(dst, 'rb').read() if os.path.exists(dst) else None
        if exc is not None or se.strip() or out is None:
            # (a form the command refuses is not judged ...)
            ctx.count('cli_subset_index_list_form_refused')
            continue
        if out != ref:
            ctx.violate('cli-subset-differs/index-list-form', 'pybufrkit subset %r writes another message than subset %r' % (text, ','.join(str(i) for i in I)),
                        dict(spec, indices=I, index_list=text))
            break
    for text in ('0,-1', '0,%d' % n, '-1'):
        if os.path.exists(dst):
            os.remove(dst)
        so, se, exc, code = run_cli(['subset', text, src, dst])
        ctx.count('cli_subset_out_of_range_lists')
        if exc is None and not se.strip() and os.path.exists(dst):
            ctx.violate('cli-subset-accepts-out-of-range', 'pybufrkit subset %r on a message of %d subsets wrote a message without any error' % (text, n),
                        dict(spec, index_list=text))
            break


def cli_subset_alt_tables(ctx, scratch):
    """`pybufrkit -t <tables root> subset ...`: decoder AND encoder of the command work with the given tables"""
    from mon.cli import run_cli, alt_tables_root, alt_message
    from pybufrkit.decoder import Decoder
    root = alt_tables_root(scratch)
    decalt = Decoder(tables_root_dir=root)
    for comp in (False, True):
        msg = alt_message(ctx.rng, root, nsub=4, compressed=comp)
        src = os.path.join(scratch, 'alt_in_%d.bufr' % comp)
        dst = os.path.join(scratch, 'alt_out_%d.bufr' % comp)
        with open(src, 'wb') as f:
            f.write(msg.bytes)
        spec = dict(origin='alt-tables', compressed=comp, hex=msg.bytes.hex(), indices=[2, 0])
        ctx.count('cli_subset_alt_tables_runs')
        ctx.evaluated(('cli-alt', msg.bytes.hex()), True)
        so, se, exc, code = run_cli(['-t', root, 'subset', '2,0', src, dst])
        if exc is not None or se.strip() or not os.path.exists(dst):
            ctx.violate('cli-subset-fails/tables-root-option', 'pybufrkit -t <root> subset failed: %r %s' % (exc, se[:150]), spec)
            continue
        try:
            want = [td_of(decalt.process(msg.bytes)).decoded_values_all_subsets[k] for k in (0, 2)]
            got = td_of(decalt.process(open(dst, 'rb').read())).decoded_values_all_subsets
        except Exception as e:
            ctx.violate('cli-subset-differs/tables-root-option', 'output of pybufrkit -t <root> subset cannot be decoded with those tables: %r' % (e,), spec)
            continue
        if repr(got) != repr(want):
            ctx.violate('cli-subset-differs/tables-root-option', 'pybufrkit -t <root> subset 2,0 wrote %r, the selected subsets are %r'
                        % (got, want), spec)


def run(ctx):
    from pybufrkit.decoder import Decoder
    from pybufrkit.encoder import Encoder
    dec, enc = Decoder(), Encoder()
    rng = ctx.rng
    scratch = os.path.join(os.environ.get('VERIF_SCRATCH', '/verif/.scratch'), 'c10-%d' % ctx.shard)
    os.makedirs(scratch, exist_ok=True)
    try:
        # corpus: multi-subset files
        repo = os.environ.get('VERIF_REPO', '/repo')
        # (quick: tests/data plus one benchmark file that names local tables of an unbundled sub-centre - known finding)
        files = sorted(glob.glob(os.path.join(repo, 'tests', 'data', '*.bufr')) +
                       (glob.glob(os.path.join(repo, 'tests', 'benchmark_data', 'aaen_55.bufr')) if ctx.quick
                        else glob.glob(os.path.join(repo, 'tests', 'benchmark_data', '*.bufr'))))
        for i, f in enumerate(files):
            if not ctx.mine(i):
                continue
            name = os.path.basename(f)
            if name in ('multi_invalid_messages.bufr', 'prepbufr.bufr'):
                continue
            b = open(f, 'rb').read()
            try:
                r = R.decode(b)
                rmeta = [s.meta for s in r['subsets']]
            except Exception:
                rmeta = None
            ctx.count('corpus_messages')
            check_pairs(ctx, dec, enc, b, rmeta, dict(origin='corpus', file=name), 'corpus')
            if i % 5 == 0:
                try:
                    cli_subset(ctx, dec, b, dict(origin='corpus', file=name), scratch, 'f%d' % i)
                except Exception as e:
                    ctx.count('cli_harness_skip')
        if ctx.shard % 4 == 0:
            cli_subset_alt_tables(ctx, scratch)
        for bi, (name, msg) in enumerate(cases.big_cases(rng)):
            if ctx.mine(bi) and msg.nsub > 1:
                ctx.count('big_cases')
                check_pairs(ctx, dec, enc, msg.bytes, [s_.meta for s_ in msg.subsets],
                            dict(origin='big', shape=name, ids=msg.ids, nsub=msg.nsub, compressed=msg.compressed), 'big')
        k = 0
        for nsub in (3, 4, 5):
            for name, msg in cases.same_layout_cases(rng, nsub=nsub):
                k += 1
                if not ctx.mine(k):
                    continue
                ctx.count('same_layout_cases')
                check_pairs(ctx, dec, enc, msg.bytes, [s.meta for s in msg.subsets],
                            dict(origin='shape', shape=name, ids=msg.ids, nsub=nsub, compressed=False, hex=msg.bytes.hex()), 'shape')
        mid_scan_selections(ctx)
        q = 0
        while q < QUOTA[ctx.tier] and ctx.more():
            q += 1
            mtv = rng.choice(cases.MTVS)
            g = cases.gen_for(mtv, rng, pclose=0.8)
            ids = g.template(ptail=0.35)
            comp = q % 2 == 0
            nsub = [1, 2, 3, 4, 4, 3, 6, 9, 12][q % 9]
            Bv, Dv = cases.tables(mtv)
            pol = EdgePolicy(rng, phase=q) if q % 3 == 0 else R.Policy(rng)
            try:
                msg = R.build_message(ids, Bv, Dv, pol, nsub, comp, rng.choice([2, 3, 4]),
                                      dict(master_table_version=mtv, data_category=rng.randrange(256),
                                           originating_centre=rng.randrange(256), year=2000 + rng.randrange(25)),
                                      rng.choice([None, None, b'ab']))
            except R.Unsupported:
                ctx.count('gen_unsupported')
                continue
            if too_wide(msg):
                continue
            spec = dict(origin='random', ids=ids, nsub=nsub, compressed=comp, mtv=mtv, hex=msg.bytes.hex())
            check_pairs(ctx, dec, enc, msg.bytes, [s.meta for s in msg.subsets], spec, 'random')
            if q % 13 == 1 and nsub > 1:
                cli_subset(ctx, dec, msg.bytes, spec, scratch, 'r%d' % q)
    finally:
        shutil.rmtree(scratch, ignore_errors=True)


def mid_scan_selections(ctx):
    """subset -> encode -> decode made from the loop body of a running scan (the decoder that is scanning also decodes the encoded
    selection), for messages that share their descriptor list with the scanned ones but name ANOTHER table version under which an
    element is defined differently: the selection still decodes to the chosen subsets of its own message"""
    from pybufrkit.decoder import Decoder
    from pybufrkit.encoder import Encoder
    rng = ctx.rng
    pairs = cases.version_sensitive_pairs()
    if not pairs:
        return
    for rep in range(2 if ctx.quick else 10):
        e, va, vb = rng.choice(pairs)
        sets = []
        try:
            for v in (va, vb):
                Bv, Dv = cases.tables(v)
                part = []
                for j in range(3):
                    comp = bool((j + rep) % 2)
                    msg = R.build_message(cases.pair_ids(e, 'plain'), Bv, Dv, R.Policy(rng), 3, comp, 4,
                                          dict(master_table_version=v, update_sequence_number=j))
                    part.append((msg.bytes, msg))
                sets.append(part)
        except (R.Unsupported, KeyError):
            continue
        cell = {}

        def make():
            cell['dec'] = Decoder()
            return cell['dec']

        def judge(kind, m, msg, opts):
            if kind != 'full':
                return None
            I = rng.choice([[0], [2, 0], [1, 2], [0, 1, 2]])
            sel = sorted(set(I))
            try:
                b2 = Encoder().process(m.subset(I)).serialized_bytes
                m2 = cell['dec'].process(b2)
            except Exception as ex:
                return ('selection-round-trip-raises:%s' % type(ex).__name__, 'subset(%r) -> encode -> decode raises %s' % (I, type(ex).__name__))
            d = diff_message(m2, [msg.subsets[i] for i in sel])
            if d:
                return ('selection-round-trip-%s-differ' % d[1], 'subset(%r) -> encode -> decode: %s differ from the chosen subsets: %r' % (I, d[1], jsonable(d[2:])))
            return None
        ctx.count('mid_scan_selection_blocks')
        midscan.scenarios(ctx, 'subset', make, sets[0], sets[1], judge, dict(origin='mid-scan', element=e, versions=[va, vb]),
                          which=['alternate', 'nested-process', 'nested-scan', 'abandoned'])


def replay(ctx, case):
    from pybufrkit.decoder import Decoder
    from pybufrkit.encoder import Encoder
    spec = case['case']
    if 'hex' in spec:
        b = bytes.fromhex(spec['hex'])
    else:
        repo = os.environ.get('VERIF_REPO', '/repo')
        p = os.path.join(repo, 'tests', 'data', spec['file'])
        if not os.path.exists(p):
            p = os.path.join(repo, 'tests', 'benchmark_data', spec['file'])
        b = open(p, 'rb').read()
    try:
        rmeta = [s.meta for s in R.decode(b)['subsets']]
    except Exception:
        rmeta = None
    check_pairs(ctx, Decoder(), Encoder(), b, rmeta, spec, 'replay')
