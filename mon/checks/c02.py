"""C02 - encoding produces the canonical FM-94 bit stream for the given values.

Oracle: the same R-produced cases as C01 in the other direction.  R's expected values become the
user-level flat JSON, the real Encoder encodes them; uncompressed output must be byte-identical to
R's independently constructed message, compressed output is parsed by R's column reader: raws
reconstructed exactly, all-ones increment <=> missing, width 0 <=> all subsets agree, zero padding,
exact declared lengths, sections 1-3 byte-identical.
"""
import json

from mon import refbufr as R
from mon.compare import opsig, jsonable
from mon.gen import cases
from mon import handover, forms

ID = 'C02'
LEVEL = 'exploration'
TECHNIQUE = 'runtime monitoring: real encoder output checked against an independently constructed message / independent column reader'
RULE = ('R-produced cases (mandatory edge shapes + random templates, editions 2-4, 1-5 subsets, '
        'compressed or not); the values R expects are fed to the real Encoder; non-trivial when the '
        'encoder returned and the template has an operator, replication, compression or a missing '
        'value; distinct by SHA-1 of R\'s message bytes; strings also given without trailing blanks down to \'\'; a second long-lived encoder with template compilation on for scoped templates; pairs of messages with one descriptor list under two table versions / local tables')
RULE += '; added with rounds 10-12: re-entrant encodes (a value row computed when first read runs another encode on the same Encoder); the values in other forms (parsed lists, tuples, 5 for 5.0, indented / compact JSON text, UTF-8 octets with and without BOM); twins'
ASSUMPTIONS = ['R (mon/refbufr) is a correct reading of FM-94 for the shapes of DESIGN appendix A',
               'minimal difference width is not demanded (the statement does not)',
               'numeric fields wider than 48 bits with positive scale are skipped (float input cannot carry them)']
BUDGET = {'quick': 45, 'thorough': 600}
QUOTA = {'quick': 1100, 'thorough': 12000}
REQUIRED = {'quick': {'evaluations': 2000, 'uncompressed_identical': 800, 'compressed_checked': 500, 'shape_cases': 100},
            'thorough': {'evaluations': 40000, 'uncompressed_identical': 15000, 'compressed_checked': 10000,
                      'shape_cases': 100}}


def anchors():
    from pybufrkit.encoder import Encoder, nbits_for_uint
    return [Encoder.process_numeric_compressed, Encoder.process_codeflag_compressed,
            Encoder.process_string_compressed, Encoder.process_section, Encoder.process,
            nbits_for_uint]


def user_values(msg, rng):
    """R's exact values -> user JSON values. Strings are often given without their trailing blanks -
    down to the empty string for an all-blank field - (the encoder must pad), all-ones strings
    sometimes as None.  For compressed data the choice is made per column, so that subsets which agree
    after padding are also given identical values."""
    out = []
    strip_col = {}
    for s in msg.subsets:
        row = []
        for j, (v, m) in enumerate(zip(s.values, s.meta)):
            x = R.to_json_value(v, m)
            if isinstance(v, bytes):
                if msg.compressed:
                    if j not in strip_col:
                        strip_col[j] = rng.random() < 0.5
                    strip = strip_col[j]
                else:
                    strip = rng.random() < 0.5
                if v and v == b'\xff' * len(v) and not msg.compressed and rng.random() < 0.5:
                    x = None
                elif strip and not v.endswith(b'\xff'):
                    x = v.rstrip(b' ').decode('latin-1')
            row.append(x)
        out.append(row)
    return out


def too_wide(msg):
    for s in msg.subsets:
        for m in s.meta:
            if m and m[0] == 'n' and m[2] > 0 and m[1] > 48:
                return True
    return False


def first_diff(a, b):
    for i, (x, y) in enumerate(zip(a, b)):
        if x != y:
            return i
    return min(len(a), len(b))


def check_case(ctx, enc, msg, origin, name=None, label='plain', self_ok=None):
    if too_wide(msg):
        ctx.count('skipped_too_wide')
        return
    if not (cases.self_consistent(msg) if self_ok is None else self_ok):
        ctx.count('r_self_fail')
        return
    spec = dict(origin=origin, shape=name, ids=msg.ids, nsub=msg.nsub, compressed=msg.compressed,
                edition=msg.edition, hex=msg.bytes.hex())
    vals = user_values(msg, ctx.rng)
    fj = R.flat_json(msg, vals)
    spec['flat_json'] = jsonable(fj)
    mode = ('c' if msg.compressed else 'u') + ('' if label == 'plain' else '/' + label)
    nontrivial = bool(msg.ops) or msg.compressed or any(i // 100000 == 1 for i in msg.ids) or any(
        v is None for s in msg.subsets for v in s.values)
    try:
        out = enc.process(json.dumps(fj)).serialized_bytes
    except Exception as e:
        ctx.evaluated(msg.bytes.hex(), False)
        ctx.violate('encode/%s/exception:%s/ops[%s]' % (mode, type(e).__name__, opsig(msg.ids)),
                    'encoder refused conforming values: %s: %s' % (type(e).__name__, str(e)[:160]),
                    spec, exc=e)
        return
    ctx.evaluated(msg.bytes.hex() + label, nontrivial, sample=dict(origin=origin, shape=name, ids=msg.ids,
                                                           nsub=msg.nsub, compressed=msg.compressed,
                                                           edition=msg.edition))
    for op in msg.ops:
        ctx.add('operators', op)
    ctx.add('editions', msg.edition)
    if label == 'plain' and ctx.counters['evaluations'] % 5 == 0:
        # the same values given in the other forms a caller may use (parsed lists, tuples, 5 for 5.0, indented text)
        forms.encoder_forms(ctx, json.loads(json.dumps(fj)), 'encode/' + mode, dict(spec, origin=origin))
    if label == 'plain':
        # the message object the Encoder returns for python lists, and the lists themselves, taken through further operations:
        # every later encoding still gives these bytes
        handover.on_flat_json(ctx, json.dumps(fj), spec, site=origin)
    if not msg.compressed:
        if out == msg.bytes:
            ctx.count('uncompressed_identical')
        else:
            i = first_diff(out, msg.bytes)
            fr = R.parse_frame(msg.bytes)
            sec = max(k for k in fr.order if fr.sections[k][0] <= i)
            ctx.violate('encode/%s/bytes-differ/section%d/ops[%s]' % (mode, sec, opsig(msg.ids)),
                        'encoder output differs from the independently constructed message at octet %d '
                        '(section %d): %s vs %s' % (i, sec, out[i:i + 4].hex(), msg.bytes[i:i + 4].hex()),
                        spec, expected=msg.bytes.hex(), observed=out.hex())
        return
    # compressed: R's reader over the encoder's bytes
    try:
        r = R.decode(out)
    except Exception as e:
        ctx.violate('encode/c/unreadable:%s/ops[%s]' % (type(e).__name__, opsig(msg.ids)),
                    'independent reader cannot read the compressed output: %r' % (e,), spec,
                    observed=out.hex())
        return
    ctx.count('compressed_checked')
    fr, fe = r['frame'], R.parse_frame(msg.bytes)
    problems = []
    if fr.total != len(out) or fr.end != len(out):
        problems.append(('length', 'section 0 length %d, span %d, produced %d' % (fr.total, fr.end, len(out))))
    for k in (1, 2, 3):
        if k in fe.sections:
            a = out[fr.sections[k][0]:fr.sections[k][0] + fr.sections[k][1]] if k in fr.sections else None
            b = msg.bytes[fe.sections[k][0]:fe.sections[k][0] + fe.sections[k][1]]
            if a != b:
                problems.append(('section%d' % k, 'section %d bytes differ' % k))
    if r['stop'] != b'7777':
        problems.append(('stop', 'no 7777'))
    if r['padding_value'] != 0:
        problems.append(('padding', 'non-zero padding bits'))
    if r['padding_bits'] >= (16 if msg.edition <= 3 else 8):
        problems.append(('padding', 'more padding than needed: %d bits' % r['padding_bits']))
    if len(r['subsets']) != msg.nsub:
        problems.append(('nsubsets', 'subset count'))
    else:
        for k, (a, b) in enumerate(zip(msg.subsets, r['subsets'])):
            if a.labels != list(b.labels):
                problems.append(('labels', 'labels differ in subset %d' % k))
                break
            bad = [j for j, (x, y) in enumerate(zip(a.raws, b.raws)) if x != y and not (
                isinstance(x, bytes) and isinstance(y, bytes) and x.ljust(len(y)) == y.ljust(len(x)))]
            if bad:
                j = bad[0]
                problems.append(('raws/%s' % (a.meta[j][0] if a.meta[j] else '?'),
                                 'column %d (%s) subset %d reconstructs %r, expected %r' % (
                                     j, a.labels[j], k, b.raws[j], a.raws[j])))
                break
        # width 0 <=> all subsets agree
        nbs = r['nbs']
        if not problems and nbs:
            n = msg.nsub
            for j, nb in enumerate(nbs):
                if nb is None:
                    continue
                col = [s.raws[j] for s in msg.subsets]
                same = all(c == col[0] for c in col)
                ctx.add('increment_widths', nb)
                if (nb == 0) != same:
                    problems.append(('width0', 'column %d: increment width %d but all-equal=%s' % (j, nb, same)))
                    break
    for key, what in problems[:1]:
        ctx.violate('encode/c/%s/ops[%s]' % (key, opsig(msg.ids)),
                    'compressed output wrong: ' + what, spec, observed=out.hex())


REFUSED_INPUTS = [
    # value out of range in the middle of the data section / too few values / unknown table version / malformed header
    [['BUFR', 0, 4], [0, 0, 0, 0, 0, False, '0000000', 0, 0, 0, 33, 0, 2020, 1, 1, 0, 0, 0],
     [0, '00000000', 1, True, False, '000000', [1001, 12001, 1001]], [0, '00000000', [[5, 270.0, 99999]]], ['7777']],
    [['BUFR', 0, 4], [0, 0, 0, 0, 0, False, '0000000', 0, 0, 0, 33, 0, 2020, 1, 1, 0, 0, 0],
     [0, '00000000', 2, True, True, '000000', [1001, 101000, 31001, 12001]], [0, '00000000', [[5, 1, 270.0], [6, 2, 271.0, 272.0]]], ['7777']],
    [['BUFR', 0, 4], [0, 0, 0, 0, 0, False, '0000000', 0, 0, 0, 33, 0, 2020, 1, 1, 0, 0, 0],
     [0, '00000000', 1, True, False, '000000', [1001, 12001]], [0, '00000000', [[5]]], ['7777']],
    [['BUFR', 0, 3], [0, 0, 0, 0, 0, False, '0000000', 0, 0]],
]


class _LazyRow(list):
    """a row of values that is computed when it is first read: reading it runs another, complete encode on the SAME encoder"""
    trigger = None

    def _fire(self):
        t, self.trigger = self.trigger, None
        if t is not None:
            t()

    def __getitem__(self, i):
        self._fire()
        return list.__getitem__(self, i)

    def __iter__(self):
        self._fire()
        return list.__iter__(self)


def reentrant_encode(ctx, enc, a, b):
    """Two encodes under way on one Encoder: while message A is being encoded (object form), reading one of its value rows starts and
    finishes the encode of message B on the same Encoder object.  Both results are what a fresh Encoder gives for A and for B
    alone (which check_case compares with the independently constructed bytes)."""
    from pybufrkit.encoder import Encoder
    if too_wide(a) or too_wide(b):
        return
    try:
        fja, fjb = jsonable(R.flat_json(a, user_values(a, ctx.rng))), jsonable(R.flat_json(b, user_values(b, ctx.rng)))
        ta, tb = json.dumps(fja), json.dumps(fjb)
        want_a, want_b = Encoder().process(ta).serialized_bytes, Encoder().process(tb).serialized_bytes
    except Exception:
        ctx.count('reentrant_setup_skipped')
        return
    obj = json.loads(ta)
    rows = obj[-2][-1]
    if not rows or not isinstance(rows, list) or not isinstance(rows[0], list):
        return
    inner = {}
    k = ctx.rng.randrange(len(rows))
    lazy = _LazyRow(rows[k])

    def run_inner():
        try:
            inner['out'] = enc.process(tb).serialized_bytes
        except Exception as e:
            inner['exc'] = e
    lazy.trigger = run_inner
    rows[k] = lazy
    spec = dict(origin='reentrant', ids_outer=a.ids, ids_inner=b.ids, compressed_outer=a.compressed, compressed_inner=b.compressed, lazy_row=k,
                flat_json_outer=fja, flat_json_inner=fjb)
    mode = ('c' if a.compressed else 'u') + ('c' if b.compressed else 'u')
    try:
        out = enc.process(obj).serialized_bytes
    except Exception as e:
        ctx.violate('encode/reentrant/outer-raises:%s/%s' % (type(e).__name__, mode), 'an encode during which another encode ran on the same Encoder raised %r' % (e,), spec, exc=e)
        return
    if 'out' not in inner and 'exc' not in inner:
        ctx.count('reentrant_row_never_read')
        return
    ctx.count('reentrant_encodes')
    ctx.evaluated(('reentrant', ta, tb, k), True)
    if 'exc' in inner:
        ctx.violate('encode/reentrant/inner-raises:%s/%s' % (type(inner['exc']).__name__, mode), 'the encode started while another one was under way on the same Encoder raised %r'
                    % (inner['exc'],), spec, exc=inner['exc'])
    elif inner['out'] != want_b:
        ctx.violate('encode/reentrant/inner-differs/%s' % mode, 'the message encoded while another encode was under way on the same Encoder differs from what a fresh Encoder writes', spec,
                    expected=want_b.hex(), observed=inner['out'].hex())
    elif out != want_a:
        ctx.violate('encode/reentrant/outer-differs/%s' % mode, 'the message during whose encoding another encode ran on the same Encoder differs from what a fresh Encoder writes', spec,
                    expected=want_a.hex(), observed=out.hex())


def provoke_refusal(ctx, *encoders):
    """the encoders are long-lived: what one of them refused must leave no trace in what it encodes next"""
    inp = ctx.rng.choice(REFUSED_INPUTS)
    for e in encoders:
        try:
            e.process(json.dumps(inp))
            ctx.count('refusal_inputs_accepted')
        except Exception:
            ctx.count('refusals_provoked')


def run(ctx):
    from pybufrkit.encoder import Encoder
    from mon.gen.templates import scoped
    enc = Encoder()
    # a second, long-lived encoder with template compilation on: the canonical bit stream does not depend on that option
    # (used where compilation is claimed to preserve behaviour at all: `scoped` templates, C08's proviso)
    encc = Encoder(compiled_template_cache_max=3)
    D33 = cases.tables(33)[1]
    for name, msg in cases.shape_cases(ctx):
        if ctx.counters.get('shape_cases', 0) % 5 == 0:
            provoke_refusal(ctx, enc, encc)
        check_case(ctx, enc, msg, 'shape', name)
        ctx.count('shape_cases')
        ctx.add('shapes', name)
        if scoped(msg.ids, D33):
            ctx.count('compiling_encoder_cases')
            check_case(ctx, encc, msg, 'shape', name, label='compiling-encoder')
    for bi, (name, msg) in enumerate(cases.big_cases(ctx.rng)):
        if ctx.mine(bi):
            check_case(ctx, enc, msg, 'big', name)
            ctx.count('big_cases')
    # same descriptor list, different tables (master version / local tables): one encoder object serves both
    pairs = cases.version_sensitive_pairs(6)
    lpairs = cases.local_sensitive_pairs()
    for it in range(4 if ctx.quick else 40):
        if not ctx.mine(it):
            continue
        form = ['plain', 'marker', 'assoc', 'first-order'][it % 4]
        try:
            if lpairs and it % 2:
                ids, (ma, mb) = cases.local_pair_messages(ctx.rng, ctx.rng.choice(lpairs), compressed=bool(it % 3 == 0), form=form)
            else:
                ids, (ma, mb) = cases.version_pair_messages(ctx.rng, ctx.rng.choice(pairs), compressed=bool(it % 3 == 0), form=form)
        except (R.Unsupported, KeyError):
            continue
        ctx.count('table_sensitive_pairs')
        for m in (ma, mb, ma):
            check_case(ctx, enc, m, 'table-pair', form)
            check_case(ctx, encc, m, 'table-pair', form, label='compiling-encoder')
    n = 0
    prev_case = None
    while n < QUOTA[ctx.tier] and ctx.more():
        n += 1
        c = cases.random_case(ctx)
        if c is None:
            continue
        if n % 7 == 0:
            provoke_refusal(ctx, enc, encc)
        check_case(ctx, enc, c[0], 'random')
        if n % 4 == 1 and prev_case is not None:
            reentrant_encode(ctx, enc, c[0], prev_case)
        prev_case = c[0]
        if n % 3 == 0 and scoped(c[0].ids, cases.tables(c[1])[1]):
            ctx.count('compiling_encoder_cases')
            check_case(ctx, encc, c[0], 'random', label='compiling-encoder')
    if ctx.shard % 4 == 0:
        ncep_encodes(ctx, enc)


def ncep_encodes(ctx, enc):
    """LAST step (process-wide extra entries from here on): with in-stream style definitions registered - among them NCEP-style
    sequences that consist of a replication descriptor and its factor only - the Encoder writes the bit stream R constructs for
    the same lists, each list encoded twice with other lists in between (building one template must not change the next)."""
    from pybufrkit.tables import TableGroupCacheManager
    rng = ctx.rng
    B, D = cases.tables(33)
    Bx, Dx = dict(B), dict(D)
    extra_b = {48001: ['VERIF NCEP ELEMENT A', 'NUMERIC', 1, -100, 12], 48002: ['VERIF NCEP ELEMENT B', 'CCITT IA5', 0, 0, 32]}
    extra_d = {360002: [101000, 31001], 360003: [101000, 31002], 361001: [1001, 360002, 2001], 361002: [360002, 12001],
               361003: [48001, 360003, 361002]}
    for e, v in extra_b.items():
        Bx[e] = type(next(iter(B.values())))(v) if not isinstance(next(iter(B.values())), list) else list(v)
    Dx.update(extra_d)
    try:
        TableGroupCacheManager.invalidate()
        TableGroupCacheManager.add_extra_entries(
            {'%06d' % e: list(v) + ['', 0, 0] for e, v in extra_b.items()},
            {'%06d' % s_: ['VERIF NCEP SEQUENCE', ['%06d' % i for i in mem]] for s_, mem in extra_d.items()})
    except Exception as e:
        ctx.notes.append('ncep encodes: registration unavailable: %r' % (e,))
        return
    lists = [[360002, 12001], [360002, 301012], [360002, 12001], [361001], [360003, 361001], [361002], [360002, 48001, 48002],
             [1001, 360003, 361003], [361003], [360002, 361002]]
    order = list(range(len(lists))) * 2
    rng.shuffle(order)
    for li in order:
        ids = lists[li]
        try:
            msg = R.build_message(ids, Bx, Dx, R.Policy(rng), rng.choice([1, 2]), False, 4, dict(master_table_version=33),
                                  inline_sequences=True)
        except (R.Unsupported, KeyError) as e:
            ctx.count('ncep_unsupported')
            continue
        # R must agree with itself on these bytes under the extended tables
        try:
            r = R.decode(msg.bytes, extra_B={e: Bx[e] for e in extra_b}, extra_D=extra_d, inline_sequences=True)
            ok = all(a.labels == list(b.labels) and a.values == b.values for a, b in zip(msg.subsets, r['subsets']))
        except Exception:
            ok = False
        ctx.count('ncep_encode_cases')
        check_case(ctx, enc, msg, 'ncep-entries', 'ncep-%d' % li, self_ok=ok)


def replay(ctx, case):
    from pybufrkit.encoder import Encoder
    spec = case['case']
    out = Encoder().process(json.dumps(spec['flat_json'])).serialized_bytes
    ctx.evaluated(spec['hex'], True)
    exp = bytes.fromhex(spec['hex'])
    if not spec['compressed']:
        if out != exp:
            ctx.violate(case['sig'], 'replay: bytes differ at %d' % first_diff(out, exp), spec)
    else:
        r = R.decode(out)
        e = R.decode(exp)
        for a, b in zip(e['subsets'], r['subsets']):
            if a.raws != b.raws:
                ctx.violate(case['sig'], 'replay: raws differ', spec)
                break
