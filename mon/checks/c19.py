"""C19 - bit-level reading and writing are exact inverses for every width.

Oracle: an int/str bit-string model.  Exhaustive grid widths 1..64 x 5 edge values x bit offsets
0..7 for unsigned, sign-magnitude and in-place overwrite (guard bits before and after); random
sequences of <=200 mixed fields; out-of-range refusals; reads past the end.  The bit-tape monitor's
online invariants (position advances by exactly the width; set_uint keeps the length) are
verdict-bearing here.
"""
ID = 'C19'
LEVEL = 'exploration'
TECHNIQUE = 'runtime monitoring: bit-string model oracle + online bit-tape invariants on the real reader/writer'
RULE = ('exhaustive: widths 1..64 x values {0,1,2^(n-1),2^n-2,2^n-1} x offsets 0..7 x {uint, sign-magnitude '
        'int, set_uint}; random: sequences of up to 200 fields of mixed types; non-trivial when the field is '
        'not byte aligned or carries an edge value; distinct by (kind,width,value class,offset) / sequence hash; bytes fields of width 0 (and 1-7 bits) and without width; serialisation before and after set_uint')
RULE += '; added with rounds 10-12: writers and readers used with the tape monitor OFF (1-4 writers alive at the same time, every kind of field incl. set_uint, dropped half-way, looked at when complete); flags given as 1/0'
ASSUMPTIONS = ['sign-magnitude integers of width 1 are outside the stated space (recorded, not judged)',
               'any exception counts as "refused" for values that do not fit',
               'bitstring itself is trusted only through the model comparison']
BUDGET = {'quick': 40, 'thorough': 300}
SEQS = {'quick': 60, 'thorough': 1500}
EXHAUSTIVE = {'quick': True, 'thorough': True}
EXHAUSTIVE_NOTE = {'quick': 'grid widths 1..64 x 5 values x offsets 0..7 for uint/int/set_uint fully enumerated',
                   'thorough': 'grid widths 1..64 x 5 values x offsets 0..7 for uint/int/set_uint fully enumerated'}
REQUIRED = {'quick': {'grid_uint': 2528, 'grid_int': 2000, 'grid_set_uint': 2528, 'sequences': 380, 'past_end_reads': 500,
                      'refusals': 300},
            'thorough': {'grid_uint': 2528, 'grid_int': 2000, 'grid_set_uint': 2528, 'sequences': 9600,
                      'past_end_reads': 10000, 'refusals': 300}}


MONITORS = ('tape', 'telemetry')


def anchors():
    from pybufrkit import bitops
    R, W = bitops.BitStringBitReader, bitops.BitStringBitWriter
    return [R.read_uint, R.read_int, R.read_bool, R.read_bin, R.read_bytes, bitops.BitReader.read_uint_or_none,
            W.write_uint, W.write_int, W.write_bytes, W.write_bin, W.write_bool, W.skip, W.set_uint,
            bitops.BitReader.read, bitops.BitWriter.write]


def tobytes(bits):
    assert len(bits) % 8 == 0
    return int(bits, 2).to_bytes(len(bits) // 8, 'big') if bits else b''


def ubits(v, n):
    return format(v, '0%db' % n) if n else ''


def ibits(v, n):
    return ('1' if v < 0 else '0') + ubits(abs(v), n - 1)


def guard(n, seed):
    return ''.join('1' if (i * 7 + seed * 3) % 5 < 2 else '0' for i in range(n))


def finish(w, model):
    """pad writer and model to a whole number of octets with 1-bits via write_bin"""
    k = (-len(model)) % 8
    if k:
        w.write_bin('1' * k)
        model += '1' * k
    return model


def run(ctx):
    from pybufrkit.bitops import get_bit_reader, get_bit_writer
    from pybufrkit.errors import BitReadError
    from mon.monitors import tape
    rng = ctx.rng
    n_case = 0

    def viol(sig, what, case, **kw):
        ctx.violate(sig, what, case, **kw)

    # ------------------------------------------------------------- exhaustive grid
    for n in range(1, 65):
        top = (1 << n) - 1
        for v in sorted(set([0, 1, 1 << (n - 1), max(top - 1, 0), top])):
            for off in range(8):
                n_case += 1
                if not ctx.mine(n_case):
                    continue
                vclass = {0: 'zero', 1: 'one', top: 'allones', top - 1: 'max'}.get(v, 'msb')
                if n == 1:
                    vclass = 'zero' if v == 0 else 'one1bit'
                case = dict(kind='uint', width=n, value=v, offset=off)
                g0, g1 = guard(off, n), guard(5, v & 7)
                # --- uint write/read
                try:
                    w = get_bit_writer()
                    if off:
                        w.write_bin(g0)
                    w.write_uint(v, n)
                    pos_w = w.get_pos()
                    w.write_bin(g1)
                    model = finish(w, g0 + ubits(v, n) + g1)
                    out = w.to_bytes()
                    r = get_bit_reader(out)
                    if off:
                        r.read_bin(off)
                    got = r.read_uint(n)
                    pos_r = r.get_pos()
                    r2 = get_bit_reader(out)
                    if off:
                        r2.read_bin(off)
                    gotn = r2.read_uint_or_none(n)
                    after = r.read_bin(5)
                except Exception as e:
                    viol('uint/exception:%s/w%s' % (type(e).__name__, 'multiple8' if n % 8 == 0 else 'other'),
                         'uint write/read raised %r' % (e,), case, exc=e)
                    continue
                ctx.count('grid_uint')
                ctx.evaluated(('uint', n, vclass, off), off % 8 != 0 or vclass in ('allones', 'max', 'one1bit'),
                              sample=case if n in (1, 13) and off == 3 else None)
                if out != tobytes(model):
                    viol('uint/bytes-differ', 'written bytes differ from the model', case,
                         expected=tobytes(model).hex(), observed=out.hex())
                if got != v or after != g1:
                    viol('uint/readback-differs', 'read back %r (then %r) instead of %r' % (got, after, v), case)
                if pos_w != off + n or pos_r != off + n:
                    viol('uint/position', 'positions writer=%d reader=%d expected %d' % (pos_w, pos_r, off + n), case)
                want_none = n > 1 and v == top
                if (gotn is None) != want_none or (gotn is not None and gotn != v):
                    viol('uint/missing-rule/%s' % ('w1' if n == 1 else 'wgt1'),
                         'read_uint_or_none gave %r for width %d value %d' % (gotn, n, v), case)
                # --- refusal of a value that does not fit
                if v == top:
                    try:
                        w = get_bit_writer()
                        w.write_uint(top + 1, n)
                        viol('uint/oversize-accepted', 'write_uint(%d, %d) accepted' % (top + 1, n), case)
                    except Exception:
                        ctx.count('refusals')
                    # a refused write leaves the writer as it was: position, and what is written next
                    try:
                        w = get_bit_writer()
                        w.write_bin(g0 + '1')
                        p0 = w.get_pos()
                        for badv in (top + 1, -1):
                            try:
                                w.write_uint(badv, n)
                            except Exception:
                                pass
                        # (write_int is left out: the library writes the sign bit before it refuses the magnitude - what a
                        # writer holds after a refusal is not part of the statement, so this probe is ADVISORY)
                        p1 = w.get_pos()
                        w.write_uint(v, n)
                        model = finish(w, g0 + '1' + ubits(v, n))
                        ctx.count('state_after_refusal_checks')
                        if p1 != p0 or w.to_bytes() != tobytes(model):
                            ctx.violate('probe/refused-write-leaves-trace', 'after refused write_uint calls of width %d the writer moved from bit '
                                        '%d to %d / the next field is not where it belongs' % (n, p0, p1), case, advisory=True)
                    except Exception as e:
                        ctx.violate('probe/refused-write-leaves-trace/exception:%s' % type(e).__name__,
                                    'writer unusable after a refused write: %r' % (e,), case, advisory=True)
                    try:
                        w = get_bit_writer()
                        w.write_uint(-1, n)
                        viol('uint/negative-accepted', 'write_uint(-1, %d) accepted' % n, case)
                    except Exception:
                        ctx.count('refusals')
                # --- set_uint with guards
                case2 = dict(kind='set_uint', width=n, value=v, offset=off)
                try:
                    w = get_bit_writer()
                    pre = guard(off + 8, n + 1)
                    post = guard(11, v & 3)
                    w.write_bin(pre)
                    w.write_uint(top ^ v if rng.random() < 0.5 else 0, n)
                    w.write_bin(post)
                    model = finish(w, pre + ubits(v, n) + post)
                    len0 = w.get_pos()
                    if (n + off) % 2:
                        # the stream may be serialised before the overwrite as well as after it (octet-aligned here)
                        before = w.to_bytes()
                        ctx.count('serialised_before_overwrite')
                    w.set_uint(v, n, len(pre))
                    len1 = w.get_pos()
                    out = w.to_bytes()
                except Exception as e:
                    viol('set_uint/exception:%s/w%s' % (type(e).__name__, 'ge8' if n >= 8 else 'lt8'),
                         'set_uint raised %r' % (e,), case2, exc=e)
                    len0 = len1 = None
                    out = model = None
                if out is not None:
                    ctx.count('grid_set_uint')
                    ctx.evaluated(('set_uint', n, vclass, off), True)
                if out is None:
                    pass
                elif len1 != len0:
                    viol('set_uint/length-changed/w%s' % ('24' if n == 24 else 'ge8' if n >= 8 else 'lt8'),
                         'in-place overwrite of %d bits changed the stream length %d -> %d' % (n, len0, len1), case2)
                elif out != tobytes(model):
                    viol('set_uint/bits-differ/w%s' % ('24' if n == 24 else 'ge8' if n >= 8 else 'lt8'),
                         'in-place overwrite changed other bits or wrote a wrong field', case2,
                         expected=tobytes(model).hex(), observed=out.hex())
                # --- sign-magnitude ints
                if n >= 2:
                    mtop = (1 << (n - 1)) - 1
                    for iv in sorted(set([0, 1, -1, mtop, -mtop, max(mtop - 1, 0), -(1 << (n - 2))])):
                        case3 = dict(kind='int', width=n, value=iv, offset=off)
                        try:
                            w = get_bit_writer()
                            if off:
                                w.write_bin(g0)
                            w.write_int(iv, n)
                            pos_w = w.get_pos()
                            w.write_bin(g1)
                            model = finish(w, g0 + ibits(iv, n) + g1)
                            out = w.to_bytes()
                            r = get_bit_reader(out)
                            if off:
                                r.read_bin(off)
                            got = r.read_int(n)
                            pos_r = r.get_pos()
                        except Exception as e:
                            viol('int/exception:%s' % type(e).__name__, 'int write/read raised %r' % (e,), case3, exc=e)
                            continue
                        ctx.count('grid_int')
                        ctx.evaluated(('int', n, iv if abs(iv) <= 1 else ('max' if abs(iv) == mtop else 'mid') + ('-' if iv < 0 else '+'), off), True)
                        if out != tobytes(model):
                            viol('int/bytes-differ', 'sign-magnitude bytes differ from the model', case3,
                                 expected=tobytes(model).hex(), observed=out.hex())
                        if got != iv or pos_w != off + n or pos_r != off + n:
                            viol('int/readback-or-position', 'read back %r pos w=%d r=%d' % (got, pos_w, pos_r), case3)
                    try:
                        w = get_bit_writer()
                        w.write_int(mtop + 1, n)
                        viol('int/oversize-accepted', 'write_int(%d, %d) accepted' % (mtop + 1, n), dict(width=n))
                    except Exception:
                        ctx.count('refusals')

    # ------------------------------------------------------------- random sequences
    for s in range(SEQS[ctx.tier]):
        if not ctx.more():
            break
        nf = rng.randint(1, 200)
        fields = []
        model = ''
        w = get_bit_writer()
        try:
            for _ in range(nf):
                t = rng.choice(['uint', 'uint', 'int', 'bool', 'bin', 'bytes', 'skip'])
                if t == 'uint':
                    n = rng.randint(1, 64)
                    v = rng.choice([0, (1 << n) - 1, rng.getrandbits(n)])
                    if rng.random() < 0.5:
                        w.write_uint(v, n)
                    else:
                        w.write(v, 'uint', n)
                    model += ubits(v, n)
                elif t == 'int':
                    n = rng.randint(2, 64)
                    v = rng.getrandbits(n - 1) * rng.choice([1, -1])
                    if rng.random() < 0.5:
                        w.write_int(v, n)
                    else:
                        w.write(v, 'int', n)
                    model += ibits(v, n)
                elif t == 'bool':
                    n = 1
                    v = rng.random() < 0.5
                    # a flag is given as True/False or as 1/0 (what a hand-written JSON holds), directly or through write()
                    given = rng.choice([v, int(v), v, int(v)])
                    if rng.random() < 0.5:
                        w.write_bool(given)
                    else:
                        w.write(given, 'bool', 1)
                    ctx.add('bool_forms_written', type(given).__name__)
                    model += '1' if v else '0'
                elif t == 'bin':
                    n = rng.randint(1, 64)
                    v = ubits(rng.getrandbits(n), n)
                    w.write_bin(v)
                    model += v
                elif t == 'skip':
                    n = rng.randint(1, 40)
                    v = None
                    w.skip(n)
                    model += '0' * n
                else:
                    nb = rng.choice([0, 1, 1, 2, 3, 4, 5, 6, 7, 8, 8])
                    ln = rng.randint(0, 10)
                    raw = bytes(rng.choice(b'abc XYZ\xe9\xff\x00') for _ in range(ln))
                    given = raw.decode('latin-1') if rng.random() < 0.4 else raw
                    how = rng.random()
                    if how < 0.1:
                        # no width given: exactly the value's octets
                        w.write_bytes(given)
                        nb = ln
                        ctx.count('bytes_without_width')
                    elif how < 0.3:
                        # through the generic entry point, width in bits (a width below one octet holds no octet at all)
                        extra = rng.randint(0, 7) if nb == 0 else 0
                        w.write(given, 'bytes', 8 * nb + extra)
                        if nb == 0:
                            ctx.count('bytes_zero_width')
                    else:
                        w.write_bytes(given, nb)
                        if nb == 0:
                            ctx.count('bytes_zero_width')
                    v = raw[:nb].ljust(nb, b' ')
                    n = 8 * nb
                    model += ''.join(ubits(c, 8) for c in v)
                fields.append((t, n, v))
                if w.get_pos() != len(model):
                    viol('sequence/writer-position', 'writer position %d != model %d after %s' % (
                        w.get_pos(), len(model), t), dict(fields=[(a, b) for a, b, _ in fields][-5:]))
                    break
            model = finish(w, model)
            out = w.to_bytes()
        except Exception as e:
            viol('sequence/write-exception:%s' % type(e).__name__, 'writing a valid field sequence raised %r' % (e,),
                 dict(fields=[(a, b) for a, b, _ in fields][-5:]), exc=e)
            continue
        ctx.count('sequences')
        ctx.evaluated(('seq', out.hex()[:48], len(out)), True,
                      sample=dict(kind='sequence', nfields=nf, first=[(a, b) for a, b, _ in fields[:6]]) if s == 0 else None)
        if out != tobytes(model):
            viol('sequence/bytes-differ', 'sequence bytes differ from model', dict(fields=[(a, b) for a, b, _ in fields][:20]),
                 expected=tobytes(model).hex()[:200], observed=out.hex()[:200])
            continue
        r = get_bit_reader(out)
        pos = 0
        try:
            for t, n, v in fields:
                if t == 'uint':
                    got = r.read_uint(n) if rng.random() < 0.5 else r.read('uint', n)
                elif t == 'int':
                    got = r.read_int(n) if rng.random() < 0.5 else r.read('int', n)
                elif t == 'bool':
                    got = r.read_bool()
                elif t == 'bin':
                    got = r.read_bin(n)
                elif t == 'skip':
                    got = r.read_bin(n)
                    v = '0' * n
                else:
                    got = r.read_bytes(n // 8) if rng.random() < 0.5 else r.read('bytes', n)
                pos += n
                if got != v or r.get_pos() != pos:
                    viol('sequence/readback-differs/%s' % t, '%s of %d bits read back %r, expected %r; pos %d vs %d'
                         % (t, n, got, v, r.get_pos(), pos), dict(field=(t, n)))
                    break
        except Exception as e:
            viol('sequence/read-exception:%s' % type(e).__name__, 'reading back raised %r' % (e,), dict(field=(t, n)), exc=e)
            continue
        # reads past the end, from several residual lengths
        total = len(model)
        for kind in ('uint', 'bool', 'bin', 'bytes', 'int', 'uint_or_none'):
            r = get_bit_reader(out)
            left = rng.randint(0, min(total, 9))
            if total - left:
                r.read_bin(total - left)
            need = left + rng.randint(1, 9)
            if kind == 'bool':
                if left:
                    r.read_bin(left)
                need = 1
            try:
                if kind == 'uint':
                    r.read_uint(need)
                elif kind == 'uint_or_none':
                    r.read_uint_or_none(need)
                elif kind == 'bool':
                    r.read_bool()
                elif kind == 'bin':
                    r.read_bin(need)
                elif kind == 'int':
                    r.read_int(max(2, need))
                    if max(2, need) <= left:
                        continue
                else:
                    r.read_bytes((need + 7) // 8)
                viol('past-end/accepted/%s' % kind, 'read of %d bits with %d left returned' % (need, left), dict(kind=kind))
            except BitReadError:
                ctx.count('past_end_reads')
            except Exception as e:
                viol('past-end/wrong-exception:%s/%s' % (type(e).__name__, kind),
                     'reading past the end with %s raised %s instead of BitReadError' % (kind, type(e).__name__),
                     dict(kind=kind, left=left, need=need), exc=e)
    # ------------------------------------------------------------- several readers / writers in use at the same time
    # every reader is a cursor of its own over the bytes it was given - also when another reader over equal bytes (the same
    # object or an equal copy) is opened or read in between; writers are independent of each other
    for k in range(40 if ctx.quick else 400):
        nbytes = rng.randint(3, 24)
        data = bytes(rng.getrandbits(8) for _ in range(nbytes))
        bits = ''.join(ubits(c, 8) for c in data)
        readers = []
        case = dict(kind='interleaved-readers', hex=data.hex())
        ctx.count('interleaved_reader_cases')
        ctx.evaluated(('interleaved', data.hex()), True)
        try:
            steps = []
            for step in range(rng.randint(4, 14)):
                if len(readers) < 3 and (not readers or rng.random() < 0.3):
                    src = data if rng.random() < 0.5 else bytes(bytearray(data))
                    readers.append([get_bit_reader(src), 0])
                    steps.append('open')
                    continue
                j = rng.randrange(len(readers))
                r, pos = readers[j]
                left = len(bits) - pos
                if left <= 0:
                    continue
                n = rng.randint(1, min(left, 24))
                kind = rng.choice(['uint', 'bin', 'bool'])
                if kind == 'bool':
                    n = 1
                    got, want = r.read_bool(), bits[pos] == '1'
                elif kind == 'bin':
                    got, want = r.read_bin(n), bits[pos:pos + n]
                else:
                    got, want = r.read_uint(n), int(bits[pos:pos + n], 2)
                readers[j][1] = pos + n
                steps.append('r%d:%s:%d' % (j, kind, n))
                if got != want or r.get_pos() != pos + n:
                    viol('readers/interleaved/%s' % kind, 'reader %d of %d over the same bytes read %r at bit %d (expected %r), position %d '
                         '(expected %d) after %r' % (j, len(readers), got, pos, want, r.get_pos(), pos + n, steps[-8:]), dict(case, steps=steps))
                    break
        except Exception as e:
            viol('readers/interleaved/exception:%s' % type(e).__name__, 'interleaved readers raised %r' % (e,), case, exc=e)
        # two writers filled alternately
        try:
            w1, w2 = get_bit_writer(), get_bit_writer()
            m1 = m2 = ''
            for step in range(rng.randint(2, 10)):
                n = rng.randint(1, 30)
                v = rng.getrandbits(n)
                if rng.random() < 0.5:
                    w1.write_uint(v, n)
                    m1 += ubits(v, n)
                else:
                    w2.write_uint(v, n)
                    m2 += ubits(v, n)
            pos_ok = w1.get_pos() == len(m1) and w2.get_pos() == len(m2)
            f1, f2 = finish(w1, m1), finish(w2, m2)
            if not pos_ok or w1.to_bytes() != tobytes(f1) or w2.to_bytes() != tobytes(f2):
                viol('writers/interleaved', 'two writers filled alternately hold something else than what each was given', case)
        except Exception as e:
            viol('writers/interleaved/exception:%s' % type(e).__name__, 'interleaved writers raised %r' % (e,), case, exc=e)

    # ------------------------------------------------------------- the same without the tape: nothing asks for a position in between
    # The tape monitor reads the position before and after every primitive; a writer that defers work until somebody asks for
    # its position or its bytes never shows that under the tape.  Here the wrappers are switched off (tape.RECORD) and the
    # writers are only looked at when they are complete: 2-4 writers alive at the same time and filled alternately with fields
    # of every kind, writers that are dropped half-way (as after a refused encode) and fresh writers started after them.
    tape.RECORD['on'] = False
    try:
        for k in range(60 if ctx.quick else 600):
            nw = rng.randint(1, 4)
            ws = [get_bit_writer() for _ in range(nw)]
            ms = ['' for _ in range(nw)]
            steps = []
            case = dict(kind='unobserved-writers', writers=nw)
            ctx.count('unobserved_writer_cases')
            try:
                for step in range(rng.randint(3, 16)):
                    j = rng.randrange(nw)
                    kind = rng.choice(['uint', 'uint', 'int', 'bool', 'bin', 'bytes', 'skip', 'drop-and-restart', 'set_uint', 'set_uint'])
                    if kind == 'set_uint' and len(ms[j]) < 2:
                        kind = 'uint'
                    if kind == 'drop-and-restart':
                        # a writer abandoned with fields in it; its successor starts empty
                        ws[j] = None
                        ws[j] = get_bit_writer()
                        ms[j] = ''
                    elif kind == 'set_uint':
                        # a field written earlier is overwritten in place (what the encoder does with the length fields)
                        n = rng.randint(1, min(24, len(ms[j])))
                        at = rng.randrange(len(ms[j]) - n + 1)
                        v = rng.getrandbits(n)
                        ws[j].set_uint(v, n, at)
                        ms[j] = ms[j][:at] + ubits(v, n) + ms[j][at + n:]
                    elif kind == 'uint':
                        n = rng.randint(1, 40)
                        v = rng.getrandbits(n)
                        ws[j].write_uint(v, n)
                        ms[j] += ubits(v, n)
                    elif kind == 'int':
                        n = rng.randint(2, 24)
                        v = rng.randint(-(2 ** (n - 1) - 1), 2 ** (n - 1) - 1)
                        ws[j].write_int(v, n)
                        ms[j] += ibits(v, n)
                    elif kind == 'bool':
                        v = rng.random() < 0.5
                        ws[j].write_bool(v)
                        ms[j] += '1' if v else '0'
                    elif kind == 'bin':
                        n = rng.randint(1, 12)
                        v = ''.join(rng.choice('01') for _ in range(n))
                        ws[j].write_bin(v)
                        ms[j] += v
                    elif kind == 'bytes':
                        n = rng.randint(1, 5)
                        v = bytes(rng.getrandbits(8) for _ in range(n))
                        ws[j].write_bytes(v, n)
                        ms[j] += ''.join(ubits(c, 8) for c in v)
                    else:
                        n = rng.randint(1, 9)
                        ws[j].skip(n)
                        ms[j] += '0' * n
                    steps.append('w%d:%s' % (j, kind))
                order = list(range(nw))
                rng.shuffle(order)
                for j in order:
                    ctx.evaluated(('unobserved', k, j, ms[j]), True)
                    nbits = len(ms[j])
                    fin = finish(ws[j], ms[j])          # pads writer and model to whole octets
                    ms[j] = fin
                    got = ws[j].to_bytes()
                    if got != tobytes(fin):
                        viol('writers/unobserved/bytes', 'writer %d of %d alive at the same time (nothing asked for a position in between) holds %d octets '
                             '%s..., it was given %d bits %s... (steps %r)' % (j, nw, len(got), got.hex()[:24], nbits, tobytes(fin).hex()[:24], steps[-10:]),
                             dict(case, steps=steps))
                        break
                    if ws[j].get_pos() != len(ms[j]):
                        viol('writers/unobserved/position', 'writer %d of %d is at bit %d after %d bits were written' % (j, nw, ws[j].get_pos(), len(ms[j])),
                             dict(case, steps=steps))
                        break
            except Exception as e:
                viol('writers/unobserved/exception:%s' % type(e).__name__, 'writers used without the tape raised %r after %r' % (e, steps[-6:]), case, exc=e)
        # readers without the tape: several cursors over equal bytes, positions compared at the end only
        for k in range(40 if ctx.quick else 400):
            data = bytes(rng.getrandbits(8) for _ in range(rng.randint(4, 20)))
            bits = ''.join(ubits(c, 8) for c in data)
            rs = [[get_bit_reader(data if rng.random() < 0.5 else bytes(bytearray(data))), 0, []] for _ in range(rng.randint(2, 3))]
            ctx.count('unobserved_reader_cases')
            ctx.evaluated(('unobserved-readers', data.hex()), True)
            try:
                for step in range(rng.randint(4, 14)):
                    r = rng.choice(rs)
                    left = len(bits) - r[1]
                    if left <= 0:
                        continue
                    n = rng.randint(1, min(left, 20))
                    r[2].append((r[0].read_uint(n), int(bits[r[1]:r[1] + n], 2)))
                    r[1] += n
                for j, r in enumerate(rs):
                    if any(g != w for g, w in r[2]) or r[0].get_pos() != r[1]:
                        viol('readers/unobserved', 'reader %d of %d over equal bytes (no position asked in between) read %r, expected %r; position %d, expected %d'
                             % (j, len(rs), [g for g, w in r[2]][:6], [w for g, w in r[2]][:6], r[0].get_pos(), r[1]), dict(kind='unobserved-readers', hex=data.hex()))
                        break
            except Exception as e:
                viol('readers/unobserved/exception:%s' % type(e).__name__, 'readers used without the tape raised %r' % (e,), dict(kind='unobserved-readers', hex=data.hex()), exc=e)
    finally:
        tape.RECORD['on'] = True

    # ------------------------------------------------------------- text that has no octet form
    # A character field given as text with a character beyond U+00FF cannot be written as it is.  The statement leaves two
    # outcomes: the value is refused ("values that do not fit are refused"), or it is accepted and then the field still has
    # exactly its width (the writer advances by 8 x octets and the neighbours read back unchanged).
    if ctx.shard == 0 or not ctx.quick:
        for k in range(60 if ctx.quick else 200):
            nb = rng.choice([1, 2, 3, 4, 5, 8, 9, 20])
            ln = rng.randint(1, nb + 3)
            chars = [rng.choice('abcXYZ \xe9') for _ in range(ln)]
            chars[rng.randrange(min(ln, nb))] = rng.choice(['\u20ac', '\u0100', '\u4e2d', '\U0001f600', '\u0394'])
            text = ''.join(chars)
            lead = rng.randint(0, 7)
            w = get_bit_writer()
            if lead:
                w.write_uint((1 << lead) - 1, lead)
            case = dict(kind='unrepresentable-text', text=text.encode('unicode_escape').decode(), octets=nb, lead_bits=lead)
            ctx.count('unrepresentable_texts')
            try:
                if k % 3 == 0:
                    w.write(text, 'bytes', 8 * nb)
                else:
                    w.write_bytes(text, nb)
            except Exception:
                ctx.count('unrepresentable_texts_refused')
                ctx.evaluated(('utext', case['text'], nb, lead), True)
                continue
            ctx.count('unrepresentable_texts_accepted')
            ctx.evaluated(('utext', case['text'], nb, lead), True)
            if w.get_pos() != lead + 8 * nb:
                viol('bytes/unrepresentable-text/field-width', 'a bytes field of %d bits given %r moved the writer by %d bits'
                     % (8 * nb, text, w.get_pos() - lead), case)
                continue
            try:
                w.write_uint(0x2A, 7)
                r = get_bit_reader(w.to_bytes())
                a = r.read_uint(lead) if lead else None
                b = r.read_bytes(nb)
                c = r.read_uint(7)
                if (lead and a != (1 << lead) - 1) or len(b) != nb or c != 0x2A or r.get_pos() != lead + 8 * nb + 7:
                    viol('bytes/unrepresentable-text/neighbours', 'fields around an accepted text value read back as %r, %r, %r'
                         % (a, b, c), case)
            except Exception as e:
                viol('bytes/unrepresentable-text/read-exception:%s' % type(e).__name__, 'reading back raised %r' % (e,), case, exc=e)
    # tape invariants are verdict-bearing for C19
    for b in tape.breaks[:3]:
        viol('tape/%s-position-invariant' % b.get('op'), 'bit tape invariant broken: %r' % (b,), b)
    ctx.monitor['tape_breaks_verdict'] = len(tape.breaks)


def replay(ctx, case):
    run(ctx)
