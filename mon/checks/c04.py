"""C04 - section framing and length accounting are exact in both directions.

Oracle: R's independent frame parser/producer (hard-coded octet layouts).  Encoder side: output
split by declared lengths only; signatures, section-0 length, extents, octet / even-octet zero
padding; honour-declared-length mode: longer => zero fill, shorter => refused, wrong total =>
refused.  Decoder side: surplus octets in sections 1,2,4 (3: 0/1), optional section 2, trailing
bytes; serialized_bytes = exact span, lengths and values as R predicts; over-short declared
section => error.
"""
import json

from mon import refbufr as R
from mon import handover, midscan
from mon.compare import diff_message, jsonable
from mon.gen import cases
from mon.gen.shapes import EdgePolicy

ID = 'C04'
LEVEL = 'exploration'
TECHNIQUE = 'runtime monitoring: independent frame parser/producer as oracle over real encoder output and decoder results'
RULE = ('data sections of every bit length mod 16 x editions 2,3,4 x section 2 absent/present x '
        '{recompute, honour declared lengths} x surplus octets 0..3(5) x trailing bytes; non-trivial when a '
        'section needed padding or carried surplus/trailing bytes; distinct by (residue, edition, sec2, mode, '
        'surplus, fault); total-length field off by +-1..4 (decoder span); declared section lengths down to 1 and 0; one odd surplus octet in editions 2-3 (honour mode)')
RULE += '; added with rounds 10-12: decodes with per-call options in shuffled order on the same and another decoder (metadata-only, lenient, default, unwired); messages decoded while scans are suspended (mid-scan scenarios); coders constructed positionally by the published signatures on odd shards; twins'
ASSUMPTIONS = ['section 3 surplus is limited to 0/1 octet (its descriptor count is derived from its length)',
               'in honour mode editions <=3 are given even declared lengths only',
               'any exception satisfies "refused"/"reported as an error"']
BUDGET = {'quick': 45, 'thorough': 400}
EXHAUSTIVE = {'quick': False, 'thorough': True}
EXHAUSTIVE_NOTE = {'thorough': '16 residues x 3 editions x section 2 x {recompute, honour} x surplus 0..3 per section fully enumerated',
                   'quick': 'core 16 residues x 3 editions x section 2 x recompute fully enumerated; rest sampled'}
REQUIRED = {'quick': {'core_cells': 96, 'enc_recompute': 96, 'enc_honour_longer': 150, 'enc_honour_shorter_refused': 100,
                      'dec_surplus': 300, 'dec_short_refused': 150, 'dec_trailing': 100},
            'thorough': {'core_cells': 96, 'enc_recompute': 96, 'enc_honour_longer': 1000, 'enc_honour_shorter_refused': 600,
                      'dec_surplus': 4000, 'dec_short_refused': 480, 'dec_trailing': 1000}}


def anchors():
    from pybufrkit.encoder import Encoder
    from pybufrkit.decoder import Decoder
    return [Encoder.process_section, Encoder.process, Decoder.process_section, Decoder.process,
            Decoder.process_unexpanded_descriptors]


def template_for_residue(r, extra):
    """uncompressed single subset whose data bit length is congruent r mod 16"""
    # 012001 (12 bits) widened by 201: width = 16 + r ; extra adds whole 16-bit elements (012101)
    return [201000 + 128 + 4 + r, 12001, 201000] + [12101] * extra


def sections_of(b):
    fr = R.parse_frame(b)
    return fr


def with_lengths(fj, msg, lengths, total):
    """flat json with explicit declared lengths (section index -> octets)"""
    fj = json.loads(json.dumps(fj))
    idx = 0
    order = [0, 1] + ([2] if msg.sec2 is not None else []) + [3, 4, 5]
    for pos, sec in enumerate(order):
        if sec == 0:
            fj[pos][1] = total
        elif sec in lengths:
            fj[pos][0] = lengths[sec]
    return fj


def structural(ctx, out, msg, spec, mode):
    """encoder output judged through declared lengths only"""
    if out[:4] != b'BUFR':
        ctx.violate('enc/%s/no-start-signature' % mode, 'output does not start with BUFR', spec, observed=out.hex())
        return False
    if out[-4:] != b'7777':
        ctx.violate('enc/%s/no-stop-signature' % mode, 'output does not end with 7777', spec, observed=out.hex())
        return False
    if int.from_bytes(out[4:7], 'big') != len(out):
        ctx.violate('enc/%s/section0-length' % mode, 'section 0 length %d but %d bytes produced'
                    % (int.from_bytes(out[4:7], 'big'), len(out)), spec, observed=out.hex())
        return False
    try:
        fr = R.parse_frame(out)
    except Exception as e:
        ctx.violate('enc/%s/unparsable:%s' % (mode, type(e).__name__), 'declared lengths do not tile the message: %r' % (e,),
                    spec, observed=out.hex())
        return False
    if fr.end != len(out) or fr.sections[5][2][0][1] != b'7777':
        ctx.violate('enc/%s/extent' % mode, 'sections by declared length end at %d, message has %d bytes'
                    % (fr.end, len(out)), spec, observed=out.hex())
        return False
    if msg.edition <= 3:
        for k in (1, 2, 3, 4):
            if k in fr.sections and fr.sections[k][1] % 2 and mode == 'recompute':
                ctx.violate('enc/%s/odd-section-length/ed%d' % (mode, msg.edition),
                            'section %d has odd length %d in edition %d' % (k, fr.sections[k][1], msg.edition),
                            spec, observed=out.hex())
                return False
    return True


def encoder_side(ctx, enc_re, enc_ho, msg, cell, honour_variants):
    spec = dict(side='encoder', ids=msg.ids, edition=msg.edition, sec2=None if msg.sec2 is None else msg.sec2.hex(),
                cell=cell, hex=msg.bytes.hex())
    fj = R.flat_json(msg)
    spec['flat_json'] = jsonable(fj)
    # recompute mode (declared lengths in the input are deliberately wrong and must be ignored)
    fjw = with_lengths(fj, msg, {1: 99, 3: 5, 4: 1}, 12345)
    for variant, inp in (('zero-lengths', fj), ('wrong-lengths-ignored', fjw)):
        try:
            out = enc_re.process(json.dumps(inp)).serialized_bytes
        except Exception as e:
            ctx.violate('enc/recompute/exception:%s' % type(e).__name__, 'encoder raised %r (%s)' % (e, variant), spec, exc=e)
            return
        ctx.count('enc_recompute' if variant == 'zero-lengths' else 'enc_recompute_wrong_declared')
        ctx.evaluated(('enc', variant) + tuple(cell), True, sample=dict(side='encoder', mode=variant, cell=cell) if cell[0] == 5 else None)
        if structural(ctx, out, msg, spec, 'recompute') and out != msg.bytes:
            i = next((j for j, (x, y) in enumerate(zip(out, msg.bytes)) if x != y), min(len(out), len(msg.bytes)))
            ctx.violate('enc/recompute/bytes-differ', 'framing differs from the reference at octet %d (%s)' % (i, variant),
                        spec, expected=msg.bytes.hex(), observed=out.hex())
    if not honour_variants:
        return
    fr = R.parse_frame(msg.bytes)
    natural = {k: fr.sections[k][1] for k in (1, 2, 3, 4) if k in fr.sections}
    step = 2 if msg.edition <= 3 else 1
    for sec, k in honour_variants:
        if sec not in natural:
            continue
        # ---- longer: zero filled to the declared extent
        surplus = {sec: k * step}
        if sec == 3:
            if msg.edition <= 3:
                continue
            surplus = {3: 1}
        lengths = dict(natural)
        lengths[sec] = natural[sec] + surplus[sec]
        total = len(msg.bytes) + surplus[sec]
        ref = R.build_frame(msg.edition, msg.meta, msg.ids, msg.nsub, msg.compressed,
                            msg.bytes[fr.sections[4][0] + 4: fr.sections[4][0] + natural[4]]
                            if False else _data_octets(msg), msg.sec2, surplus)
        sp = dict(spec, honour=dict(section=sec, declared=lengths[sec], natural=natural[sec]))
        for tv, tname in ((total, 'declared-total'), (0, 'zero-total')):
            try:
                out = enc_ho.process(json.dumps(with_lengths(fj, msg, lengths, tv))).serialized_bytes
            except Exception as e:
                ctx.violate('enc/honour/longer-refused:%s/section%d' % (type(e).__name__, sec),
                            'declared length %d > actual %d refused: %r' % (lengths[sec], natural[sec], e), sp, exc=e)
                continue
            ctx.count('enc_honour_longer')
            ctx.evaluated(('enc-honour-longer', sec, k, tname) + tuple(cell), True)
            if structural(ctx, out, msg, sp, 'honour') and out != ref:
                ctx.violate('enc/honour/longer-not-zero-filled/section%d' % sec,
                            'output differs from the zero-filled reference', sp, expected=ref.hex(), observed=out.hex())
        # ---- shorter: refused
        # (editions <= 3: also ONE octet short of the even extent - such a length can still cover the content bits, it is
        # shorter than the section's real extent all the same)
        for short in [k * step] + ([1, 3] if step == 2 else []):
            lengths = dict(natural)
            lengths[sec] = natural[sec] - short
            if lengths[sec] <= 0:
                continue
            sp = dict(spec, honour=dict(section=sec, declared=lengths[sec], natural=natural[sec]))
            try:
                out = enc_ho.process(json.dumps(with_lengths(fj, msg, lengths, 0))).serialized_bytes
                ctx.violate('enc/honour/shorter-accepted/section%d%s' % (sec, '/odd' if short % 2 and step == 2 else ''),
                            'edition %d: declared length %d < actual %d accepted' % (msg.edition, lengths[sec], natural[sec]),
                            sp, observed=out.hex())
            except Exception:
                ctx.count('enc_honour_shorter_refused')
                if short % 2 and step == 2:
                    ctx.count('enc_honour_one_short_of_even_refused')
            ctx.evaluated(('enc-honour-shorter', sec, k, short) + tuple(cell), True)
    # ---- editions <= 3: a section honoured with an ODD declared length (one surplus octet).  The sections after it
    # start on an odd octet offset; each is still padded to an even number of ITS OWN octets
    if msg.edition <= 3:
        for sec in (1, 2, 4):
            if sec not in natural:
                continue
            lengths = dict(natural)
            lengths[sec] = natural[sec] + 1
            # reference: the natural message with one zero octet appended to that section, its length and the total + 1
            st, ln = fr.sections[sec][0], natural[sec]
            refb = bytearray(msg.bytes[:st + ln] + b'\0' + msg.bytes[st + ln:])
            refb[st:st + 3] = (ln + 1).to_bytes(3, 'big')
            refb[4:7] = (len(msg.bytes) + 1).to_bytes(3, 'big')
            ref = bytes(refb)
            sp = dict(spec, honour=dict(section=sec, declared=lengths[sec], natural=natural[sec], odd=True))
            for later, lname in ((lengths, 'later-exact'), ({k: (v if k <= sec else 0) for k, v in lengths.items()}, 'later-computed')):
                for tv in (len(msg.bytes) + 1, 0):
                    try:
                        out = enc_ho.process(json.dumps(with_lengths(fj, msg, later, tv))).serialized_bytes
                    except Exception as e:
                        ctx.violate('enc/honour/odd-longer-refused:%s/section%d/%s' % (type(e).__name__, sec, lname),
                                    'edition %d, section %d declared %d (odd, one surplus octet), %s: refused: %r'
                                    % (msg.edition, sec, lengths[sec], lname, e), sp, exc=e)
                        continue
                    ctx.count('enc_honour_odd_surplus')
                    ctx.evaluated(('enc-honour-odd', sec, lname, tv == 0) + tuple(cell), True)
                    if structural(ctx, out, msg, sp, 'honour') and out != ref:
                        ctx.violate('enc/honour/odd-surplus-output-differs/section%d/%s' % (sec, lname),
                                    'edition %d with section %d declared one octet longer (odd): output differs from the zero-filled '
                                    'reference whose later sections are padded to their own even extent' % (msg.edition, sec),
                                    sp, expected=ref.hex(), observed=out.hex())
    # wrong total with natural lengths
    for delta in (-1, 1, 7):
        try:
            out = enc_ho.process(json.dumps(with_lengths(fj, msg, natural, len(msg.bytes) + delta))).serialized_bytes
            ctx.violate('enc/honour/wrong-total-accepted', 'declared total off by %d accepted' % delta, spec, observed=out.hex())
        except Exception:
            ctx.count('enc_honour_wrong_total_refused')
        ctx.evaluated(('enc-honour-total', delta) + tuple(cell), True)
    # exact declared lengths are accepted and reproduce the message
    try:
        out = enc_ho.process(json.dumps(with_lengths(fj, msg, natural, len(msg.bytes)))).serialized_bytes
        ctx.count('enc_honour_exact')
        if out != msg.bytes:
            ctx.violate('enc/honour/exact-differs', 'exact declared lengths give different bytes', spec,
                        expected=msg.bytes.hex(), observed=out.hex())
    except Exception as e:
        ctx.violate('enc/honour/exact-refused:%s' % type(e).__name__, 'exact declared lengths refused: %r' % (e,), spec, exc=e)


def _data_octets(msg):
    n = (msg.data_bits + 7) // 8
    v = msg.data_int << ((-msg.data_bits) % 8)
    return v.to_bytes(n, 'big') if n else b''


TRAILERS = [b'', b'\r\r\n', b'7777', b'BUFR', b'\x00\x00\x00', b'BUFR\x00\x00\x20\x04garbage7777', b'\xff' * 9]


def decoder_side(ctx, dec, msg, cell, surplus, trailer):
    data = _data_octets(msg)
    b = R.build_frame(msg.edition, msg.meta, msg.ids, msg.nsub, msg.compressed, data, msg.sec2, surplus)
    spec = dict(side='decoder', ids=msg.ids, edition=msg.edition, sec2=None if msg.sec2 is None else msg.sec2.hex(),
                surplus=surplus, trailer=trailer.hex(), cell=cell, hex=(b + trailer).hex())
    fr = R.parse_frame(b)
    try:
        m = dec.process(b + trailer)
    except Exception as e:
        ctx.violate('dec/exception:%s/%s' % (type(e).__name__, 'surplus' if any(surplus.values()) else 'trailing' if trailer else 'plain'),
                    'decoder raised %r on a well-formed message (surplus %r, trailer %r)' % (e, surplus, trailer), spec, exc=e)
        return None
    nz = any(surplus.values())
    ctx.count('dec_surplus' if nz else 'dec_plain')
    # a rendered object carries the declared lengths: encoders that recompute and encoders that honour them can be given the
    # same object in any order
    handover.on_message(ctx, b, spec, site='surplus' if nz else 'plain', p=0.25, light=True)
    if trailer:
        ctx.count('dec_trailing')
    ctx.evaluated(('dec', tuple(sorted(surplus.items())), trailer.hex()) + tuple(cell), nz or bool(trailer) or cell[0] % 8 != 0,
                  sample=dict(side='decoder', surplus=surplus, trailer=trailer.hex(), cell=cell) if nz and cell[0] == 3 else None)
    for k, v in surplus.items():
        if v:
            ctx.add('surplus_seen', 's%d+%d' % (k, v))
    if m.serialized_bytes != b:
        ctx.violate('dec/serialized-bytes/%s' % ('trailing' if trailer else 'surplus' if nz else 'plain'),
                    'serialized_bytes has %d bytes, the message spans %d' % (len(m.serialized_bytes or b''), len(b)), spec)
        return m
    if m.length.value != len(b):
        ctx.violate('dec/length-value', 'length.value %r != %d' % (m.length.value, len(b)), spec)
    for sec in m.sections:
        idx = sec.get_metadata('index')
        if 'section_length' in sec and idx in fr.sections:
            if sec.section_length.value != fr.sections[idx][1]:
                ctx.violate('dec/section-length-value/section%d' % idx, 'section %d length %r, reference %d'
                            % (idx, sec.section_length.value, fr.sections[idx][1]), spec)
    d = diff_message(m, msg.subsets)
    if d:
        ctx.violate('dec/values-differ/%s' % ('surplus' if nz else 'plain'),
                    'decoded %s differ with surplus %r: %r' % (d[1], surplus, jsonable(d[2:])), spec)
    return m


def decoder_leading_bytes(ctx, dec, msg, cell):
    """the message's bytes are the span from BUFR to 7777 - whatever PRECEDES the start signature as well"""
    for lead, trail in ((b'\r\r\n', b''), (b'IUSK73 AMMC 182300\r\r\n', b'\r\r\n\x03'), (b'\x01', b'7777'), (b'BUF' + b'x' * 29, b'')):
        spec = dict(side='decoder-leading', ids=msg.ids, edition=msg.edition, leading=lead.hex(), trailer=trail.hex(), cell=cell,
                    hex=(lead + msg.bytes + trail).hex())
        ctx.evaluated(('dec-leading', lead.hex(), trail.hex()) + tuple(cell), True)
        ctx.count('dec_leading_bytes')
        try:
            m = dec.process(lead + msg.bytes + trail)
        except Exception as e:
            ctx.violate('dec/exception:%s/leading-bytes' % type(e).__name__, 'decoder raised %r on a message preceded by %r' % (e, lead), spec, exc=e)
            continue
        if m.serialized_bytes != msg.bytes:
            ctx.violate('dec/serialized-bytes/leading-bytes', 'with %d bytes before BUFR serialized_bytes has %d bytes (ends %r), the message '
                        'spans %d' % (len(lead), len(m.serialized_bytes or b''), (m.serialized_bytes or b'')[-4:], len(msg.bytes)), spec)
            continue
        d = diff_message(m, msg.subsets)
        if d:
            ctx.violate('dec/values-differ/leading-bytes', 'decoded %s differ with bytes before BUFR: %r' % (d[1], jsonable(d[2:])), spec)


def decoder_signatures(ctx, dec, msg, cell):
    """the span runs from BUFR to 7777: a message whose end section is not 7777 is refused - also by a decoder that has served a
    lenient (ignore_value_expectation=True) call before"""
    try:
        dec.process(msg.bytes, ignore_value_expectation=True)
        dec.process(msg.bytes[:-4] + b'7767', ignore_value_expectation=True)
        ctx.count('lenient_decodes')
    except Exception:
        ctx.count('lenient_decode_raises')
    for tag, bad in (('stop', msg.bytes[:-4] + b'77XY' + b'\0\0'), ('stop', msg.bytes[:-1] + b'8')):
        spec = dict(side='decoder-signature', ids=msg.ids, edition=msg.edition, cell=cell, hex=bad.hex())
        ctx.evaluated(('dec-signature', bad[-6:].hex()) + tuple(cell), True)
        ctx.count('dec_bad_stop_signature')
        try:
            m = dec.process(bad)
            ctx.violate('dec/damaged-stop-signature-accepted', 'a message ending %r instead of 7777 was decoded without error (serialized_bytes ends %r)'
                        % (bad[len(msg.bytes) - 4:len(msg.bytes)], (m.serialized_bytes or b'')[-4:]), spec)
        except Exception:
            ctx.count('dec_bad_stop_signature_refused')


def decoder_option_orders(ctx, dec, msg, cell):
    """per-call options apply to THAT call: full decodes with ignore_value_expectation=True / wire_template_data=False / the defaults
    give the span from BUFR to 7777, the declared section lengths and the values whatever kind of call (metadata-only, lenient,
    default) this decoder or another one served just before, in any order"""
    from pybufrkit.decoder import Decoder
    rng = ctx.rng
    b = msg.bytes
    trailer = rng.choice(TRAILERS)
    calls = [('info_only', dict(info_only=True)), ('lenient', dict(ignore_value_expectation=True)), ('default', {}),
             ('unwired', dict(wire_template_data=False)), ('lenient-unwired', dict(ignore_value_expectation=True, wire_template_data=False)),
             ('info_only-lenient', dict(info_only=True, ignore_value_expectation=True))]
    order = calls + rng.sample(calls, 3)
    rng.shuffle(order)
    other = Decoder()
    fr = R.parse_frame(b)
    hist = []
    for name, kw in order:
        d = dec if rng.random() < 0.6 else other
        hist.append(name + ('' if d is dec else '@other'))
        spec = dict(side='decoder-option-order', ids=msg.ids, edition=msg.edition, cell=cell, hex=(b + trailer).hex(), calls=list(hist))
        ctx.count('dec_option_order_calls')
        try:
            m = d.process(b + trailer, **kw)
        except Exception as e:
            ctx.violate('dec/option-order/exception:%s/%s' % (type(e).__name__, name), 'a %s decode of a well-formed message raised %r after the calls %r'
                        % (name, e, hist[:-1]), spec, exc=e)
            return
        if kw.get('info_only'):
            continue
        ctx.evaluated(('dec-option-order', tuple(hist)) + tuple(cell), True)
        if m.serialized_bytes != b:
            ctx.violate('dec/option-order/serialized-bytes/%s' % name, 'a %s decode after the calls %r: serialized_bytes has %d bytes (ends %r), the message spans %d'
                        % (name, hist[:-1], len(m.serialized_bytes or b''), (m.serialized_bytes or b'')[-4:], len(b)), spec)
            return
        idxs = [sec.get_metadata('index') for sec in m.sections]
        if idxs != list(fr.order):
            ctx.violate('dec/option-order/sections/%s' % name, 'a %s decode after the calls %r has sections %r, the message has %r'
                        % (name, hist[:-1], idxs, list(fr.order)), spec)
            return
        dd = diff_message(m, msg.subsets)
        if dd:
            ctx.violate('dec/option-order/values-differ/%s' % name, 'a %s decode after the calls %r: decoded %s differ: %r' % (name, hist[:-1], dd[1], jsonable(dd[2:])), spec)
            return


def judge_frame(kind, m, msg, opts):
    """C04's oracle for a message delivered in the middle of other work: the sections the message has, their declared lengths,
    the total length, (full decodes) the values"""
    fr = R.parse_frame(msg.bytes)
    idxs = [sec.get_metadata('index') for sec in m.sections]
    if kind == 'info':
        want = [i for i in fr.order if i <= 4]
        if idxs != want:
            return ('info-only-sections', 'metadata-only decode has sections %r, expected %r' % (idxs, want))
        return None
    if idxs != list(fr.order):
        return ('sections', 'sections %r, the message has %r' % (idxs, list(fr.order)))
    if m.length.value != len(msg.bytes):
        return ('length-value', 'length.value %r != %d' % (m.length.value, len(msg.bytes)))
    for sec in m.sections:
        idx = sec.get_metadata('index')
        if 'section_length' in sec and idx in fr.sections and sec.section_length.value != fr.sections[idx][1]:
            return ('section-length-value', 'section %d length %r, reference %d' % (idx, sec.section_length.value, fr.sections[idx][1]))
    d = diff_message(m, msg.subsets)
    if d:
        return ('values-differ', 'values differ: %s %r' % (d[1], jsonable(d[2:])))
    return None


def decoder_mid_scan(ctx, msg):
    recent = ctx.__dict__.setdefault('_c04_recent', [])
    recent.append((msg.bytes, msg))
    if len(recent) >= 6:
        from pybufrkit.decoder import Decoder
        ctx.count('mid_scan_blocks')
        midscan.scenarios(ctx, 'dec', Decoder, recent[:3], recent[3:6], judge_frame, dict(side='decoder-mid-scan'))
        del recent[:]


def decoder_scan_spans(ctx, dec, cell):
    """the bytes a SCAN reports for a message are its span from BUFR to the closing 7777 - in metadata-only scans too, and also when
    the text 7777 / BUFR occurs inside the message (section 2 local octets, surplus octets of section 1, character data)"""
    from pybufrkit.decoder import generate_bufr_message
    B, D = cases.tables(33)
    rng = ctx.rng
    msgs = []
    for ed, sec2, ids, surplus in ((4, b'LOC7777X', [1015, 1001], None), (3, b'7777', [1001, 12001], {1: 2}), (4, None, [205008, 1001], {1: 4}),
                                    (2, b'BUFR7777', [1015], None)):
        try:
            from mon.gen.streams import PayloadPolicy
            m = R.build_message(ids, B, D, PayloadPolicy(rng, [b'AB7777CD', b'7777', b'x7777']), 2, False, ed,
                                dict(update_sequence_number=len(msgs)), sec2, surplus=surplus)
            msgs.append(m)
        except Exception:
            continue
    if not msgs:
        return
    stream = b'\r\r\n'.join(m.bytes for m in msgs) + b'\r\r\n'
    for kw in (dict(info_only=True), {}, dict(info_only=True, filter_expr='${%edition} >= 2')):
        mode = '+'.join(sorted(kw)) or 'full'
        spec = dict(side='decoder-scan-span', cell=cell, mode=mode, hex=stream.hex())
        ctx.count('dec_scan_span_streams')
        ctx.evaluated(('dec-scan-span', mode, stream.hex()), True)
        try:
            got = [bytes(m.serialized_bytes) for m in generate_bufr_message(dec, stream, **kw)]
        except Exception as e:
            ctx.violate('dec/scan-span/exception:%s/%s' % (type(e).__name__, mode), 'scanning well-formed messages that hold the text 7777 raised %r' % (e,), spec, exc=e)
            continue
        if got != [m.bytes for m in msgs]:
            ctx.violate('dec/scan-span/serialized-bytes/%s' % mode, 'a %s scan reports messages of %r octets, the spans BUFR..7777 have %r'
                        % (mode, [len(g) for g in got], [len(m.bytes) for m in msgs]), spec)


def decoder_wrong_total(ctx, dec, msg, cell):
    """the message's bytes are the span from BUFR to 7777 (what the sections occupy) whatever follows - also when the
    total-length field of section 0 does not agree with that span (the decoder does not use that field in a full decode)"""
    data = _data_octets(msg)
    b = R.build_frame(msg.edition, msg.meta, msg.ids, msg.nsub, msg.compressed, data, msg.sec2, None)
    for delta, trailer in ((1, b'\r\r\n\x03'), (3, b'BUFRxyz7777'), (-1, b''), (-4, b'\0\0'), (2, b'')):
        bb = bytearray(b)
        bb[4:7] = (len(b) + delta).to_bytes(3, 'big')
        bb = bytes(bb)
        spec = dict(side='decoder-wrong-total', ids=msg.ids, edition=msg.edition, delta=delta, trailer=trailer.hex(), cell=cell,
                    hex=(bb + trailer).hex())
        ctx.evaluated(('dec-wrong-total', delta, trailer.hex()) + tuple(cell), True)
        ctx.count('dec_wrong_total')
        try:
            m = dec.process(bb + trailer)
        except Exception as e:
            # refusing an inconsistent total is a legitimate reading as well: not judged
            ctx.count('dec_wrong_total_refused')
            continue
        if m.serialized_bytes != bb:
            ctx.violate('dec/serialized-bytes/inconsistent-total/%s' % ('over' if delta > 0 else 'under'),
                        'total length field off by %+d: serialized_bytes has %d bytes, the span BUFR..7777 has %d'
                        % (delta, len(m.serialized_bytes or b''), len(bb)), spec)
            continue
        d = diff_message(m, msg.subsets)
        if d:
            ctx.violate('dec/values-differ/inconsistent-total', 'decoded %s differ when the total length field is off by %+d: %r'
                        % (d[1], delta, jsonable(d[2:])), spec)


def decoder_short(ctx, dec, msg, cell):
    """declared length shorter than the content => error"""
    data = _data_octets(msg)
    b = bytearray(R.build_frame(msg.edition, msg.meta, msg.ids, msg.nsub, msg.compressed, data, msg.sec2, None))
    fr = R.parse_frame(bytes(b))
    content = {1: 22 if msg.edition == 4 else 18, 3: 7, 4: 4 + len(data)}
    if msg.sec2 is not None:
        content[2] = 4
    for sec, need in content.items():
        for cut in (1, 2, 3, need - 1, need):     # ... down to a declared length of 1 and of 0
            declared = need - cut
            if declared < 0 or cut <= 0:
                continue
            bb = bytearray(b)
            st = fr.sections[sec][0]
            bb[st:st + 3] = declared.to_bytes(3, 'big')
            spec = dict(side='decoder-short', section=sec, declared=declared, content=need, edition=msg.edition,
                        cell=cell, hex=bytes(bb).hex())
            try:
                m = dec.process(bytes(bb))
                ctx.violate('dec/short-section-accepted/section%d' % sec,
                            'section %d declared %d octets for %d octets of content: decoded without error'
                            % (sec, declared, need), spec)
            except Exception as e:
                ctx.count('dec_short_refused')
                ctx.add('short_exceptions', type(e).__name__)
            ctx.evaluated(('dec-short', sec, cut) + tuple(cell), True)
    # consistently framed short data section: declared length cuts the last octets of the data, the stop
    # signature follows the declared end directly, the total agrees, and enough bytes follow for the
    # over-read to succeed - the overrun check is then the only thing that can notice
    for cut in (1, 2, 3, 4):
        if cut >= len(data) or (msg.edition <= 3 and (4 + len(data) - cut) % 2):
            continue
        short = R.build_frame(msg.edition, msg.meta, msg.ids, msg.nsub, msg.compressed, data[:len(data) - cut], msg.sec2, None)
        if msg.edition <= 3 and len(data[:len(data) - cut]) % 2 == 0:
            pass
        stream = short + b'\0' * 24
        spec = dict(side='decoder-short', section=4, declared=4 + len(data) - cut, content=4 + len(data), edition=msg.edition,
                    cell=cell, consistent_framing=True, hex=stream.hex())
        try:
            m = dec.process(stream)
            ctx.violate('dec/short-section-accepted/section4/consistent-framing',
                        'data section declared %d octets short (stop signature and total length consistent with the short length): '
                        'decoded without error' % cut, spec)
        except Exception as e:
            ctx.count('dec_short_refused')
            ctx.count('dec_short_consistent_framing')
            ctx.add('short_exceptions', type(e).__name__)
        ctx.evaluated(('dec-short-consistent', cut) + tuple(cell), True)


def run(ctx):
    from pybufrkit.decoder import Decoder
    from pybufrkit.encoder import Encoder
    dec = Decoder()
    enc_re = Encoder()
    enc_ho = Encoder(ignore_declared_length=False)
    if ctx.shard % 2:
        # the published constructor signatures, used positionally: Encoder(definitions_dir, tables_root_dir, ignore_declared_length,
        # compiled_template_cache_max, ...), Decoder(definitions_dir, tables_root_dir, compiled_template_cache_max)
        enc_ho = Encoder(None, None, False)
        enc_re = Encoder(None, None, True, None)
        dec = Decoder(None, None, None)
        ctx.count('coders_constructed_positionally', 3)
    B, D = cases.tables(33)
    rng = ctx.rng
    n = 0
    sec2s = [None, b'', b'a', b'local octets ' * 3]
    for r in range(16):
        for ed in (2, 3, 4):
            for s2i, s2 in enumerate([None, b'ab']):
                n += 1
                if not ctx.mine(n):
                    continue
                cell = (r, ed, s2i)
                ids = template_for_residue(r, rng.randint(0, 2))
                msg = R.build_message(ids, B, D, EdgePolicy(rng, phase=r), 1, False, ed, None, s2)
                assert msg.data_bits % 16 == r, (msg.data_bits, r)
                ctx.count('core_cells')
                ctx.add('cells', '%d/%d/%d' % cell)
                if ctx.quick:
                    hv = [(rng.choice([1, 2, 4]), rng.choice([1, 2, 3]))]
                else:
                    hv = [(s, k) for s in (1, 2, 3, 4) for k in (1, 2, 3)]
                encoder_side(ctx, enc_re, enc_ho, msg, cell, hv)
                # decoder: surplus product (thorough: exhaustive 0..3 per section; quick: sampled)
                if ctx.quick:
                    combos = [dict(), {1: rng.randint(1, 5)}, {4: rng.randint(1, 5)}, {1: 2, 4: 3, 3: 1 if ed == 4 else 0}]
                    if s2 is not None:
                        combos.append({2: rng.randint(1, 5)})
                else:
                    combos = []
                    for a in range(4):
                        for c in range(4):
                            for bq in (range(4) if s2 is not None else [0]):
                                for t3 in ((0, 1) if ed == 4 else (0,)):
                                    combos.append({1: a, 2: bq, 3: t3, 4: c})
                    combos += [{1: 5}, {4: 5}, {2: 5} if s2 is not None else {}]
                for sp in combos:
                    sp = {k: (v * 2 if ed <= 3 and k != 3 else v) for k, v in sp.items() if v}
                    if ed <= 3:
                        sp.pop(3, None)
                    decoder_side(ctx, dec, msg, cell, sp, rng.choice(TRAILERS))
                for tr in TRAILERS[1:]:
                    decoder_side(ctx, dec, msg, cell, {}, tr)
                decoder_short(ctx, dec, msg, cell)
                decoder_wrong_total(ctx, dec, msg, cell)
                decoder_leading_bytes(ctx, dec, msg, cell)
                decoder_signatures(ctx, dec, msg, cell)
                decoder_option_orders(ctx, dec, msg, cell)
                decoder_mid_scan(ctx, msg)
                if r % 4 == 0:
                    decoder_scan_spans(ctx, dec, cell)
    # random richer messages (multi-subset, compressed, long section 2)
    k = 0
    quota = 150 if ctx.quick else 2500
    while k < quota and ctx.more():
        k += 1
        c = cases.random_case(ctx, mtv=33)
        if c is None:
            continue
        msg = c[0]
        if not cases.self_consistent(msg):
            continue
        cell = (msg.data_bits % 16, msg.edition, 1 if msg.sec2 is not None else 0)
        msg.sec2 = rng.choice([None, b'', b'x' * rng.randint(1, 40)])
        sp = {1: rng.randint(0, 5), 4: rng.randint(0, 5)}
        if msg.sec2 is not None:
            sp[2] = rng.randint(0, 5)
        if msg.edition == 4:
            sp[3] = rng.randint(0, 1)
        sp = {kk: (v * 2 if msg.edition <= 3 else v) for kk, v in sp.items() if v}
        decoder_side(ctx, dec, msg, cell, sp, rng.choice(TRAILERS))
        if k % 3 == 0 and not any(m and m[0] == 'n' and m[2] > 0 and m[1] > 48 for s in msg.subsets for m in s.meta):
            ref = R.build_frame(msg.edition, msg.meta, msg.ids, msg.nsub, msg.compressed, _data_octets(msg), msg.sec2, None)
            if not msg.compressed:
                msg2 = R.Message(**dict(msg.__dict__, bytes=ref))
                encoder_side(ctx, enc_re, enc_ho, msg2, cell, [(rng.choice([1, 2, 4]), 1)])


def replay(ctx, case):
    from pybufrkit.decoder import Decoder
    spec = case['case']
    ctx.evaluated(spec.get('hex', ''), True)
    if spec.get('side', '').startswith('decoder'):
        b = bytes.fromhex(spec['hex'])
        try:
            m = Decoder().process(b)
            fr = R.parse_frame(b[b.find(b'BUFR'):])
            if spec['side'] == 'decoder-short':
                ctx.violate(case['sig'], 'replay: short section still accepted', spec)
            elif m.serialized_bytes != b[:fr.end]:
                ctx.violate(case['sig'], 'replay: serialized_bytes wrong', spec)
        except Exception as e:
            if spec['side'] != 'decoder-short':
                ctx.violate(case['sig'], 'replay: raises %r' % (e,), spec, exc=e)
    else:
        from pybufrkit.encoder import Encoder
        out = Encoder().process(json.dumps(spec['flat_json'])).serialized_bytes
        if out != bytes.fromhex(spec['hex']):
            ctx.violate(case['sig'], 'replay: encoder bytes differ', spec)
