"""C20 - in-stream table definitions govern the messages that follow them.

History + stateful model: R's tables extended by the entries carried in the definition messages
(accumulating, later definitions override earlier ones).  R builds NCEP-layout definition messages
(data category 11; Table A triple, Table B entries with sign/scale/reference/width as character
fields, Table D entries with 205064 name and replicated 000030) and the data messages that follow,
over new class 48-63 elements and 3-48..3-63 sequences (incl. replication inside sequences and
replication-only sequences of the NCEP 360001 kind) mixed with standard descriptors.  Each stream is
scanned by generate_bufr_message in a FRESH INTERPRETER (extra entries are process-global and never
cleared); the yielded data messages must carry R's values, labels and links.
"""
import json
import os
import shutil
import subprocess
import sys
from fractions import Fraction

from mon import refbufr as R
from mon.compare import diff_subset, jsonable
from mon.gen import cases

ID = 'C20'
LEVEL = 'exploration'
TECHNIQUE = ('runtime monitoring: history vs stateful reference model (tables + carried entries) over definition/data streams, '
             'each stream scanned in a fresh interpreter')
RULE = ('streams of 1-3 definition messages (1-6 new elements each: numeric with widths 1-32, scales -3..6, references of both '
        'signs; code/flag tables; character elements; 0-4 new sequences incl. nested, fixed/delayed replication inside, '
        'replication-only sequences) each followed by 1-3 data messages (1-3 subsets, compressed or not) over defined and '
        'standard descriptors; later definitions may redefine earlier entries; non-trivial = the data message uses >= 1 '
        'defined descriptor; distinct by SHA-1 of the stream; scan variants (all-accepting filter, continue_on_error, wire_template_data=False)')
RULE += '; added with rounds 10-12: scan variants lookahead (another decoder decodes the following message from the loop body) and compiling (decoder with template compilation on); the same descriptor list under the other table version'
ASSUMPTIONS = ['NCEP layout as read from the library\'s processor and the sample file: template 1-03-000 031001 000001..3 / 1-01-000 031001 3-00-004 / '
               '1-05-000 031001 3-00-003 2-05-064 1-01-000 031001 000030',
               'a defined sequence consisting only of a replication descriptor (and its factor) replicates the descriptor that follows it in the '
               'enclosing list (NCEP convention, DESIGN appendix A)',
               'entries are interpreted as in the table files: unit CCITT IA5 = characters, CODE/FLAG TABLE = unsigned, else numeric',
               'new ids are taken from classes 48-63 only (statement\'s quantifier)']
BUDGET = {'quick': 55, 'thorough': 700}
QUOTA = {'quick': 12, 'thorough': 320}
REQUIRED = {'quick': {'evaluations': 280, 'streams': 76, 'data_messages_compared': 280, 'defined_elements_used': 600,
                      'defined_sequences_used': 150, 'replication_only_sequences_used': 30, 'multi_definition_streams': 40,
                      'redefinitions': 15, 'standard_descriptors_alongside': 200, 'negative_scale_or_reference': 100,
                      'redefinition_only_messages': 10, 'nested_rep_only_used': 5,
                      'data_messages_with_bundled_local_tables': 40},
            'thorough': {'evaluations': 7300, 'streams': 2000, 'data_messages_compared': 7300, 'defined_elements_used': 15000,
                      'defined_sequences_used': 4000, 'replication_only_sequences_used': 800,
                      'multi_definition_streams': 1000, 'redefinitions': 400, 'standard_descriptors_alongside': 5000,
                      'negative_scale_or_reference': 2500}}


LOCALS = [(ce, su, lv) for ce, su, lv, _p in R.local_table_dirs()]

DEF_TEMPLATE = [103000, 31001, 1, 2, 3, 101000, 31001, 300004, 105000, 31001, 300003, 205064, 101000, 31001, 30]


def anchors():
    from pybufrkit.dataprocessor import BufrTableDefinitionProcessor
    from pybufrkit import tables, decoder
    return [BufrTableDefinitionProcessor.process, BufrTableDefinitionProcessor._process_table_b_one_entry,
            BufrTableDefinitionProcessor._process_table_d_one_entry, tables._fix_ncep_descriptors,
            tables.TableGroupCache.add_extra_entries, decoder.generate_bufr_message]


class Scripted(R.Policy):
    """feeds the fields of a definition message in order"""

    def __init__(self, rng, strings, counts):
        R.Policy.__init__(self, rng)
        self.strings, self.counts = list(strings), list(counts)

    def str_column(self, pw, nbytes):
        s = self.strings.pop(0)
        s = s.encode('latin-1') if isinstance(s, str) else s
        return [s[:nbytes].ljust(nbytes)] * pw.ncols

    def count(self, pw, w, eid):
        return self.counts.pop(0)


def definition_fields(a_entries, b_entries, d_entries):
    """-> (strings in field order, replication counts in order)"""
    strings, counts = [], []
    counts.append(len(a_entries))
    for code, l1, l2 in a_entries:
        strings += [code, l1, l2]
    counts.append(len(b_entries))
    for eid, (name, unit, scale, ref, width) in b_entries:
        s = '%06d' % eid
        strings += [s[0], s[1:3], s[3:6], name[:32], name[32:64], unit,
                    '+' if scale >= 0 else '-', '%d' % abs(scale), '+' if ref >= 0 else '-', '%d' % abs(ref), str(width)]
    counts.append(len(d_entries))
    for sid, (name, members) in d_entries:
        s = '%06d' % sid
        strings += [s[0], s[1:3], s[3:6], name]
        counts.append(len(members))
        strings += ['%06d' % m for m in members]
    return strings, counts


def reorder_counts(a_entries, b_entries, d_entries):
    """the walker asks for counts in template order: A count, B count, D count, then per D entry its member count"""
    return definition_fields(a_entries, b_entries, d_entries)


def build_definition(rng, B, D, mtv, b_entries, d_entries, edition, k):
    # 0..3 Table A entries (the sample file has exactly one)
    a_entries = [('%03d' % rng.randint(100, 255), 'VERIF CATEGORY %d/%d' % (k, j), '') for j in range(rng.choice([1, 1, 0, 2, 3]))]
    strings, counts = definition_fields(a_entries, b_entries, d_entries)
    pol = Scripted(rng, strings, counts)
    meta = dict(master_table_version=mtv, data_category=11, update_sequence_number=k % 256)
    msg = R.build_message(DEF_TEMPLATE, B, D, pol, 1, False, edition, meta)
    if pol.strings or pol.counts:
        raise RuntimeError('definition script not consumed: %d strings, %d counts left' % (len(pol.strings), len(pol.counts)))
    return msg


def new_element(rng, used):
    for _ in range(100):
        eid = rng.randint(48, 63) * 1000 + rng.randint(1, 255)
        if eid not in used:
            break
    kind = rng.choice(['n', 'n', 'n', 'c', 'f', 's'])
    if kind == 'n':
        width = rng.choice([1, 2, 3, 5, 7, 8, 9, 12, 15, 16, 17, 20, 24, 31, 32])
        scale = rng.choice([0, 0, 1, 2, 3, 6, -1, -2, -3])
        ref = rng.choice([0, 0, -1, -5000, -1024, 10, 100000, -(1 << (width - 1)) if width > 1 else 0, 7])
        unit = rng.choice(['K', 'M', 'PA', 'M/S', 'NUMERIC', 'DEGREE', '%'])
    elif kind in 'cf':
        width = rng.choice([1, 2, 3, 4, 6, 8, 10, 16])
        scale, ref = 0, 0
        unit = 'CODE TABLE' if kind == 'c' else 'FLAG TABLE'
    else:
        width = 8 * rng.choice([1, 2, 4, 6, 8, 12, 20])
        scale, ref = 0, 0
        unit = 'CCITT IA5'
    name = 'VERIF %s %06d W%d S%d R%d' % (kind.upper(), eid, width, scale, ref)
    return eid, (name, unit, scale, ref, width)


def new_sequence(rng, used_d, elems, seqs, std, rep_only=()):
    for _ in range(100):
        sid = 300000 + rng.randint(48, 63) * 1000 + rng.randint(1, 255)
        if sid not in used_d:
            break
    r = rng.random()
    if r < 0.2:
        members = [101000, 31001] if rng.random() < 0.6 else [101000 + rng.randint(1, 3)]
        kind = 'rep-only'
    else:
        members = []
        for _ in range(rng.randint(1, 5)):
            rr = rng.random()
            if rr < 0.5 and elems:
                members.append(rng.choice(elems))
            elif rr < 0.65:
                members.append(rng.choice(std))
            elif rr < 0.72 and seqs:
                members.append(rng.choice(seqs))
            elif rr < 0.80 and rep_only and elems:
                # a replication-only sequence used INSIDE a sequence: it replicates the member that follows it
                members += [rng.choice(sorted(rep_only)), rng.choice(elems + std + seqs)]
            elif rr < 0.86 and seqs:
                # fixed / delayed replication over a whole (defined) sequence
                if rng.random() < 0.5:
                    members += [101000 + rng.randint(1, 3), rng.choice(seqs)]
                else:
                    members += [101000, 31001, rng.choice(seqs)]
            elif rr < 0.88 and elems:
                body = [rng.choice(elems + std) for _ in range(rng.randint(1, 2))]
                members += [100000 + len(body) * 1000 + rng.randint(1, 3)] + body
            elif elems:
                body = [rng.choice(elems + std) for _ in range(rng.randint(1, 2))]
                members += [100000 + len(body) * 1000, rng.choice([31001, 31000, 31002])] + body
            else:
                members.append(rng.choice(std))
        kind = 'plain'
    return sid, ('VERIF SEQUENCE %06d' % sid, members), kind


def seq_uses(D, s, target, depth=0):
    """does sequence s (transitively) use sequence target"""
    if depth > 20:
        return True
    for i in D.get(s, []):
        if i == target or (i >= 300000 and i in D and seq_uses(D, i, target, depth + 1)):
            return True
    return False


def contains_rep_only(ids, D, rep_only):
    for i in ids:
        if i in rep_only:
            return True
        if i >= 300000 and i in D and contains_rep_only(D[i], D, rep_only):
            return True
    return False


def make_stream(ctx, k):
    """-> (stream bytes, [expected per message: None for definition messages or R Message], stats) or None"""
    rng = ctx.rng
    mtv = rng.choice([13, 19, 25, 29, 33, 33, 36, 40])
    B0, D0 = cases.tables(mtv)
    B, D = dict(B0), dict(D0)
    std = [1001, 12001, 4024, 2001, 1015, 5001, 10004, 20011]
    if mtv != 33:
        # standard elements that version `mtv` and version 33 define differently: a data message that names version 33 after one
        # with the same descriptor list under `mtv` (or the other way round) still gets each version's own meaning
        B33v, _ = cases.tables(33)
        differ = [e for e in sorted(B0) if e in B33v and tuple(B0[e][2:5]) != tuple(B33v[e][2:5]) and e // 1000 not in (0, 31, 33)
                  and R.kind_of(B0[e][1]) == R.kind_of(B33v[e][1]) and max(B0[e][4], B33v[e][4]) <= 32]
        if differ:
            std = std + rng.sample(differ, min(3, len(differ)))
    parts = []
    expected = []
    stats = dict(defs=0, redefs=0, rep_only=0)
    elems, seqs, rep_only = [], [], set()
    earlier = []
    ndefs = rng.choice([1, 1, 2, 2, 3])
    for di in range(ndefs):
        b_entries, d_entries = [], []
        redef_only = di > 0 and elems and rng.random() < 0.35
        if redef_only:
            stats['redef_only'] = stats.get('redef_only', 0) + 1
        for _ in range(rng.randint(1, 6)):
            if elems and (redef_only or rng.random() < 0.15):
                eid = rng.choice(elems)          # redefinition of an earlier entry
                _, ent = new_element(rng, set())
                b_entries = [(e, v) for e, v in b_entries if e != eid]
                b_entries.append((eid, ent))
                stats['redefs'] += 1
            else:
                eid, ent = new_element(rng, set(B) | set(e for e, _ in b_entries))
                b_entries.append((eid, ent))
        new_elems = [e for e, _ in b_entries]
        # a later definition message may give an EXISTING sequence other members
        plain_seqs = [x for x in seqs if x not in rep_only]
        if di > 0 and plain_seqs and rng.random() < 0.5:
            old = rng.choice(plain_seqs)
            _, ent, kind = new_sequence(rng, set(), elems + new_elems, [x for x in plain_seqs if x != old and not seq_uses(D, x, old)],
                                        std, ())
            if kind == 'plain' and list(ent[1]) != D[old]:
                d_entries.append((old, ('VERIF SEQUENCE %06d' % old, ent[1])))
                stats['seq_redefs'] = stats.get('seq_redefs', 0) + 1
        for _ in range(0 if redef_only else rng.randint(0, 4)):
            sid, ent, kind = new_sequence(rng, set(D) | set(s for s, _ in d_entries), elems + new_elems,
                                          [s for s in seqs if s not in rep_only], std, rep_only)
            d_entries.append((sid, ent))
            if kind == 'rep-only':
                rep_only.add(sid)
        # a definition message is written with the tables in force before it
        try:
            dm = build_definition(rng, B, D, mtv, b_entries, d_entries, rng.choice([3, 4]), k * 10 + di)
        except R.Unsupported:
            return None
        parts.append(dm.bytes)
        expected.append(None)
        stats['defs'] += 1
        for eid, ent in b_entries:
            B[eid] = ent
            if eid not in elems:
                elems.append(eid)
        for sid, (name, members) in d_entries:
            D[sid] = list(members)
            if sid not in seqs:
                seqs.append(sid)
        # data messages under the accumulated definitions
        for _ in range(rng.randint(1, 3)):
            for attempt in range(8):
                ids = []
                reuse = None
                if earlier and attempt == 0 and rng.random() < 0.45:
                    # the very descriptor list (and table identification) of an earlier data message, now under the
                    # definitions in force NOW - anything remembered per descriptor list must not outlive a definition message
                    reuse = rng.choice(earlier)
                    ids = list(reuse[0])
                    stats['reused_descriptor_lists'] = stats.get('reused_descriptor_lists', 0) + 1
                for _ in range(0 if reuse else rng.randint(2, 6)):
                    rr = rng.random()
                    if rr < 0.4:
                        ids.append(rng.choice(elems))
                    elif rr < 0.6 and seqs:
                        s = rng.choice(seqs)
                        ids.append(s)
                        if s in rep_only:
                            ids.append(rng.choice(elems + std))   # the descriptor it replicates
                    elif rr < 0.7 and seqs:
                        # replication (explicit members) over a defined sequence - preferably one that uses a
                        # replication-only sequence inside
                        cand = [x for x in seqs if x not in rep_only]
                        inner = [x for x in cand if contains_rep_only(D[x], D, rep_only)]
                        if cand:
                            sq = rng.choice(inner) if inner and rng.random() < 0.7 else rng.choice(cand)
                            ids += ([101000 + rng.randint(1, 3), sq] if rng.random() < 0.5 else [101000, 31001, sq])
                    elif rr < 0.8:
                        ids.append(rng.choice(std))
                    elif rr < 0.84:
                        # a STANDARD sequence (never mentioned by the definitions) keeps its meaning - among them sequences that
                        # consist of one replication holding another one
                        cand = [x for x in (316003, 316007, 312017, 301011, 301021, 302001, 316004) if x in D]
                        if cand:
                            ids.append(rng.choice(cand))
                            stats['standard_sequences_used'] = stats.get('standard_sequences_used', 0) + 1
                    elif rr < 0.9:
                        body = [rng.choice(elems + std) for _ in range(rng.randint(1, 2))]
                        ids += [100000 + len(body) * 1000 + rng.randint(1, 3)] + body
                    else:
                        body = [rng.choice(elems)]
                        ids += [101000, 31001] + body
                if ids and ids[-1] in rep_only:
                    ids.append(rng.choice(elems))
                comp = rng.random() < 0.35
                dmeta = dict(master_table_version=rng.choice([mtv, 33]), data_category=rng.choice([0, 2, 102]),
                             update_sequence_number=len(parts) % 256)
                Bm, Dm = B, D
                local = None
                if reuse:
                    dmeta['master_table_version'] = reuse[1]
                    if mtv != 33 and rng.random() < 0.5:
                        # ... or the same list under the OTHER table version
                        dmeta['master_table_version'] = 33 if reuse[1] == mtv else mtv
                        stats['reused_descriptor_lists_other_version'] = stats.get('reused_descriptor_lists_other_version', 0) + 1
                if LOCALS and rng.random() < 0.3 and not reuse:
                    # the header selects bundled local tables: the in-stream entries must be in force there too
                    ce, su, lv = rng.choice(LOCALS)
                    local = (ce, su, lv)
                    dmeta.update(originating_centre=ce, originating_subcentre=su, local_table_version=lv)
                    Bl, Dl = R.load_tables(0, ce, su, dmeta['master_table_version'], lv)
                    Bm, Dm = dict(Bl), dict(Dl)
                    Bm.update({e: B[e] for e in elems})
                    Dm.update({sq: D[sq] for sq in seqs})
                    if dmeta['master_table_version'] != mtv:
                        pass
                elif dmeta['master_table_version'] != mtv:
                    B2, D2 = cases.tables(dmeta['master_table_version'])
                    Bm, Dm = dict(B2), dict(D2)
                    Bm.update({e: B[e] for e in elems})
                    Dm.update({sq: D[sq] for sq in seqs})
                try:
                    msg = R.build_message(ids, Bm, Dm, R.Policy(rng), rng.choice([1, 2, 3]), comp, rng.choice([3, 4]),
                                          dmeta, inline_sequences=True)
                except (R.Unsupported, KeyError):
                    continue
                msg.local = local
                if any(me and me[0] == 'n' and me[2] > 0 and me[1] > 48 for s in msg.subsets for me in s.meta):
                    continue
                # R must agree with itself on these bytes under the extended tables
                try:
                    r = R.decode(msg.bytes, extra_B={e: B[e] for e in elems}, extra_D={sq: D[sq] for sq in seqs}, inline_sequences=True)
                    ok = all(a.labels == list(b.labels) and a.values == b.values for a, b in zip(msg.subsets, r['subsets']))
                except Exception:
                    ok = False
                if not ok:
                    ctx.count('r_self_fail')
                    continue
                msg.uses_elems = sum(1 for s in msg.subsets[:1] for l in s.labels if l[0] == '0' and 48 <= int(l[1:3]) <= 63)
                flat = list(ids)
                msg.uses_seqs = sum(1 for i in ids if i in seqs)
                msg.uses_rep_only = 1 if contains_rep_only(ids, D, rep_only) else 0
                msg.nested_rep_only = 1 if any(i >= 300000 and i in D and i not in rep_only and contains_rep_only(D[i], D, rep_only)
                                               for i in ids) else 0
                msg.uses_std = sum(1 for s in msg.subsets[:1] for l in s.labels if l[0] == '0' and int(l[1:3]) < 48 and int(l[1:3]) != 31)
                msg.negatives = sum(1 for s in msg.subsets[:1] for me, l in zip(s.meta, s.labels)
                                    if me and me[0] == 'n' and l[0] == '0' and 48 <= int(l[1:3]) <= 63 and (me[2] < 0 or me[3] < 0))
                parts.append(msg.bytes)
                expected.append(msg)
                if local is None:
                    earlier.append((list(ids), dmeta['master_table_version']))
                break
    if not any(e is not None for e in expected):
        return None
    # a definition message that is REFUSED part-way (an entry with a non-numeric data width after a redefinition of an
    # existing element), read from a stream of its own; what follows is decoded by the last ACCEPTED definitions
    if elems and rng.random() < 0.25:
        try:
            old = rng.choice(elems)
            _, changed = new_element(rng, set())
            fresh, ent = new_element(rng, set(B))
            bad_def = build_definition(rng, B, D, mtv, [(old, changed), (fresh, ent[:4] + ('abc',))], [], 4, k * 10 + 9)
            follow = R.build_message([old, 1001, old], B, D, R.Policy(rng), 2, False, 4,
                                     dict(master_table_version=mtv, data_category=0, update_sequence_number=len(parts) % 256),
                                     inline_sequences=True)
            if not any(me and me[0] == 'n' and me[2] > 0 and me[1] > 48 for s_ in follow.subsets for me in s_.meta):
                follow.local = None
                follow.uses_elems, follow.uses_seqs, follow.uses_rep_only, follow.nested_rep_only = 2, 0, 0, 0
                follow.uses_std, follow.negatives = 1, 0
                stats['extra_segments'] = [('!', bad_def.bytes), ('', follow.bytes)]
                expected.append(follow)
                stats['refused_definitions'] = 1
        except (R.Unsupported, KeyError, RuntimeError):
            pass
    sep = rng.choice([b'', b'\r\r\n', b'xx'])
    return sep.join(parts), expected, stats, dict(mtv=mtv, elements={str(e): list(B[e]) for e in elems},
                                                 sequences={str(s): D[s] for s in seqs})


def dec_val(v):
    if isinstance(v, dict) and 'b' in v:
        return bytes.fromhex(v['b'])
    return v


def run(ctx):
    scratch = os.path.join(os.environ.get('VERIF_SCRATCH', '/verif/.scratch'), 'c20-%d' % ctx.shard)
    os.makedirs(scratch, exist_ok=True)
    env = dict(os.environ)
    try:
        q = 0
        k = ctx.shard * 1000
        while q < QUOTA[ctx.tier] and ctx.more():
            q += 1
            k += 1
            made = make_stream(ctx, k)
            if made is None:
                ctx.count('gen_unsupported')
                continue
            stream, expected, stats, model = made
            hf = os.path.join(scratch, 's%d.hex' % q)
            with open(hf, 'w') as f:
                f.write(stream.hex())
                for flag, seg in stats.get('extra_segments', []):
                    f.write('\n' + flag + seg.hex())
            spec = dict(stream_hex=stream.hex(), model=model, n_messages=len(expected), definitions=stats['defs'],
                        extra_segments=[(fl, sg.hex()) for fl, sg in stats.get('extra_segments', [])])
            try:
                variant = ['default', 'lookahead', 'filter', 'compiling', 'continue', 'unwired', 'lookahead', 'compiling', 'default', 'filter'][q % 10]
                ctx.add('scan_variants', variant)
                spec['scan_variant'] = variant
                p = subprocess.run([sys.executable, '-m', 'mon.c20_runner', hf, variant], capture_output=True, timeout=180, env=env,
                                   cwd=os.environ.get('VERIF_DIR', '/verif'))
                out = json.loads(p.stdout.decode())
            except Exception as e:
                ctx.count('runner_failed')
                ctx.notes.append('c20 runner failed: %r' % (e,))
                continue
            os.remove(hf)
            ctx.count('streams')
            if stats['defs'] > 1:
                ctx.count('multi_definition_streams')
            ctx.count('redefinitions', stats['redefs'])
            ctx.count('refused_definition_segments', stats.get('refused_definitions', 0))
            if stats.get('refused_definitions') and not out.get('segment_errors'):
                # the part-way broken definition message was not refused: nothing to say about what follows it
                ctx.count('refused_definition_accepted_not_judged')
                expected = expected[:-1]
                out['messages'] = out['messages'][:len(expected)]
            ctx.count('redefinition_only_messages', stats.get('redef_only', 0))
            ctx.count('sequence_redefinitions', stats.get('seq_redefs', 0))
            ctx.count('standard_sequences_used', stats.get('standard_sequences_used', 0))
            ctx.count('reused_descriptor_lists', stats.get('reused_descriptor_lists', 0))
            ctx.count('reused_descriptor_lists_other_version', stats.get('reused_descriptor_lists_other_version', 0))
            multi = 'multi-def' if stats['defs'] > 1 else 'single-def'
            if out.get('error'):
                ctx.evaluated(stream.hex(), True)
                ctx.violate('stream-scan-raises:%s/%s' % (out['error'].split(':')[0], multi),
                            'scanning a definitions+data stream raised %s after %d of %d messages'
                            % (out['error'], len(out['messages']), len(expected)), spec)
                continue
            if len(out['messages']) != len(expected):
                ctx.evaluated(stream.hex(), True)
                ctx.violate('stream-message-count/%s' % multi, 'yielded %d messages, stream holds %d' % (len(out['messages']), len(expected)), spec)
                continue
            # what another decoder read, from inside the loop body, for the message FOLLOWING the one the scan was suspended at
            for mi, om in enumerate(out['messages'][:-1]):
                la, em = om.get('lookahead'), expected[mi + 1]
                if la is None or em is None:
                    continue
                ctx.count('lookahead_decodes_compared')
                after_def = expected[mi] is None
                if after_def:
                    ctx.count('lookahead_decodes_right_after_a_definition_message')
                ctx.evaluated((stream.hex(), 'lookahead', mi), True)
                bad = None
                if 'error' in la:
                    bad = ('raises ' + la['error'].split(':')[0],)
                elif len(la['values']) != len(em.subsets):
                    bad = ('nsubsets',)
                else:
                    for s2, rs in enumerate(em.subsets):
                        d = diff_subset(la['labels'][s2], [dec_val(v) for v in la['values'][s2]], {int(a): b for a, b in la['links'][s2]}, rs)
                        if d:
                            bad = (d[0], s2) + d[1:]
                            break
                if bad:
                    ctx.violate('data-after-definition/decoded-while-the-scan-is-suspended/%s/%s' % (str(bad[0]).replace(' ', '-'), 'right-after-definition' if after_def else 'later'),
                                'message %d (ids %r) decoded by another decoder from the loop body, while the scan stood at message %d%s, differs from '
                                'the model: %r' % (mi + 1, em.ids, mi, ' (a definition message)' if after_def else '', jsonable(bad)),
                                dict(spec, message_index=mi + 1, ids=em.ids))
                    break
            for mi, (om, em) in enumerate(zip(out['messages'], expected)):
                if em is None:
                    continue
                ctx.count('data_messages_compared')
                ctx.count('defined_elements_used', em.uses_elems)
                ctx.count('defined_sequences_used', em.uses_seqs)
                ctx.count('replication_only_sequences_used', em.uses_rep_only)
                ctx.count('nested_rep_only_used', em.nested_rep_only)
                if getattr(em, 'local', None):
                    ctx.count('data_messages_with_bundled_local_tables')
                ctx.count('standard_descriptors_alongside', em.uses_std)
                ctx.count('negative_scale_or_reference', em.negatives)
                ctx.evaluated((stream.hex(), mi), em.uses_elems + em.uses_seqs > 0,
                              sample=dict(ids=em.ids, compressed=em.compressed, nsub=em.nsub,
                                          defined={kk: model['elements'][kk] for kk in list(model['elements'])[:3]}))
                bad = None
                if len(om['values']) != len(em.subsets):
                    bad = ('nsubsets', None, len(om['values']), len(em.subsets))
                else:
                    for s, rs in enumerate(em.subsets):
                        d = diff_subset(om['labels'][s], [dec_val(v) for v in om['values'][s]],
                                        {int(a): b for a, b in om['links'][s]}, rs)
                        if d:
                            bad = (d[0], s) + d[1:]
                            break
                if bad:
                    why = bad[0]
                    kind = ''
                    if why == 'values' and bad[2] is not None:
                        me = em.subsets[bad[1]].meta[bad[2]]
                        lab = em.subsets[bad[1]].labels[bad[2]]
                        defined = lab[0] == '0' and 48 <= int(lab[1:3]) <= 63
                        kind = '/%s-%s' % ('defined' if defined else 'standard', me[0] if me else '?')
                    ctx.violate('data-after-definition/%s%s/%s%s%s' % (why, kind, multi, '/rep-only' if em.uses_rep_only else '',
                                                                        '/compiling-decoder' if variant == 'compiling' else ''),
                                'message %d (ids %r) decoded after the definitions differs from the model in %s: %r'
                                % (mi, em.ids, why, jsonable(bad[1:])), dict(spec, message_index=mi, ids=em.ids))
    finally:
        shutil.rmtree(scratch, ignore_errors=True)


def replay(ctx, case):
    spec = case['case']
    scratch = os.path.join(os.environ.get('VERIF_SCRATCH', '/verif/.scratch'), 'c20-replay')
    os.makedirs(scratch, exist_ok=True)
    hf = os.path.join(scratch, 's.hex')
    with open(hf, 'w') as f:
        f.write(spec['stream_hex'])
        for flag, seg in spec.get('extra_segments', []):
            f.write('\n' + flag + seg)
    p = subprocess.run([sys.executable, '-m', 'mon.c20_runner', hf, spec.get('scan_variant', 'default')], capture_output=True, timeout=180,
                       cwd=os.environ.get('VERIF_DIR', '/verif'))
    out = json.loads(p.stdout.decode())
    ctx.evaluated(spec['stream_hex'][:64], True)
    print('replay: error=%r messages=%d' % (out.get('error'), len(out['messages'])))
    mi = spec.get('message_index')
    if mi is not None and mi < len(out['messages']):
        print('replay: labels', out['messages'][mi]['labels'][0][:20])
        print('replay: values', out['messages'][mi]['values'][0][:20])
    if out.get('error'):
        ctx.violate(case['sig'], 'replay: %s' % out['error'], spec)
    shutil.rmtree(scratch, ignore_errors=True)
