"""C03 - decode/encode round trip: quantisation bound, range refusal, canonical fixpoint.

(a) real Encoder -> real Decoder on user values in, on and beyond the representable range of numeric
Table B elements under operator contexts {none, 201+-, 202+-, 207, 203, 201+202}: either refused or
|y-x| <= half a unit of the last scaled digit (all-ones == missing excepted);  (b) uncompressed
out-of-range values must be refused;  (c) E(render(D(b))) == b for encoder-made b;  (d) for foreign
messages E(render(D(E(render(D(m)))))) == E(render(D(m))) and decoded values survive exactly.
R supplies only field metadata (width/scale/reference in force).
"""
import glob
import json
import os
from fractions import Fraction

from mon import refbufr as R
from mon import handover
from mon.compare import td_of, jsonable, opsig
from mon.gen import cases
from mon.gen import failures

ID = 'C03'
LEVEL = 'exploration'
TECHNIQUE = 'runtime monitoring: encode->decode round-trip oracle with exact rational bounds; byte fixpoint checks'
RULE = ('numeric Table B elements (quick: every 4th of version 33; thorough: all of versions 13..40 sampled '
        'list) x 8 operator contexts x values {grid, grid+-1/4 unit, half-way, 0, max, all-ones, +-1e-9, '
        'min-1, max+1, far beyond}; fixpoints on R-produced and sample messages; non-trivial = value off-grid, '
        'on a range boundary or beyond it; distinct by (element, context, value class); character values (\'\' / short / exact / blank / latin-1 / missing) in fields of 20, 32, 9, 3 (208YYY) and 4 (205YYY) octets')
RULE += '; added with rounds 10-12: twins (differently configured instances given the same input first)'
ASSUMPTIONS = ['fields wider than 40 bits with non-zero scale are skipped (float input cannot carry them)',
               'half-unit bound checked with slack 1e-9 units; half-way inputs may round either way',
               'any exception counts as refusal']
BUDGET = {'quick': 50, 'thorough': 600}
REQUIRED = {'quick': {'values_bound_checked': 11000, 'out_of_range_refused': 1500, 'fixpoint_own': 220,
                      'fixpoint_foreign': 60, 'contexts_with_203': 20, 'compressed_values_checked': 4000,
                      'string_values_checked': 210},
            'thorough': {'values_bound_checked': 130000, 'out_of_range_refused': 30000, 'fixpoint_own': 4000,
                      'fixpoint_foreign': 1500, 'contexts_with_203': 500, 'compressed_values_checked': 100000}}


def anchors():
    from pybufrkit.encoder import Encoder
    from pybufrkit.decoder import Decoder
    return [Encoder.process_numeric_uncompressed, Encoder.process_numeric_compressed,
            Decoder.process_numeric_uncompressed, Decoder.process_numeric_compressed]


CONTEXTS = [
    ('none', [], [], 0, 0, 0),
    ('201+', [201131], [201000], 3, 0, 0),
    ('201-', [201127], [201000], -1, 0, 0),
    ('202+', [202129], [202000], 0, 1, 0),
    ('202-', [202126], [202000], 0, -2, 0),
    ('207', [207001], [207000], 0, 0, 1),
    ('201+202', [201130, 202129], [201000, 202000], 2, 1, 0),
    # scale-0 elements widened to 54..64 bits: integers beyond 2^53 (no float holds them) read back exactly
    ('201wide', 'WIDE', [201000], 0, 0, 0),
    ('203', None, None, 0, 0, 0),
    ('203+207', None, None, 0, 0, 1),
]


def envelope(ids, nsub, comp, vals):
    return [['BUFR', 0, 4], [0, 0, 0, 0, 0, False, '0000000', 0, 0, 0, 33, 0, 2020, 1, 1, 0, 0, 0],
            [0, '00000000', nsub, True, comp, '000000', ids], [0, '00000000', vals], ['7777']]


def user_value(raw, r, s, quarter=0, eps=0):
    """exact user value (as float or int) for a (possibly fractional) raw"""
    q = (Fraction(raw) + Fraction(quarter, 4) + Fraction(eps, 10 ** 9) + r) / (Fraction(10) ** s)
    if s <= 0 and q.denominator == 1:
        return int(q)
    return float(q)


def judge(ctx, x, y, w, s, r, spec, where):
    """x user value (None = missing), y decoded value."""
    top = (1 << w) - 1
    unit = Fraction(10) ** (-s)
    if x is None:
        if y is not None:
            ctx.violate('bound/missing-became-value/%s' % where, 'missing read back as %r' % (y,), spec)
            return False
        return True
    scaled = Fraction(x) * (Fraction(10) ** s) - r       # exact position on the raw axis
    if y is None:
        if abs(scaled - top) <= Fraction(1, 2) + Fraction(1, 10 ** 6):
            ctx.count('allones_exception')
            return True
        ctx.violate('bound/value-became-missing/%s' % where,
                    'value %r (raw %.3f of %d-bit field) read back as missing' % (x, float(scaled), w), spec)
        return False
    if isinstance(y, bool) or not isinstance(y, (int, float)):
        ctx.violate('bound/non-numeric/%s' % where, 'value %r read back as %r' % (x, y), spec)
        return False
    err = abs(Fraction(y) - Fraction(x))
    slack = unit / 10 ** 6 + abs(Fraction(x)) / 10 ** 12
    if err > unit / 2 + slack:
        cls = 'wrapped-or-clipped' if err > 3 * unit else 'rounding'
        ctx.violate('bound/%s/%s' % (cls, where),
                    'value %r read back as %r: error %.6g exceeds half a unit (%.6g) [w=%d s=%d r=%d]'
                    % (x, y, float(err), float(unit / 2), w, s, r), spec)
        return False
    return True


def element_contexts(ctx, enc, dec, B, eid, mtv):
    name, unit, scale, ref, width = B[eid]
    rng = ctx.rng
    for cname, opn, cls, dw, ds, m207 in CONTEXTS:
        if opn == 'WIDE':
            if scale != 0:
                continue
            dw = rng.choice([54, 57, 60, 63, 64]) - width
            if not 0 < dw <= 127:
                continue
            opn = [201128 + dw]
        w = width + dw + ((10 * m207 + 2) // 3 if m207 else 0)
        s = scale + ds + m207
        r = ref * 10 ** m207
        newref = None
        if cname.startswith('203'):
            newref = rng.choice([-37, 11, -1, 0, 100])
            r = newref * 10 ** m207
        if w < 2 or w > 64 or (s != 0 and w > 40):
            continue
        top = (1 << w) - 1
        K = 14
        raws = [0, 1, 1 << (w - 1), top - 1, top, rng.randint(0, top - 1), rng.randint(0, top - 1)]
        xs = [user_value(a, r, s) for a in raws]
        klass = ['zero', 'one', 'msb', 'max', 'allones', 'grid', 'grid']
        if s != 0:   # effective scale 0: only integers are in the stated input space
            mid = [rng.randint(1, max(1, top - 2)) for _ in range(6)]
            xs += [user_value(mid[0], r, s, quarter=1), user_value(mid[1], r, s, quarter=-1),
                   user_value(mid[2], r, s, quarter=2), user_value(mid[3], r, s, eps=1),
                   user_value(mid[4], r, s, eps=-1), user_value(top - 1, r, s, quarter=1)]
            klass += ['quarter+', 'quarter-', 'halfway', 'eps+', 'eps-', 'max+quarter']
        xs.append(None)
        klass.append('missing')
        K = len(xs)

        def tmpl(k):
            if cname == '203':
                return [203008, eid, 203255, 100000 + 1000 + k, eid, 203000] if k > 1 else [203008, eid, 203255, eid, 203000]
            if cname == '203+207':
                # the 207 factor applies to the 203-defined reference as well
                return ([203008, eid, 203255, 207001, 100000 + 1000 + k, eid, 207000, 203000] if k > 1
                        else [203008, eid, 203255, 207001, eid, 207000, 203000])
            body = ([100000 + 1000 + k, eid] if k > 1 else [eid])
            return list(opn) + body + list(cls)

        def vals_of(v):
            return ([newref] + list(v)) if cname.startswith('203') else list(v)

        off = 1 if cname.startswith('203') else 0
        spec = dict(part='bound', element=eid, context=cname, mtv=mtv, w=w, s=s, r=r)
        # ---- (a) in-range batch, uncompressed
        fj = envelope(tmpl(K), 1, False, [vals_of(xs)])
        fj[1][10] = mtv
        try:
            b = enc.process(json.dumps(fj)).serialized_bytes
            m = dec.process(b)
            ys = td_of(m).decoded_values_all_subsets[0][off:]
        except Exception as e:
            ctx.violate('bound/in-range-refused:%s/%s' % (type(e).__name__, cname),
                        'in-range values of %06d under %s refused/failed: %r' % (eid, cname, e),
                        dict(spec, flat_json=fj), exc=e)
            continue
        if cname == '203':
            ctx.count('contexts_with_203')
        ctx.add('contexts', cname)
        for x, y, kc in zip(xs, ys, klass):
            ctx.count('values_bound_checked')
            ctx.evaluated((eid, cname, kc, mtv), kc not in ('grid', 'zero', 'one', 'msb'),
                          sample=dict(element=eid, context=cname, x=x, y=y, w=w, s=s, r=r) if kc == 'halfway' and eid % 50 == 1 else None)
            if not judge(ctx, x, y, w, s, r, dict(spec, x=x, y=y, value_class=kc, flat_json=fj), 'u/' + kc):
                break
        # ---- compressed (3 subsets: same values, rotated, with a missing)
        rows = [xs, xs[1:] + xs[:1], [None if i % 3 == 0 else v for i, v in enumerate(xs)]]
        fjc = envelope(tmpl(K), 3, True, [vals_of(v) for v in rows])
        fjc[1][10] = mtv
        try:
            b = enc.process(json.dumps(fjc)).serialized_bytes
            m = dec.process(b)
            got = [td_of(m).decoded_values_all_subsets[k][off:] for k in range(3)]
            for row, yrow in zip(rows, got):
                for x, y in zip(row, yrow):
                    ctx.count('compressed_values_checked')
                    if not judge(ctx, x, y, w, s, r, dict(spec, x=x, y=y, flat_json=fjc), 'c'):
                        raise StopIteration
        except StopIteration:
            pass
        except Exception as e:
            ctx.count('compressed_refused')
            ctx.add('compressed_refusal_types', type(e).__name__)
        # ---- (b) out of range, one value per message, uncompressed: must be refused
        for raw, kc in ((-1, 'below'), (top + 1, 'above'), (top + 1 + rng.randint(1, 1 << w), 'far-above'),
                        (-rng.randint(2, 1 << w), 'far-below'), (2 * (top + 1) + 5, 'wrap+5')):
            x = user_value(raw, r, s)
            fjo = envelope(tmpl(1), 1, False, [vals_of([x])])
            fjo[1][10] = mtv
            ctx.evaluated((eid, cname, 'oor-' + kc, mtv), True)
            try:
                b = enc.process(json.dumps(fjo)).serialized_bytes
            except Exception:
                ctx.count('out_of_range_refused')
                continue
            try:
                y = td_of(dec.process(b)).decoded_values_all_subsets[0][off]
            except Exception:
                y = '<undecodable>'
            ctx.violate('range/accepted/%s/%s' % (kc, cname),
                        'value %r (raw %d) does not fit the %d-bit field of %06d under %s but was encoded; reads back as %r'
                        % (x, raw, w, eid, cname, y), dict(spec, x=x, raw=raw, flat_json=fjo))


STR_POOL = ['', 'A', 'AB C', '  lead', 'trail  ', 'x' * 9, 'Z\xfcrich', '\xe9', "it's", '0', ' ', None]
UNREPRESENTABLE = ['Gda\u0144sk', '\u6771\u4eac', 'a\u20acb']   # cannot be written as octets: refusal is the only correct outcome


def string_roundtrip(ctx, enc, dec):
    """character values: either refused, or read back padded with blanks to the field width; None reads back as missing"""
    from mon.compare import td_of
    rng = ctx.rng
    # (element, octets): 001015 20, 001019 32, 001011 9, 001015 resized by 208003, 205004
    ids = [1015, 1019, 1011, 208003, 1015, 208000, 205004, 1001]
    widths = [20, 32, 9, 3, 4]
    quota = 40 if ctx.quick else 600
    for q in range(quota):
        if not ctx.mine(q):
            continue
        nsub = rng.choice([1, 2, 3, 4])
        comp = bool(q % 2) and nsub > 1
        rows = []
        col_same = [rng.random() < 0.25 for _ in widths]
        first = [rng.choice(STR_POOL) for _ in widths]
        for k in range(nsub):
            row = []
            for j, w in enumerate(widths):
                v = first[j] if col_same[j] else rng.choice(STR_POOL)
                if v is not None and len(v) > w:
                    v = v[:w]        # over-long values are outside the stated behaviour (truncation is C19's business)
                row.append(v)
            rows.append(row + [rng.randint(0, 100)])
        if q % 6 == 5:
            rows[rng.randrange(nsub)][rng.randrange(3)] = rng.choice(UNREPRESENTABLE)
            ctx.count('string_messages_with_unrepresentable_character')
        spec = dict(part='strings', ids=ids, compressed=comp, values=rows)
        ctx.count('string_messages')
        try:
            b = enc.process(json.dumps(envelope(ids, nsub, comp, rows))).serialized_bytes
        except Exception as e:
            ctx.count('string_message_refused')
            ctx.add('string_refusals', type(e).__name__)
            continue
        try:
            got = td_of(dec.process(b)).decoded_values_all_subsets
        except Exception as e:
            ctx.violate('strings/accepted-but-undecodable:%s/%s' % (type(e).__name__, 'c' if comp else 'u'),
                        'encoder accepted character values that the decoder cannot read back: %r' % (e,), spec, exc=e)
            continue
        for k in range(nsub):
            for j, w in enumerate(widths):
                x, y = rows[k][j], got[k][j]
                ctx.count('string_values_checked')
                ctx.evaluated(('str', q, k, j), x is None or len(x) < w)
                if x is not None and any(ord(ch) > 255 for ch in x):
                    ok = False
                    what = 'not-representable-accepted'
                elif x is None:
                    ok = y is None or (isinstance(y, bytes) and y and set(y) == {0xff})
                    what = 'missing'
                else:
                    want = x.encode('latin-1').ljust(w)
                    ok = isinstance(y, bytes) and y.ljust(w) == want and len(y) <= w
                    what = 'empty' if x == '' else ('short' if len(x) < w else 'full')
                if not ok:
                    ctx.violate('strings/readback-differs/%s/%s' % (what, 'c' if comp else 'u'),
                                'character value %r (field of %d octets, subset %d) read back as %r' % (x, w, k, y), spec)
                    break


def render_json(m):
    from pybufrkit.renderer import FlatJsonRenderer
    from pybufrkit.utils import JSON_DUMPS_KWARGS
    return json.dumps(FlatJsonRenderer().render(m), **JSON_DUMPS_KWARGS)


def values_equal(a, b):
    if a == b:
        return True
    if isinstance(a, bytes) and isinstance(b, bytes):
        n = max(len(a), len(b))
        return a.ljust(n) == b.ljust(n)
    return False


def fixpoint_own(ctx, enc, dec):
    quota = 45 if ctx.quick else 800
    k = 0
    while k < quota and ctx.more():
        k += 1
        c = cases.random_case(ctx)
        if c is None:
            continue
        msg = c[0]
        if any(m and m[0] == 'n' and m[2] > 0 and m[1] > 48 for s in msg.subsets for m in s.meta):
            continue
        spec = dict(part='fixpoint-own', ids=msg.ids, nsub=msg.nsub, compressed=msg.compressed, edition=msg.edition)
        try:
            b = enc.process(json.dumps(R.flat_json(msg))).serialized_bytes
        except Exception:
            ctx.count('own_encode_refused')
            continue
        try:
            b2 = enc.process(render_json(dec.process(b))).serialized_bytes
        except Exception as e:
            ctx.violate('fixpoint/own/exception:%s' % type(e).__name__,
                        're-encoding the rendering of an encoder-made message raised %r' % (e,), dict(spec, hex=b.hex()), exc=e)
            continue
        ctx.count('fixpoint_own')
        ctx.evaluated(b.hex(), True, sample=dict(part='fixpoint-own', ids=msg.ids) if k == 1 else None)
        if b2 != b:
            i = next((j for j, (x, y) in enumerate(zip(b, b2)) if x != y), min(len(b), len(b2)))
            ctx.violate('fixpoint/own/bytes-differ/%s/ops[%s]' % ('c' if msg.compressed else 'u', opsig(msg.ids)),
                        'E(render(D(b))) differs from b at octet %d' % i, dict(spec, hex=b.hex()), expected=b.hex(), observed=b2.hex())


def fixpoint_foreign(ctx, enc, dec, name, m_bytes, rsubsets):
    spec = dict(part='fixpoint-foreign', source=name, hex=m_bytes.hex() if len(m_bytes) < 4000 else None)
    try:
        m0 = dec.process(m_bytes)
    except Exception:
        ctx.count('foreign_undecodable')
        return
    if len(m_bytes) < 20000:
        # E(render(D(b))) is a function of b: it gives the same bytes whatever else was done with the decoded object before
        handover.on_message(ctx, m_bytes, spec, site='foreign', p=0.5)
    try:
        b1 = enc.process(render_json(m0)).serialized_bytes
    except Exception as e:
        ctx.count('foreign_encode_refused')
        ctx.add('foreign_refusal', type(e).__name__)
        return
    try:
        m1 = dec.process(b1)
        b2 = enc.process(render_json(m1)).serialized_bytes
    except Exception as e:
        ctx.violate('fixpoint/foreign/second-trip-exception:%s' % type(e).__name__,
                    'second decode/encode round trip of %s raised %r' % (name, e), spec, exc=e)
        return
    ctx.count('fixpoint_foreign')
    ctx.evaluated('foreign:' + name + m_bytes[:24].hex(), True)
    if b2 != b1:
        ctx.violate('fixpoint/foreign/not-idempotent', 'second round trip of %s is not byte-identical to the first' % name, spec,
                    expected=b1.hex()[:400], observed=b2.hex()[:400])
        return
    # values that came from a decoder survive exactly (2.6: all-ones == missing; 2.7: padding)
    v0 = td_of(m0).decoded_values_all_subsets
    v1 = td_of(m1).decoded_values_all_subsets
    if len(v0) != len(v1):
        ctx.violate('fixpoint/foreign/subset-count', 'subset count changed %d -> %d' % (len(v0), len(v1)), spec)
        return
    for k, (a, bq) in enumerate(zip(v0, v1)):
        if len(a) != len(bq):
            ctx.violate('fixpoint/foreign/value-count', 'subset %d length %d -> %d' % (k, len(a), len(bq)), spec)
            return
        for j, (x, y) in enumerate(zip(a, bq)):
            if values_equal(x, y):
                continue
            if y is None and rsubsets is not None and (j in rsubsets[k].ambig or _allones(rsubsets[k], j)):
                ctx.count('foreign_allones_exception')
                continue
            if rsubsets is None and y is None:
                ctx.count('foreign_unjudged_none')
                continue
            ctx.violate('fixpoint/foreign/value-changed', '%s subset %d field %d: %r -> %r after one round trip'
                        % (name, k, j, x, y), spec)
            return


def _allones(rs, j):
    m = rs.meta[j]
    raw = rs.raws[j]
    return m is not None and isinstance(raw, int) and m[1] > 1 and raw == (1 << m[1]) - 1


def run(ctx):
    from pybufrkit.decoder import Decoder
    from pybufrkit.encoder import Encoder
    enc, dec = Encoder(), Decoder()
    versions = [33] if ctx.quick else [33, 13, 19, 25, 29, 36, 40]
    n = 0
    for mtv in versions:
        B, D = cases.tables(mtv)
        elems = sorted(k for k, v in B.items() if R.kind_of(v[1]) == 'n' and k // 1000 not in (0, 31))
        stride = 4 if ctx.quick else (1 if mtv == 33 else 3)
        for i, eid in enumerate(elems):
            if i % stride:
                continue
            n += 1
            if not ctx.mine(n):
                continue
            if not ctx.more():
                break
            failures.maybe(ctx, [dec], [enc], every=6)
            element_contexts(ctx, enc, dec, B, eid, mtv)
            ctx.count('elements')
    fixpoint_own(ctx, enc, dec)
    string_roundtrip(ctx, enc, dec)
    # foreign: sample corpus
    repo = os.environ.get('VERIF_REPO', '/repo')
    files = sorted(glob.glob(os.path.join(repo, 'tests', 'data', '*.bufr')))
    if not ctx.quick:
        files += sorted(glob.glob(os.path.join(repo, 'tests', 'benchmark_data', '*.bufr')))
    for i, f in enumerate(files):
        if not ctx.mine(i) or os.path.basename(f) in ('multi_invalid_messages.bufr', 'prepbufr.bufr'):
            continue
        b = open(f, 'rb').read()
        try:
            rs = R.decode(b)['subsets']
        except Exception:
            rs = None
        fixpoint_foreign(ctx, enc, dec, os.path.basename(f), b, rs)
    # foreign: R-produced with non-canonical layout (widened difference widths, surplus octets)
    quota = 12 if ctx.quick else 300
    k = 0
    while k < quota and ctx.more():
        k += 1
        c = cases.random_case(ctx, pcomp=0.7)
        if c is None:
            continue
        msg = c[0]
        if any(m and m[0] == 'n' and m[2] > 0 and m[1] > 48 for s in msg.subsets for m in s.meta):
            continue
        data = (msg.data_int << ((-msg.data_bits) % 8)).to_bytes((msg.data_bits + 7) // 8, 'big')
        sp = {1: ctx.rng.choice([0, 2]), 4: ctx.rng.choice([0, 2, 4])}
        b = R.build_frame(msg.edition, msg.meta, msg.ids, msg.nsub, msg.compressed, data, msg.sec2, sp)
        fixpoint_foreign(ctx, enc, dec, 'R-produced', b, msg.subsets)
    # a decoded message keeps its values when its rows are handed on and encoded under ANOTHER template (the quantisation of
    # that other encoding is the other message's business): values on a fine grid, rows re-encoded without the operators
    B33, D33 = cases.tables(33)
    shared_rows = [[202129, 12101, 12103, 202000, 1001], [207001, 10004, 12101, 207000, 1002],
                   [201130, 202130, 12001, 7004, 202000, 201000, 1001], [1001, 202130, 13011, 202000, 207002, 11002, 207000]]
    for k, ids in enumerate(shared_rows):
        if not ctx.mine(k):
            continue
        for nsub, comp in ((1, False), (3, False), (2, True)):
            try:
                msg = R.build_message(ids, B33, D33, R.Policy(ctx.rng), nsub, comp, 4)
            except R.Unsupported:
                continue
            ctx.count('rows_shared_with_a_coarser_template')
            handover.on_message(ctx, msg.bytes, dict(part='shared-rows', ids=ids, nsub=nsub, compressed=comp, hex=msg.bytes.hex()),
                                site='shared-rows', p=1.0, quota=100, encoder_returned=0.0,
                                script=('flat_json', 'encode_rows_under_coarser_template', 'state', 'flat_json', 'encode_rendered_object',
                                        'query:', 'encode_rows_under_coarser_template', 'encode_rendered_text'))


def replay(ctx, case):
    from pybufrkit.decoder import Decoder
    from pybufrkit.encoder import Encoder
    spec = case['case']
    enc, dec = Encoder(), Decoder()
    ctx.evaluated(str(spec)[:100], True)
    if spec.get('part') == 'bound' and 'flat_json' in spec:
        try:
            b = enc.process(json.dumps(spec['flat_json'])).serialized_bytes
        except Exception:
            return
        ys = td_of(dec.process(b)).decoded_values_all_subsets[0]
        off = 1 if spec['context'] == '203' else 0
        xs = spec['flat_json'][-2][-1][0][off:]
        for x, y in zip(xs, ys[off:]):
            if not judge(ctx, x, y, spec['w'], spec['s'], spec['r'], spec, 'replay'):
                return
        if 'raw' in spec:
            ctx.violate(case['sig'], 'replay: out-of-range value still accepted', spec)
    elif spec.get('hex'):
        b = bytes.fromhex(spec['hex'])
        b1 = enc.process(render_json(dec.process(b))).serialized_bytes
        b2 = enc.process(render_json(dec.process(b1))).serialized_bytes
        if b1 != b2 or (spec['part'] == 'fixpoint-own' and b1 != b):
            ctx.violate(case['sig'], 'replay: fixpoint still broken', spec)
