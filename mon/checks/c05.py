"""C05 - compression is transparent: same data, same decoded result.

(a) exhaustive small scope: every column of 1..4 subsets over {missing, 0..2^w-2}, w<=3 (thorough
w<=4), numeric and code/flag: real Encoder(compressed) -> real Decoder and R's column reader must
both return the column.  (b) R writes the same columns with every legal difference width
(minimal..minimal+3 and 63): the Decoder must return the column.  (c) random templates/values encoded
compressed and uncompressed decode to identical values, labels, links.  (d) random wide numeric
columns (<=64 bits, <=40 subsets) and character columns.
"""
import itertools
import json

from mon import refbufr as R
from mon import handover, midscan
from mon.compare import close, diff_message, impl_subset, td_of, jsonable, opsig
from mon.gen import cases
from mon.gen import failures

ID = 'C05'
LEVEL = 'exploration'
TECHNIQUE = 'runtime monitoring: exhaustive small-scope column enumeration through the real encoder/decoder plus an independent column reader/writer'
RULE = ('exhaustive: all columns of n<=4 subsets over {missing,0..2^w-2} for w<=3 (quick) / w<=4 (thorough), '
        'numeric (001001 narrowed by 201) and code/flag, 64 columns per message; R-written variants with '
        'difference widths minimal..minimal+3 and 63; random: wide columns, character columns, full templates '
        'both ways; non-trivial = the column is not all-equal; distinct by (kind,w,n,column)/message hash')
RULE += '; added with rounds 10-12: object histories with one long-lived encoder given the same object again; twins'
RULE += ('; mid-scan scenarios (mon/midscan.py): compressed and uncompressed forms of the same data delivered by scans / decodes in '
         'flight together on one decoder, each held against the snapshot of its other layout')
ASSUMPTIONS = ['all-ones == missing across an encode (2.6); strings compared space-padded (2.7)',
               'compressed character columns with non-zero base and non-zero width are not generated']
BUDGET = {'quick': 50, 'thorough': 600}
EXHAUSTIVE = {'quick': True, 'thorough': True}
EXHAUSTIVE_NOTE = {'quick': 'all 5 050 columns (w<=3, n<=4) x {numeric, code/flag} through Encoder->Decoder and R reader',
                   'thorough': 'all 74 954 columns (w<=4, n<=4) x {numeric, code/flag}, plus R-written width variants'}
REQUIRED = {'quick': {'columns_enc_dec': 10100, 'columns_r_written': 10000, 'transparency_cases': 310, 'wide_columns': 400,
                      'string_columns': 200, 'associated_width_cases': 36, 'mid_scan_results_judged': 600},
            'thorough': {'columns_enc_dec': 149908, 'columns_r_written': 140000, 'transparency_cases': 6200,
                      'wide_columns': 10000, 'string_columns': 5000, 'associated_width_cases': 36}}


def anchors():
    from pybufrkit.encoder import Encoder, nbits_for_uint
    from pybufrkit.decoder import Decoder
    return [Encoder.process_numeric_compressed, Encoder.process_codeflag_compressed,
            Encoder.process_string_compressed, Encoder._next_compressed_values_and_status_from_all_subsets,
            nbits_for_uint, Decoder.process_numeric_compressed, Decoder.process_codeflag_compressed,
            Decoder.process_string_compressed]


class ColumnPolicy(R.Policy):
    """feeds predetermined raw columns to the free fields, fixed difference-width rule"""

    def __init__(self, rng, cols, delta):
        R.Policy.__init__(self, rng)
        self.cols = list(cols)
        self.i = 0
        self.delta = delta

    def uint_column(self, pw, w):
        c = self.cols[self.i]
        self.i += 1
        return list(c)

    def str_column(self, pw, nbytes):
        c = self.cols[self.i]
        self.i += 1
        return list(c)

    def diff_width(self, minimal):
        if self.delta == 63:
            return 63
        return min(63, minimal + self.delta)


def code_elements(B):
    out = {}
    for w in (1, 2, 3, 4):
        c = sorted(k for k, v in B.items() if R.kind_of(v[1]) == 'c' and v[4] == w and k // 1000 not in (0, 33))
        if w == 1:
            c = [31031]
        out[w] = c[0]
    return out


def columns(w, n):
    dom = [None] + list(range(0, (1 << w) - 1)) if w > 1 else [0, 1]
    return itertools.product(dom, repeat=n)


def chunks(it, k):
    buf = []
    for x in it:
        buf.append(x)
        if len(buf) == k:
            yield buf
            buf = []
    if buf:
        yield buf


def column_of(msg_real, j, n):
    td = td_of(msg_real)
    return [td.decoded_values_all_subsets[k][j] for k in range(n)]


def small_scope(ctx, enc, dec, B, D):
    codes = code_elements(B)
    wmax = 3 if ctx.quick else 4
    gi = 0
    for kind in ('n', 'c'):
        for w in range(1, wmax + 1):
            for n in range(1, 5):
                for group in chunks(columns(w, n), 64):
                    gi += 1
                    if not ctx.mine(gi):
                        continue
                    if not ctx.more():
                        return
                    if kind == 'n':
                        ids = [201000 + 121 + w] + [1001] * len(group) + [201000]
                        off = 0
                    else:
                        ids = [codes[w]] * len(group)
                        off = 0
                    # ---- (a) real encoder -> real decoder and R's reader
                    vals = [[col[k] for col in group] for k in range(n)]
                    fj = [['BUFR', 0, 4], [0, 0, 0, 0, 0, False, '0000000', 0, 0, 0, 33, 0, 2020, 1, 1, 0, 0, 0],
                          [0, '00000000', n, True, True, '000000', ids], [0, '00000000', vals], ['7777']]
                    spec = dict(part='a', kind=kind, w=w, n=n, ids=ids, first_column=group[0], ncolumns=len(group))
                    try:
                        b = enc.process(json.dumps(fj)).serialized_bytes
                        m = dec.process(b)
                        r = R.decode(b)
                    except Exception as e:
                        ctx.violate('small/%s/exception:%s/w%d' % (kind, type(e).__name__, w),
                                    'encode->decode of enumerated columns raised %r' % (e,), dict(spec, flat_json=fj), exc=e)
                        continue
                    for j, col in enumerate(group):
                        ctx.count('columns_enc_dec')
                        nt = len(set(col)) > 1
                        ctx.evaluated(('a', kind, w, n, col), nt,
                                      sample=dict(part='a', kind=kind, w=w, n=n, column=col) if j == 7 and w == 3 and n == 3 else None)
                        got = column_of(m, j + off, n)
                        rgot = [s.raws[j + off] for s in r['subsets']]
                        if list(got) != list(col):
                            ctx.violate('small/%s/decoder-column-differs/%s' % (kind, colclass(col, w)),
                                        'column %r (w=%d) encoded compressed reads back as %r' % (col, w, got),
                                        dict(spec, column=col, flat_json=fj), expected=col, observed=got)
                            break
                        if list(rgot) != list(col):
                            ctx.violate('small/%s/independent-reader-differs/%s' % (kind, colclass(col, w)),
                                        'column %r (w=%d): independent reader sees %r in the encoder output' % (col, w, rgot),
                                        dict(spec, column=col, hex=b.hex()), expected=col, observed=rgot)
                            break
                    # ---- (b) R writes with every legal width; real decoder reads
                    for delta in (0, 1, 2, 3, 63):
                        pol = ColumnPolicy(ctx.rng, group, delta)
                        msg = R.build_message(ids, B, D, pol, n, True, 4)
                        try:
                            failures.maybe(ctx, [dec], [enc], every=6)
                            m = dec.process(msg.bytes)
                        except Exception as e:
                            ctx.violate('rwritten/%s/exception:%s/delta%s' % (kind, type(e).__name__, delta),
                                        'decoder raised %r on R-written columns (difference width minimal+%s)' % (e, delta),
                                        dict(spec, delta=delta, hex=msg.bytes.hex()), exc=e)
                            continue
                        for j, col in enumerate(group):
                            ctx.count('columns_r_written')
                            ctx.add('deltas', delta)
                            want = [None if (x is None) else x for x in col]
                            got = column_of(m, j + off, n)
                            if list(got) != want:
                                ctx.violate('rwritten/%s/column-differs/delta%s/%s' % (kind, delta, colclass(col, w)),
                                            'column %r (w=%d) written with difference width minimal+%s reads as %r'
                                            % (col, w, delta, got), dict(spec, column=col, delta=delta, hex=msg.bytes.hex()),
                                            expected=want, observed=got)
                                break
                        ctx.evaluated(('b', kind, w, n, delta, gi), True)


def colclass(col, w):
    s = set(col)
    if len(s) == 1:
        if isinstance(col[0], bytes) and col[0] and not col[0].strip(b'\0'):
            return 'all-equal-nul'
        return 'all-missing' if col[0] is None else 'all-equal'
    if None in s:
        rest = s - {None}
        return 'one-value+missing' if len(rest) == 1 else 'mixed+missing'
    return 'distinct'


def snapshot(m):
    td = td_of(m)
    return [impl_subset(td, k) for k in range(len(td.decoded_values_all_subsets))]


def same_value(a, b, meta):
    if a == b:
        return True
    if isinstance(a, bytes) and isinstance(b, bytes):
        n = max(len(a), len(b))
        return a.ljust(n) == b.ljust(n)
    if isinstance(a, float) and isinstance(b, float):
        return a == b
    return False


def associated_widths(ctx, enc, dec):
    """the same element carries associated fields of two widths (204YYY ... 204000, 204ZZZ ...), narrower first: in one message
    and in two consecutive messages of the long-lived coders.  The wider field holds, among others, the all-ones value of
    the NARROWER width - an ordinary value there.  Compressed and uncompressed must both give back the values put in."""
    for w1, w2 in ((2, 6), (3, 5), (2, 4), (4, 7), (1, 3)):
        for elem, v in ((1001, [1, 2, 3]), (20011, [1, 2, 3]), (12001, [270.5, 271.5, 272.5])):
            a1 = [0, 1, max(0, (1 << w1) - 2)]
            a2 = [1, (1 << w1) - 1, (1 << w2) - 2]
            whole = ([204000 + w1, 31021, elem, 204000, 204000 + w2, 31021, elem, 204000],
                     [[1, a1[k], v[k], 1, a2[k], v[k]] for k in range(3)])
            first = ([204000 + w1, 31021, elem, 204000], [[1, a1[k], v[k]] for k in range(3)])
            second = ([204000 + w2, 31021, elem, 204000], [[1, a2[k], v[k]] for k in range(3)])
            for name, (ids, rows) in (('one-message', whole), ('first-of-two', first), ('second-of-two', second)):
                for comp in (True, False):
                    spec = dict(part='assoc-widths', ids=ids, rows=rows, compressed=comp, widths=[w1, w2])
                    fj = [['BUFR', 0, 4], [0, 0, 0, 0, 0, False, '0000000', 0, 0, 0, 33, 0, 2020, 1, 1, 0, 0, 0],
                          [0, '00000000', 3, True, comp, '000000', ids], [0, '00000000', rows], ['7777']]
                    ctx.count('associated_width_cases')
                    ctx.evaluated(('assoc-widths', w1, w2, elem, name, comp), True)
                    try:
                        got = td_of(dec.process(enc.process(json.dumps(fj)).serialized_bytes)).decoded_values_all_subsets
                    except Exception as e:
                        ctx.violate('assoc-widths/exception:%s/%s' % (type(e).__name__, 'c' if comp else 'u'),
                                    'associated fields of widths %d then %d on %06d raised %r' % (w1, w2, elem, e), spec, exc=e)
                        continue
                    got = [list(r) for r in got]
                    if got != rows:
                        ctx.violate('assoc-widths/values-differ/%s/%s' % ('c' if comp else 'u', name),
                                    'associated fields of widths %d then %d on %06d (%s): decoded %r, put in %r'
                                    % (w1, w2, elem, 'compressed' if comp else 'uncompressed', jsonable(got), rows), spec)


def compare_snaps(sc, su):
    if len(sc) != len(su):
        return ('nsubsets', None, None)
    for i, ((lc, vc, kc), (lu, vu, ku)) in enumerate(zip(sc, su)):
        if lc != lu:
            return ('labels', i, None)
        if kc != ku:
            return ('links', i, None)
        if len(vc) != len(vu):
            return ('length', i, None)
        for j, (a, bq) in enumerate(zip(vc, vu)):
            if not same_value(a, bq, None):
                return ('values', i, (j, lc[j], a, bq))
    return None


def judge_other_layout(kind, m, other, opts):
    """C05's oracle for a message delivered / read in the middle of other work: the snapshot of the same data decoded from its
    other layout (taken on a quiet decoder, where the two layouts agreed)"""
    if kind != 'full':
        return None
    bad = compare_snaps(snapshot(m), other)
    if bad:
        return ('%s-differ-from-other-layout' % bad[0], 'decoded %s differ from the decode of the same data in its other layout: %r' % (bad[0], jsonable(bad)))
    return None


def transparency(ctx, enc, dec):
    if ctx.mine(0):
        associated_widths(ctx, enc, dec)
    quota = 60 if ctx.quick else 1200
    k = 0
    while k < quota and ctx.more():
        k += 1
        c = cases.random_case(ctx, pcomp=1.0, nsub_choices=(1, 2, 3, 4, 6))
        if c is None:
            continue
        msg = c[0]
        if any(m and m[0] == 'n' and m[2] > 0 and m[1] > 48 for s in msg.subsets for m in s.meta):
            continue
        spec = dict(part='c', ids=msg.ids, nsub=msg.nsub, edition=msg.edition)
        try:
            fjc = R.flat_json(msg)
            unc = R.Message(**dict(msg.__dict__, compressed=False))
            fju = R.flat_json(unc)
            spec['flat_json_compressed'] = jsonable(fjc)
            bc = enc.process(json.dumps(fjc)).serialized_bytes
            bu = enc.process(json.dumps(fju)).serialized_bytes
            sc = snapshot(dec.process(bc))
            su = snapshot(dec.process(bu))
            # handing a decoded message on (subset / rendered object) and encoding it in the other layout is part of "the same
            # data encoded both ways": object histories on both
            handover.on_message(ctx, bc if k % 2 else bu, spec, site='transparency', p=0.3)
        except Exception as e:
            ctx.violate('transparency/exception:%s/ops[%s]' % (type(e).__name__, opsig(msg.ids)),
                        'encoding/decoding the same data compressed and uncompressed raised %r' % (e,), spec, exc=e)
            continue
        ctx.count('transparency_cases')
        ctx.evaluated(bc.hex(), msg.nsub > 1, sample=dict(part='c', ids=msg.ids, nsub=msg.nsub) if k == 1 else None)
        for op in msg.ops:
            ctx.add('operators', op)
        bad = compare_snaps(sc, su)
        if not bad and len(bc) < 3000 and len(bu) < 3000:
            # "the same data both ways decode to the same result" is stated for the data, not for a quiet decoder: the compressed
            # forms are scanned / decoded while scans and decodes of the uncompressed forms of the same data are in flight on
            # the same decoder; each delivered message is held against the snapshot of its OTHER layout
            recent = ctx.__dict__.setdefault('_c05_recent', [])
            recent.append((bc, su, bu, sc))
            if len(recent) >= 3:
                ctx.count('mid_scan_blocks')
                if ctx.counters['mid_scan_blocks'] % (3 if ctx.quick else 2) == 1:
                    from pybufrkit.decoder import Decoder
                    A, Bs = [(r[0], r[1]) for r in recent], [(r[2], r[3]) for r in recent]
                    if ctx.rng.random() < 0.5:
                        A, Bs = Bs, A
                    midscan.scenarios(ctx, 'transparency', Decoder, A, Bs, judge_other_layout, dict(part='c', origin='mid-scan'))
                del recent[:]
        if bad:
            ctx.violate('transparency/%s-differ' % bad[0],
                        'same data decodes differently when stored compressed vs uncompressed: %r' % (jsonable(bad),), spec)


def wide_and_strings(ctx, enc, dec, B, D):
    rng = ctx.rng
    quota = 40 if ctx.quick else 900
    for q in range(quota):
        if not ctx.more():
            return
        n = rng.choice([2, 3, 5, 8, 17, 40])
        w = rng.choice([5, 7, 8, 9, 12, 15, 16, 17, 24, 31, 32, 33, 47, 48, 63, 64])
        ncol = 12
        top = (1 << w) - 1
        cols = []
        for _ in range(ncol):
            shape = rng.random()
            base = rng.randint(0, top - 1)
            if shape < 0.15:
                col = [base] * n
            elif shape < 0.25:
                col = [None] * n
            elif shape < 0.4:
                col = [base] * n
                col[rng.randrange(n)] = None
            elif shape < 0.7:
                k = rng.randint(1, min(w, 62))   # the 6-bit increment width cannot exceed 63
                span = min((1 << k) + rng.choice([-2, -1, 0]), top - 1)
                span = max(span, 0)
                lo = rng.randint(0, top - 1 - span)
                col = [rng.choice([lo, lo + span, rng.randint(lo, lo + span)]) for _ in range(n)]
                col[0], col[-1] = lo, lo + span
                if rng.random() < 0.4:
                    col[rng.randrange(n)] = None
            else:
                lo = rng.randint(0, top - 1)
                hi = min(top - 1, lo + (1 << min(w, 62)) - 2)
                col = [rng.choice([None, rng.randint(lo, hi)]) for _ in range(n)]
            cols.append(col)
        ids = [201000 + 128 + (w - 7)] + [1001] * ncol + [201000]
        vals = [[c[k] for c in cols] for k in range(n)]
        fj = [['BUFR', 0, 4], [0, 0, 0, 0, 0, False, '0000000', 0, 0, 0, 33, 0, 2020, 1, 1, 0, 0, 0],
              [0, '00000000', n, True, True, '000000', ids], [0, '00000000', vals], ['7777']]
        spec = dict(part='d-wide', w=w, n=n, ids=ids)
        try:
            b = enc.process(json.dumps(fj)).serialized_bytes
            m = dec.process(b)
            r = R.decode(b)
        except Exception as e:
            ctx.violate('wide/exception:%s' % type(e).__name__, 'wide columns (w=%d,n=%d) raised %r' % (w, n, e),
                        dict(spec, flat_json=fj), exc=e)
            continue
        for j, col in enumerate(cols):
            ctx.count('wide_columns')
            ctx.add('wide_widths', w)
            ctx.evaluated(('d', w, n, tuple(col)), len(set(col)) > 1)
            got = column_of(m, j, n)
            rgot = [s.raws[j] for s in r['subsets']]
            if list(got) != col or rgot != col:
                ctx.violate('wide/column-differs/%s' % colclass(col, w),
                            'w=%d n=%d column %r reads back as %r (independent reader %r)' % (w, n, col, got, rgot),
                            dict(spec, column=col, flat_json=fj), expected=col, observed=got)
                break
        # R-written wide columns with wider increments
        for delta in (0, 2, 63):
            pol = ColumnPolicy(rng, cols, delta)
            msg = R.build_message(ids, B, D, pol, n, True, 4)
            try:
                failures.maybe(ctx, [dec], [enc], every=6)
                m = dec.process(msg.bytes)
            except Exception as e:
                ctx.violate('wide/rwritten-exception:%s/delta%s' % (type(e).__name__, delta), 'decoder raised %r' % (e,),
                            dict(spec, hex=msg.bytes.hex()), exc=e)
                continue
            dd = diff_message(m, msg.subsets)
            ctx.count('wide_r_written')
            if dd:
                ctx.violate('wide/rwritten-differs/delta%s' % delta, 'R-written wide columns read differently: %r' % (jsonable(dd),),
                            dict(spec, hex=msg.bytes.hex()))
    # ---- character columns
    squota = 25 if ctx.quick else 500
    for q in range(squota):
        if not ctx.more():
            return
        n = rng.choice([2, 3, 4, 9])
        nb = rng.choice([1, 4, 8, 20])
        eid = {1: None, 4: None, 8: None, 20: 1015}[nb]
        if eid is None:
            ids = [208000 + nb] + [1015] * 8 + [208000]
        else:
            ids = [1015] * 8
        cols = []
        for _ in range(8):
            shape = rng.random()
            mk = lambda: bytes(rng.choice(b'abcXYZ 019\'"#\\\xe9') for _ in range(rng.randint(0, nb))).ljust(nb)
            base = mk()
            if shape < 0.2:
                col = [base] * n
            elif shape < 0.35:
                col = [None] * n
            elif shape < 0.5:
                col = [base] * n
                col[rng.randrange(n)] = None
            elif shape < 0.6:
                col = [b' ' * nb] * n
            elif shape < 0.66:
                col = [b'\0' * nb] * n          # identical all-NUL strings (S8)
            elif shape < 0.7:
                col = [rng.choice([b'\0' * nb, base]) for _ in range(n)]
            else:
                col = [rng.choice([None, mk(), base]) for _ in range(n)]
            cols.append(col)
        vals = [[None if c[k] is None else c[k].rstrip(b' ').decode('latin-1') if rng.random() < 0.5 else c[k].decode('latin-1')
                 for c in cols] for k in range(n)]
        fj = [['BUFR', 0, 4], [0, 0, 0, 0, 0, False, '0000000', 0, 0, 0, 33, 0, 2020, 1, 1, 0, 0, 0],
              [0, '00000000', n, True, True, '000000', ids], [0, '00000000', vals], ['7777']]
        spec = dict(part='d-string', nbytes=nb, n=n, ids=ids)
        try:
            b = enc.process(json.dumps(fj)).serialized_bytes
            m = dec.process(b)
            r = R.decode(b)
        except Exception as e:
            ctx.violate('string/exception:%s' % type(e).__name__, 'character columns raised %r' % (e,), dict(spec, flat_json=fj), exc=e)
            continue
        for j, col in enumerate(cols):
            ctx.count('string_columns')
            ctx.evaluated(('s', nb, n, tuple(col)), len(set(col)) > 1)
            want = [b'\xff' * nb if x is None else x for x in col]
            got = column_of(m, j, n)
            rgot = [s.raws[j] for s in r['subsets']]
            okd = all(isinstance(g, bytes) and g.ljust(nb) == wv for g, wv in zip(got, want))
            okr = all(isinstance(g, bytes) and g.ljust(nb) == wv for g, wv in zip(rgot, want))
            if not okd or not okr:
                ctx.violate('string/column-differs/%s' % colclass(col, 8),
                            'character column %r reads back as %r (independent reader %r)' % (col, got, rgot),
                            dict(spec, column=col, flat_json=fj), expected=want, observed=got)
                break
        # R-written with a narrower increment (FM-94 allows it: trailing blanks dropped)
        k = rng.randint(1, nb)
        cols2 = [[(c if c is not None else b'\xff' * nb) for c in col] for col in cols]
        pol = ColumnPolicy(rng, cols2, 0)
        msg = R.build_message(ids, B, D, pol, n, True, 4)
        try:
            failures.maybe(ctx, [dec], [enc], every=6)
            m = dec.process(msg.bytes)
            dd = diff_message(m, msg.subsets)
            ctx.count('string_r_written')
            if dd:
                ctx.violate('string/rwritten-differs', 'R-written character columns read differently: %r' % (jsonable(dd),),
                            dict(spec, hex=msg.bytes.hex()))
        except Exception as e:
            ctx.violate('string/rwritten-exception:%s' % type(e).__name__, 'decoder raised %r' % (e,), dict(spec, hex=msg.bytes.hex()), exc=e)


def uncompressible(ctx, enc, dec):
    """subsets whose delayed replication counts (or bitmaps) differ cannot be stored compressed: asking for it is either
    refused or - if something is produced - decodes to the same values as the uncompressed encoding"""
    rng = ctx.rng
    B, D = cases.tables(33)
    shapes = [[1001, 101000, 31001, 12001, 2001], [102000, 31001, 12001, 1001, 12004],
              [12001, 4024, 5001, 222000, 101003, 31031, 101000, 31001, 33007]]
    for q in range(6 if ctx.quick else 60):
        if not ctx.mine(q):
            continue
        ids = shapes[q % len(shapes)]
        for attempt in range(6):
            try:
                msg = R.build_message(ids, B, D, R.Policy(rng), rng.choice([2, 3]), False, 4)
            except R.Unsupported:
                continue
            if len(set(tuple(s.labels) for s in msg.subsets)) > 1 or len(set(tuple(sorted(s.links.items())) for s in msg.subsets)) > 1:
                break
        else:
            continue
        ctx.count('uncompressible_cases')
        spec = dict(part='uncompressible', ids=ids, nsub=msg.nsub, hex=msg.bytes.hex())
        ctx.evaluated(('uncompressible', msg.bytes.hex()), True)
        fjc = R.flat_json(R.Message(**dict(msg.__dict__, compressed=True)))
        try:
            bc = enc.process(json.dumps(fjc)).serialized_bytes
        except Exception as e:
            ctx.count('uncompressible_refused')
            ctx.add('uncompressible_refusals', type(e).__name__)
            continue
        try:
            sc = snapshot(dec.process(bc))
            su = snapshot(dec.process(msg.bytes))
        except Exception as e:
            ctx.count('uncompressible_output_undecodable')
            continue
        if [x[:2] for x in sc] != [x[:2] for x in su]:
            ctx.violate('transparency/structure-differs-between-subsets-accepted',
                        'subsets with different replication counts / bitmaps were accepted for compressed encoding and decode to '
                        'other values than the same subsets stored uncompressed', spec)


def run(ctx):
    from pybufrkit.decoder import Decoder
    from pybufrkit.encoder import Encoder
    enc, dec = Encoder(), Decoder()
    B, D = cases.tables(33)
    wide_and_strings(ctx, enc, dec, B, D)
    transparency(ctx, enc, dec)
    uncompressible(ctx, enc, dec)
    small_scope(ctx, enc, dec, B, D)


def replay(ctx, case):
    from pybufrkit.decoder import Decoder
    from pybufrkit.encoder import Encoder
    spec = case['case']
    ctx.evaluated(str(spec)[:200], True)
    if 'flat_json' in spec:
        b = Encoder().process(json.dumps(spec['flat_json'])).serialized_bytes
        m = Decoder().process(b)
        td = td_of(m)
        vals = spec['flat_json'][-2][-1]
        for k, row in enumerate(vals):
            for j, v in enumerate(row):
                got = td.decoded_values_all_subsets[k][j]
                if isinstance(got, bytes):
                    got = got.decode('latin-1').rstrip(' ')
                    v = None if v is None else v.rstrip(' ')
                    if v is None:
                        continue
                if got != v:
                    ctx.violate(case['sig'], 'replay: value [%d][%d] %r != %r' % (k, j, got, v), spec)
                    return
    elif 'hex' in spec:
        b = bytes.fromhex(spec['hex'])
        r = R.decode(b)
        m = Decoder().process(b)
        d = diff_message(m, r['subsets'])
        if d:
            ctx.violate(case['sig'], 'replay: %r' % (jsonable(d),), spec)
