"""C15 - the path-expression parser accepts exactly the documented grammar.

Oracle: an independent three-valued recogniser/parser written from docs/internals.rst
(ACCEPT with expected structure / REJECT / UNSPECIFIED).  Exhaustive over all strings up to
length 5 (quick) / 6 (thorough) over the 12-symbol alphabet; random grammar-derived long
expressions and all single-character mutations of them.  Rejections must be
PathExprParsingError; print -> parse must be a fixpoint.
"""
import itertools

ID = 'C15'
LEVEL = 'exploration'
TECHNIQUE = 'runtime monitoring: reference recogniser as oracle over exhaustively enumerated and mutated inputs of the real parser'
RULE = ('exhaustive: every string of length <=5 (quick) / <=6 (thorough) over {@ [ ] : / . > - 0 1 A space}; '
        'random: grammar-derived expressions with every single-character insert/delete/replace mutation; '
        'non-trivial = contains a structural character; distinct by the string itself; both parser configurations (absent slice = all occurrences / first occurrence)')
RULE += '; added with rounds 10-12: white space of every kind (blank, tab, line ends) inside, before and behind generated expressions; twins (a parser with the opposite option parses the same string first)'
ASSUMPTIONS = ['IDs are non-empty runs of digits/upper-case letters; IDs with other characters are UNSPECIFIED '
               '(not judged for acceptance, still judged for exception type and print/parse)',
               'integers are [+-]?digits; literals with "_" are UNSPECIFIED',
               'after an @[slice] selector the first separator is mandatory; the first separator may not be "."']
BUDGET = {'quick': 50, 'thorough': 500}
EXHAUSTIVE = {'quick': True, 'thorough': True}
EXHAUSTIVE_NOTE = {'quick': 'all 271 452 strings of length <=5 over the 12-symbol alphabet',
                   'thorough': 'all 3 257 436 strings of length <=6 over the 12-symbol alphabet'}
REQUIRED = {'quick': {'exhaustive_strings': 271452, 'accepted': 3000, 'rejected': 160000, 'mutations': 15000,
                      'print_parse_fixpoints': 3000},
            'thorough': {'exhaustive_strings': 3257436, 'accepted': 30000, 'rejected': 1900000, 'mutations': 300000,
                      'print_parse_fixpoints': 30000}}


MONITORS = ('boundary', 'telemetry')
ALPHABET = '@[]:/.>-01A '
WS = ' \t\n\r\x0b\x0c'
WS_KINDS = [' ', ' ', '\t', '\n', '\r\n', '  ']

ACCEPT, REJECT, UNSPEC = 'accept', 'reject', 'unspecified'


def anchors():
    from pybufrkit.dataquery import NodePathParser
    P = NodePathParser
    return [P.parse, P.handle_left_bracket, P.handle_colon_and_right_bracket, P.handle_separator,
            P.convert_slice_element, P.create_slice_object]


def _int(tok):
    if tok == '':
        return None
    t = tok[1:] if tok[0] in '+-' else tok
    if t == '' or not all(c in '0123456789' for c in t):
        if t and all(c in '0123456789_' for c in t):
            raise LookupError('underscore literal')
        raise ValueError(tok)
    return int(tok)


def _slice(t, i):
    """t[i] == '['. Returns (slice object, next index) or raises ValueError (reject)."""
    j = t.find(']', i)
    if j < 0:
        raise ValueError('unterminated slice')
    body = t[i + 1:j]
    for c in body:
        if c in '@[/.>':
            raise ValueError('bad char in slice')
    parts = body.split(':')
    if len(parts) > 3:
        raise ValueError('too many parts')
    vals = [_int(p) for p in parts]
    if len(parts) == 1:
        k = vals[0]
        if k is None:
            raise ValueError('empty slice')
        if k >= 0:
            return k, j + 1
        return slice(k, k + 1 if k != -1 else None, None), j + 1
    return slice(*vals), j + 1


def reference(s, bare_all=True):
    """-> (verdict, structure) ; structure = (subset_slice, [(sep, id, slice)]).  bare_all: what an absent slice means -
    every occurrence (the default parser) or the first one (NodePathParser(bare_id_matches_all=False))"""
    absent = slice(None, None, None) if bare_all else 0
    t = ''.join(c for c in s if c not in WS)
    if t == '':
        return REJECT, None
    unspec = False
    i = 0
    subset = absent
    has_at = False
    try:
        if t[0] == '@':
            has_at = True
            if len(t) < 2 or t[1] != '[':
                return REJECT, None
            subset, i = _slice(t, 1)
        comps = []
        first = True
        while i < len(t):
            if t[i] in '/.>':
                sep = t[i]
                i += 1
                if first and sep == '.':
                    return REJECT, None
            elif first and not has_at:
                sep = '>'
            else:
                return REJECT, None
            j = i
            while j < len(t) and t[j] not in '/.>[':
                if t[j] in '@]:':
                    return REJECT, None
                if not (t[j].isdigit() and t[j].isascii() or 'A' <= t[j] <= 'Z'):
                    unspec = True
                j += 1
            ident = t[i:j]
            if ident == '':
                return REJECT, None
            i = j
            slc = absent
            if i < len(t) and t[i] == '[':
                slc, i = _slice(t, i)
            comps.append((sep, ident, slc))
            first = False
        if not comps:
            return REJECT, None
    except ValueError:
        return REJECT, None
    except LookupError:
        return UNSPEC, None
    if unspec:
        return UNSPEC, (subset, comps)
    return ACCEPT, (subset, comps)


def structure_of(p):
    return (p.subset_slice, [(c.separator, c.id, c.slice) for c in p.components])


def judge(ctx, parser, PErr, s, origin):
    verdict, want = reference(s, getattr(parser, 'bare_id_matches_all', True))
    if not getattr(parser, 'bare_id_matches_all', True):
        ctx.count('judged_with_first_match_parser')
        origin = origin + '/first-match-parser'
    try:
        p = parser.parse(s)
        got = structure_of(p)
        outcome = ACCEPT
    except PErr:
        outcome = REJECT
        got = None
    except Exception as e:
        ctx.count('wrong_exception')
        ctx.violate('wrong-exception:%s/%s' % (type(e).__name__, origin),
                    'parse(%r) raised %s instead of PathExprParsingError' % (s, type(e).__name__), dict(string=s), exc=e)
        return
    structural = any(c in s for c in '@[]:/.>')
    ctx.evaluated(s, structural)
    # the same string given again to the same (long-lived) parser must be judged the same way
    ctx.counters['judged'] += 1
    if origin != 'exhaustive' or ctx.counters['judged'] % 3 == 0:
        try:
            got2 = structure_of(parser.parse(s))
            out2 = ACCEPT
        except PErr:
            out2, got2 = REJECT, None
        except Exception as e:
            out2, got2 = 'raises ' + type(e).__name__, None
        ctx.count('reparsed_same_string')
        if out2 != outcome or got2 != got:
            ctx.violate('same-string-parsed-twice-differs/%s-then-%s' % (outcome, out2),
                        'parse(%r) on the same parser: first %s %r, then %s %r' % (s, outcome, got, out2, got2), dict(string=s, twice=True))
            return
    if verdict == UNSPEC:
        ctx.count('unspecified')
    elif verdict == ACCEPT:
        ctx.count('accepted')
        if outcome == REJECT:
            ctx.violate('rejects-grammatical/%s' % origin, 'string %r is in the grammar but was rejected' % s, dict(string=s))
            return
        if got != want:
            ctx.violate('wrong-structure/%s' % origin, 'parse(%r) = %r, grammar dictates %r' % (s, got, want), dict(string=s),
                        expected=repr(want), observed=repr(got))
            return
    else:
        ctx.count('rejected')
        if outcome == ACCEPT:
            t = ''.join(c for c in s if c not in WS)
            end = ('dangling-subset-selector' if t.startswith('@') and not got[1] else
                   'unterminated-slice' if t.count('[') > t.count(']') else 'other')
            ctx.violate('accepts-ungrammatical/%s' % end,
                        'string %r is outside the grammar but was accepted as %r (part of the path silently dropped)'
                        % (s, got), dict(string=s), observed=repr(got))
            return
    if outcome == ACCEPT:
        # print -> parse fixpoint
        try:
            txt = str(p)
            p2 = parser.parse(txt)
            if structure_of(p2) != got or str(p2) != txt:
                ctx.violate('print-parse-not-fixpoint', 'parse(%r) prints as %r which parses to %r' % (s, txt, structure_of(p2)),
                            dict(string=s))
            else:
                ctx.count('print_parse_fixpoints')
                if origin != 'exhaustive' or ctx.counters['judged'] % 50 == 0:
                    edited_path_prints(ctx, parser, p, s)
        except Exception as e:
            ctx.violate('print-parse-raises:%s' % type(e).__name__, 'printout %r of parse(%r) does not parse' % (str(p), s),
                        dict(string=s), exc=e)


def edited_path_prints(ctx, parser, p, s):
    """A parsed path is an object with public parts (`subset_slice`, `add_component`): after it has been printed once, narrowing
    the subset selector or adding a component and printing again gives the text of the path as it is NOW - the printout parses back
    to the edited structure (print -> parse is a fixpoint for every path object, not only for untouched ones)."""
    rng = ctx.rng
    before = structure_of(p)
    comps = list(before[1])
    new_sel = rng.choice([3, 0, slice(1, None, None), slice(None, 4, 2), slice(None, None, None), slice(-2, None, None)])
    try:
        p.subset_slice = new_sel
        t1 = str(p)
        got1 = structure_of(parser.parse(t1))
        ctx.count('edited_paths_printed')
        if got1 != (new_sel, comps):
            ctx.violate('print-after-edit/subset-selector', 'parse(%r), printed, subset_slice set to %r: prints as %r which parses to %r'
                        % (s, new_sel, t1, got1), dict(string=s, edit='subset_slice', value=repr(new_sel)))
            return
        if p.components and rng.random() < 0.5:
            c = p.components[rng.randrange(len(p.components))]
            p.add_component(c)
            comps.append((c.separator, c.id, c.slice))
            t2 = str(p)
            got2 = structure_of(parser.parse(t2))
            ctx.count('edited_paths_printed')
            if got2 != (new_sel, comps):
                ctx.violate('print-after-edit/add-component', 'parse(%r), printed, a component added: prints as %r which parses to %r'
                            % (s, t2, got2), dict(string=s, edit='add_component'))
        # the result a caller holds is the caller's: editing it does not change what the parser answers for the same string
        again = parser.parse(s)
        ctx.count('reparsed_after_edit_of_first_result')
        if again is p or structure_of(again) != before:
            ctx.violate('parse-after-edit-of-earlier-result', 'parse(%r) after the path returned by the first parse(%r) had been edited gives %r, '
                        'the first time %r' % (s, s, structure_of(again), before), dict(string=s, edit='then parsed again'))
    except Exception as e:
        ctx.violate('print-after-edit/raises:%s' % type(e).__name__, 'editing and printing parse(%r) raised %r' % (s, e),
                    dict(string=s, edit='subset_slice/add_component'), exc=e)


def rand_int(rng):
    return rng.choice(['', '0', '1', '-1', '10', '-2', '3', '007', '-10', '+2'])


def rand_slice(rng):
    r = rng.random()
    if r < 0.3:
        return ''
    if r < 0.55:
        return '[%s]' % rng.choice(['0', '1', '-1', '12', '-3'])
    if r < 0.8:
        return '[%s:%s]' % (rand_int(rng), rand_int(rng))
    return '[%s:%s:%s]' % (rand_int(rng), rand_int(rng), rand_int(rng))


def rand_expr(rng):
    ids = ['001001', '301001', 'A21062', '103000', '031001', 'T12001', 'R05', '008042', 'F08023', 'Z']
    s = ''
    if rng.random() < 0.4:
        s = '@' + (rand_slice(rng) or '[0]')
        seps = '/>'
    else:
        seps = '/>' + ('' if rng.random() < 0.6 else '')
    n = rng.randint(1, 6)
    for k in range(n):
        if k == 0:
            if s:
                sep = rng.choice('/>')
            else:
                sep = rng.choice(['/', '>', ''])
        else:
            sep = rng.choice('/.>')
        s += sep + rng.choice(ids) + rand_slice(rng)
    # sprinkle whitespace
    if rng.random() < 0.5:
        out = ''
        for c in s:
            out += c + (rng.choice(WS_KINDS) if rng.random() < 0.15 else '')
        if rng.random() < 0.3:
            out = rng.choice(WS_KINDS) * rng.randint(1, 3) + out          # leading white space
        if rng.random() < 0.3:
            out += rng.choice(['\n', '\r\n', ' ', '\t'])       # an expression read from a file ends with a line end
        s = out
    return s


def run(ctx):
    from pybufrkit.dataquery import NodePathParser
    from pybufrkit.errors import PathExprParsingError
    parser = NodePathParser()
    parser1 = NodePathParser(bare_id_matches_all=False)   # the documented option: a bare ID means its first occurrence
    maxlen = 5 if ctx.quick else 6
    n = 0
    for L in range(0, maxlen + 1):
        # shard by the first two characters to avoid generating everything in every shard
        if L < 2:
            for tup in itertools.product(ALPHABET, repeat=L):
                n += 1
                if ctx.mine(n):
                    judge(ctx, parser, PathExprParsingError, ''.join(tup), 'exhaustive')
                    judge(ctx, parser1, PathExprParsingError, ''.join(tup), 'exhaustive')
                    ctx.count('exhaustive_strings')
            continue
        for a, head in enumerate(itertools.product(ALPHABET, repeat=2)):
            if not ctx.mine(a + L):
                continue
            h = ''.join(head)
            for tup in itertools.product(ALPHABET, repeat=L - 2):
                judge(ctx, parser, PathExprParsingError, h + ''.join(tup), 'exhaustive')
                if L <= 4:
                    judge(ctx, parser1, PathExprParsingError, h + ''.join(tup), 'exhaustive')
                ctx.count('exhaustive_strings')
    # random grammar-derived + all single-char mutations
    rng = ctx.rng
    quota = 40 if ctx.quick else 700
    mut_alpha = ALPHABET + '+_a9Z\t{}%\\'
    # characters that mean something to string formatting / escaping, inside and outside slices
    for hs in ('/001001[{}]', '/001001[0:{]', '/001001[{x}]', '/0010{}[0:', '@[{0}]/001001', '/001001[%s]', '{}', '/{0}', '/001001[%d:1]',
               '/001001[1:{0!r}]', '@[{}', '/001001[\\]', '/001001[:%(a)s]', '/001001]{', '/00{1001'):
        for prs in (parser, parser1):
            judge(ctx, prs, PathExprParsingError, hs, 'hostile')
            ctx.count('hostile_strings')
    for q in range(quota):
        if not ctx.more():
            break
        s = rand_expr(rng)
        judge(ctx, parser, PathExprParsingError, s, 'random')
        judge(ctx, parser1, PathExprParsingError, s, 'random')
        ctx.count('random_expressions')
        if q == 0:
            ctx.sample(dict(string=s, verdict=reference(s)[0]))
        muts = set()
        for i in range(len(s) + 1):
            for c in rng.sample(mut_alpha, 4):
                muts.add(s[:i] + c + s[i:])
            if i < len(s):
                muts.add(s[:i] + s[i + 1:])
                for c in rng.sample(mut_alpha, 3):
                    muts.add(s[:i] + c + s[i + 1:])
        for mi, m in enumerate(muts):
            judge(ctx, parser, PathExprParsingError, m, 'mutation')
            if mi % 4 == 0:
                judge(ctx, parser1, PathExprParsingError, m, 'mutation')
            ctx.count('mutations')


def replay(ctx, case):
    from pybufrkit.dataquery import NodePathParser
    from pybufrkit.errors import PathExprParsingError
    judge(ctx, NodePathParser(), PathExprParsingError, case['case']['string'], 'replay')
