"""C06 - subsets of an uncompressed message are decoded independently of each other.

Self-composition over the real code with R as the source of the joint bytes (each subset a fresh
application of the template): D(R(s1..sn))[i] == D(R(si))[0] for values, labels, links and nested
JSON; every permutation of the subsets permutes the result; joint encoding equals R's joint bytes
whenever the single-subset encodings equal R's.
"""
import itertools
import json

from mon import refbufr as R
from mon import handover, midscan
from mon.compare import impl_subset, td_of, opsig, jsonable
from mon.gen import cases
from mon.gen import failures
from mon.gen.shapes import EdgePolicy
from mon.gen.templates import scoped

ID = 'C06'
LEVEL = 'exploration'
TECHNIQUE = 'runtime monitoring: self-composition (joint vs alone, permutation) of real decodes over reference-produced bytes'
RULE = ('uncompressed R-produced messages with 2-5 subsets whose replication counts, bitmaps and values '
        'differ per subset; templates frequently end inside an operator construct; all permutations '
        'for n<=3 (thorough n<=4), sampled beyond; non-trivial when the subsets differ in length or '
        'the template leaves an operator open / uses a bitmap; distinct by SHA-1 of the joint bytes; same-layout-different-bitmap subsets; for scoped templates the joint decode is repeated with template compilation on')
RULE += '; added with rounds 10-12: object histories with fewer subsets selected by lowering the count; twins'
RULE += ('; mid-scan scenarios (mon/midscan.py): the joint message, its reverse-order form and single subsets delivered by scans / '
         'decodes in flight together on one decoder, each position held against the subset decoded alone')
ASSUMPTIONS = ['R concatenates per-subset bit strings, each produced from fresh registers (that is the '
               'FM-94 reading the property states)', 'comparison is between executions of the real code; '
               'R only supplies bytes']
BUDGET = {'quick': 45, 'thorough': 600}
QUOTA = {'quick': 260, 'thorough': 4500}
REQUIRED = {'quick': {'evaluations': 960, 'open_operator_cases': 200, 'bitmap_cases': 150, 'permutations_checked': 2000,
                      'differing_length_cases': 300, 'compiled_joint_decodes': 100, 'mid_scan_results_judged': 1500},
            'thorough': {'evaluations': 15000, 'open_operator_cases': 3000, 'bitmap_cases': 3000,
                      'permutations_checked': 50000, 'differing_length_cases': 5000}}


OPEN_SHAPES = [
    ('open-201', [12001, 201130, 12001, 4024]),
    ('open-202', [12001, 202129, 12001]),
    ('open-207', [4024, 207002, 12001, 4024]),
    ('open-208', [1015, 208003, 1015]),
    ('open-204', [12001, 204003, 31021, 12001, 2001]),
    ('open-221', [12001, 221004, 12001, 1001]),
    ('open-203-use-before-def', [12001, 4024, 203012, 12001, 203255, 12001]),
    ('open-222-waiting', [1001, 12001, 222000, 101000, 31001, 31031]),
    ('delayed-before-bitmap', [101000, 31001, 12001, 1001, 222000, 101000, 31001, 31031, 101000, 31001, 33007]),
    ('delayed-before-bitmap-223', [102000, 31001, 12001, 4024, 223000, 101000, 31001, 31031, 101000, 31001, 223255]),
    ('bitmap-reuse', [1001, 12001, 4024, 222000, 236000, 101000, 31001, 31031, 101000, 31001, 33007,
                      224000, 237000, 8023, 101000, 31001, 224255]),
    ('cancel-235-237255', [1001, 12001, 223000, 236000, 101000, 31001, 31031, 101000, 31001, 223255,
                           237255, 235000, 4024]),
    ('open-206', [12001, 1001, 206008]),
    # closed constructs (within C08's proviso: also decoded with compilation on)
    ('closed-delayed-before-bitmap', [101000, 31001, 12001, 1001, 222000, 101000, 31001, 31031, 101000, 31001, 33007, 235000]),
    ('closed-two-delayed-before-markers', [101000, 31001, 12001, 101000, 31001, 13011, 10004, 224000, 101000, 31001, 31031, 8023,
                                           101000, 31001, 224255]),
    ('closed-203-201', [203012, 12001, 203255, 201130, 12001, 201000, 12001, 203000, 101000, 31001, 12001]),
]


def nested_of(msg):
    from pybufrkit.renderer import NestedJsonRenderer
    nj = NestedJsonRenderer().render(msg)
    return nj[-2][-1]['value']


def snapshot(msg):
    td = td_of(msg)
    subs = [impl_subset(td, k) for k in range(len(td.decoded_values_all_subsets))]
    try:
        nest = json.loads(json.dumps(jsonable(nested_of(msg)), default=repr))
    except Exception as e:
        nest = ['<render failed %s>' % type(e).__name__] * len(subs)
    return [(l, [repr(x) for x in v], lk, nest[k] if k < len(nest) else None)
            for k, (l, v, lk) in enumerate(subs)]


def shape_of(node):
    """a nested-JSON subtree without its values"""
    if isinstance(node, list):
        return [shape_of(x) for x in node]
    if isinstance(node, dict):
        return {k: shape_of(v) for k, v in node.items() if k not in ('value', 'description')}
    return None


def features(msg):
    f = set()
    ids = msg.ids
    opened = {}
    for i in ids:
        if 200000 <= i < 300000:
            op, y = i // 1000, i % 1000
            if op in (201, 202, 204, 207, 208):
                opened[op] = y != 0
            elif op == 203:
                opened[op] = y not in (0,)
            elif op in (221, 206):
                opened[op] = True
            if op in (222, 223, 224, 225, 232):
                f.add('bitmap')
    if any(opened.values()):
        f.add('open')
    if len(set(len(s.values) for s in msg.subsets)) > 1:
        f.add('difflen')
    return f


def judge_alone(kind, m, alone, opts):
    """C06's oracle for a message delivered / read in the middle of other work: position by position what each subset gives when
    it is decoded alone on a quiet decoder (hierarchical view only where the message was wired)"""
    if kind != 'full':
        return None
    wired = opts.get('wire_template_data', True)
    snap = snapshot(m)
    if len(snap) != len(alone):
        return ('subset-count', '%d subsets delivered, %d expected' % (len(snap), len(alone)))
    for pos, (got, exp) in enumerate(zip(snap, alone)):
        for j, why in enumerate(('labels', 'values', 'links') + (('nested',) if wired else ())):
            if got[j] != exp[j]:
                return ('%s-differ-from-alone' % why, 'subset at position %d decodes differently (%s) from the same subset decoded alone' % (pos, why))
    return None


def check_case(ctx, dec, enc, msg, origin, name=None, decc=None, Dtab=None):
    spec = dict(origin=origin, shape=name, ids=msg.ids, nsub=msg.nsub, edition=msg.edition,
                hex=msg.bytes.hex())
    n = msg.nsub
    singles = []
    for k in range(n):
        one = R.select_subsets(msg, [k])
        try:
            singles.append(snapshot(dec.process(one.bytes))[0])
        except Exception as e:
            ctx.count('single_decode_raises')
            ctx.add('single_decode_raises', type(e).__name__)
            return
    f = features(msg)
    ctx.evaluated(msg.bytes.hex(), bool(f), sample=dict(shape=name, ids=msg.ids, nsub=n,
                                                       lengths=[len(s.values) for s in msg.subsets]))
    # what one subset shows (hierarchical view, query results) does not depend on which subsets were looked at before
    handover.on_message(ctx, msg.bytes, spec, site=origin, p=0.25)
    if 'open' in f:
        ctx.count('open_operator_cases')
    if 'bitmap' in f:
        ctx.count('bitmap_cases')
    if 'difflen' in f:
        ctx.count('differing_length_cases')
    for op in msg.ops:
        ctx.add('operators', op)
    # joint, in all (or sampled) orders
    if n <= (3 if ctx.quick else 4):
        orders = list(itertools.permutations(range(n)))
    else:
        orders = [tuple(range(n)), tuple(reversed(range(n)))]
        for _ in range(4):
            o = list(range(n))
            ctx.rng.shuffle(o)
            orders.append(tuple(o))
    for order in orders:
        jm = msg if order == tuple(range(n)) else R.select_subsets(msg, list(order))
        ctx.count('permutations_checked')
        try:
            snap = snapshot(dec.process(jm.bytes))
        except Exception as e:
            ctx.violate('joint-decode-raises:%s/%s' % (type(e).__name__, 'identity-order' if order == tuple(range(n)) else 'permuted'),
                        'subsets decode alone but the joint message (order %r) raises %s: %s'
                        % (order, type(e).__name__, str(e)[:120]), dict(spec, order=order), exc=e)
            return
        for pos, k in enumerate(order):
            if pos >= len(snap) or snap[pos] != singles[k]:
                got = snap[pos] if pos < len(snap) else None
                why = 'missing'
                if got is not None:
                    why = ('labels' if got[0] != singles[k][0] else 'values' if got[1] != singles[k][1]
                           else 'links' if got[2] != singles[k][2] else 'nested')
                ctx.violate('joint-differs-from-alone/%s/pos%s' % (why, 'first' if pos == 0 else 'later'),
                            'subset %d at position %d of order %r decodes differently (%s) from the same '
                            'subset decoded alone; ops[%s]' % (k, pos, order, why, opsig(msg.ids)),
                            dict(spec, order=order))
                return
    # the same independence when the joint message and its subsets (alone, and joined in reverse order) are delivered by scans
    # and decodes that are in flight together on one decoder: each delivered subset is held against the subset decoded alone
    if len(msg.bytes) < 3000:
        recent = ctx.__dict__.setdefault('_c06_recent', [])
        rev = list(reversed(range(n)))
        k1 = ctx.rng.randrange(n)
        recent.append(((msg.bytes, list(singles)), (R.select_subsets(msg, rev).bytes, [singles[k] for k in rev]),
                       (R.select_subsets(msg, [k1]).bytes, [singles[k1]])))
        if len(recent) >= 3:
            ctx.count('mid_scan_blocks')
            if ctx.counters['mid_scan_blocks'] % (4 if ctx.quick else 2) == 1:
                from pybufrkit.decoder import Decoder
                A = [r[0] for r in recent]
                Bs = [r[1] for r in recent[:2]] + [r[2] for r in recent]
                ctx.rng.shuffle(Bs)
                midscan.scenarios(ctx, 'independence', Decoder, A, Bs, judge_alone, dict(origin='mid-scan'))
            del recent[:]
    # the same independence with template compilation on (only where compilation is claimed to preserve
    # behaviour at all: templates whose operators are closed within one replication scope, C08's proviso)
    if decc is not None and Dtab is not None and scoped(msg.ids, Dtab):
        for order in orders[:1] + orders[-1:]:
            jm = msg if order == tuple(range(n)) else R.select_subsets(msg, list(order))
            ctx.count('compiled_joint_decodes')
            try:
                snap = snapshot(decc.process(jm.bytes))
            except Exception as e:
                ctx.violate('compiled/joint-decode-raises:%s' % type(e).__name__,
                            'subsets decode alone but the joint message (order %r) raises %s with template compilation on: %s'
                            % (order, type(e).__name__, str(e)[:120]), dict(spec, order=order, compiled=True), exc=e)
                break
            bad = [pos for pos, k in enumerate(order) if pos >= len(snap) or snap[pos] != singles[k]]
            if bad:
                pos = bad[0]
                got = snap[pos] if pos < len(snap) else None
                k = order[pos]
                why = 'missing' if got is None else ('labels' if got[0] != singles[k][0] else 'values' if got[1] != singles[k][1]
                                                     else 'links' if got[2] != singles[k][2] else 'nested')
                ctx.violate('compiled/joint-differs-from-alone/%s/pos%s' % (why, 'first' if pos == 0 else 'later'),
                            'with template compilation on, subset %d at position %d of order %r decodes differently (%s) from '
                            'the same subset decoded alone; ops[%s]' % (k, pos, order, why, opsig(msg.ids)),
                            dict(spec, order=order, compiled=True))
                break
    # encoding: joint vs singles (through R's bytes)
    try:
        ok_single = True
        for k in range(n):
            one = R.select_subsets(msg, [k])
            if enc.process(json.dumps(R.flat_json(one))).serialized_bytes != one.bytes:
                ok_single = False
                break
        if ok_single:
            ctx.count('encode_joint_checked')
            jm_obj = enc.process(json.dumps(R.flat_json(msg)))
            jb = jm_obj.serialized_bytes
            # the encoder's own message object (wired by default) is a per-subset view too: same as decoding its bytes
            try:
                se, sd = snapshot(jm_obj), snapshot(dec.process(jb))
                ctx.count('encoder_message_views_compared')
                # (values are the user's inputs on the encoder side - str for bytes, ints for floats - so the nested views are
                # compared by structure: ids, members, attribute placement)
                if [x[0] for x in se] != [x[0] for x in sd] or [x[2] for x in se] != [x[2] for x in sd] or \
                        [shape_of(x[3]) for x in se] != [shape_of(x[3]) for x in sd]:
                    ctx.violate('encoder-message-view-differs-from-decode',
                                'labels / links / nested view of the message object returned by the encoder differ from the decode of its own '
                                'bytes; ops[%s]' % opsig(msg.ids), spec)
            except Exception as e:
                ctx.violate('encoder-message-view-raises:%s' % type(e).__name__, 'rendering the message object returned by the encoder raised %s'
                            % type(e).__name__, spec, exc=e)
            if jb != msg.bytes:
                ctx.violate('joint-encode-differs-from-alone',
                            'each subset encodes alone to the reference bytes but the joint encoding differs; '
                            'ops[%s]' % opsig(msg.ids), spec, expected=msg.bytes.hex(), observed=jb.hex())
        else:
            ctx.count('single_encode_disagrees')
        # a subset given with one value too many: whatever the encoder does with it alone (refuse, or ignore the surplus),
        # it does the same wherever the subset stands among others
        if ok_single and n >= 2:
            fj = R.flat_json(msg)
            outcomes = {}
            for pos in (0, n - 1):
                fj2 = json.loads(json.dumps(fj))
                fj2[-2][-1][pos] = list(fj2[-2][-1][pos]) + [0]
                try:
                    outcomes[pos] = ('ok', enc.process(json.dumps(fj2)).serialized_bytes == msg.bytes)
                except Exception as e:
                    outcomes[pos] = ('refused', type(e).__name__)
            ctx.count('surplus_value_cases')
            if outcomes[0] != outcomes[n - 1]:
                ctx.violate('surplus-values-treated-by-position', 'one value too many in the first subset: %r, in the last subset: %r'
                            % (outcomes[0], outcomes[n - 1]), spec)
    except Exception as e:
        ctx.count('encode_raises')
        ctx.add('encode_raises', type(e).__name__)


def too_wide(msg):
    return any(m and m[0] == 'n' and m[2] > 0 and m[1] > 48 for s in msg.subsets for m in s.meta)


def run(ctx):
    from pybufrkit.decoder import Decoder
    from pybufrkit.encoder import Encoder
    dec, enc = Decoder(), Encoder()
    decc = Decoder(compiled_template_cache_max=4)
    B, D = cases.tables(33)
    # mandatory open-construct shapes
    n = 0
    for name, ids in OPEN_SHAPES:
        for nsub in (2, 3, 4):
            for phase in (0, 1, 2):
                n += 1
                if not ctx.mine(n):
                    continue
                try:
                    msg = R.build_message(ids, B, D, EdgePolicy(ctx.rng, phase=phase * 3 + nsub), nsub, False,
                                          ctx.rng.choice([2, 3, 4]))
                except R.Unsupported:
                    ctx.count('shape_unsupported')
                    continue
                ctx.count('shape_cases')
                ctx.add('shapes', name)
                failures.maybe(ctx, [dec, decc], [enc])
                check_case(ctx, dec, enc, msg, 'shape', name, decc, D)
    for nsub in (2, 3, 4):
        for name, msg in cases.same_layout_cases(ctx.rng, nsub=nsub):
            n += 1
            if not ctx.mine(n):
                continue
            ctx.count('same_layout_cases')
            ctx.add('shapes', name)
            check_case(ctx, dec, enc, msg, 'shape', name, decc, D)
    k = 0
    while k < QUOTA[ctx.tier] and ctx.more():
        k += 1
        mtv = ctx.rng.choice(cases.MTVS)
        g = cases.gen_for(mtv, ctx.rng, pclose=0.35)
        ids = g.template(ptail=0.6)
        Bv, Dv = cases.tables(mtv)
        try:
            msg = R.build_message(ids, Bv, Dv, R.Policy(ctx.rng), ctx.rng.choice([2, 2, 3, 4, 5]), False,
                                  ctx.rng.choice([2, 3, 4]), dict(master_table_version=mtv))
        except R.Unsupported:
            ctx.count('gen_unsupported')
            continue
        if too_wide(msg):
            continue
        failures.maybe(ctx, [dec, decc], [enc])
        check_case(ctx, dec, enc, msg, 'random', None, decc, Dv)


def replay(ctx, case):
    from pybufrkit.decoder import Decoder
    spec = case['case']
    b = bytes.fromhex(spec['hex'])
    dec = Decoder()
    r = R.decode(b)
    ctx.evaluated(spec['hex'], True)
    # rebuild spans from R's reading is not possible without the producer: compare joint with R instead
    try:
        m = dec.process(b)
    except Exception as e:
        ctx.violate(case['sig'], 'replay: joint decode raises %r' % (e,), spec, exc=e)
        return
    from mon.compare import diff_message
    d = diff_message(m, r['subsets'])
    if d:
        ctx.violate(case['sig'], 'replay: joint decode differs from per-subset reference: %r' % (jsonable(d),), spec)
