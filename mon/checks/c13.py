"""C13 - no hidden state: results do not depend on what was processed before.

History + model: the model is the pure function golden[m] - the digest (values, labels, links,
sections, four renderings, query results, re-encoded bytes) of message m decoded ALONE IN A BRAND-NEW
INTERPRETER.  A history runner executes random operation sequences over a pool of messages that
uses more table groups than the caches hold - decode with/without compilation (compiled-template
cache 0/1/2/n), failing decodes of corrupted copies, encodes, queries, renderings, re-wiring and
re-querying of kept message objects - and after every operation on m compares with golden[m].
Table-group cache limits are forced to 1, 2, 3 and also left at the real limit of 50 with > 50
distinct table-group keys (all bundled master versions x local tables x two aliased table roots).
No table-definition message is processed (statement's proviso).
"""
import json
import os
import shutil
import subprocess
import sys

from mon import refbufr as R
from mon import digest as DG
from mon import handover
from mon.gen import cases, streams
from mon.gen.templates import scoped

ID = 'C13'
LEVEL = 'exploration'
TECHNIQUE = ('runtime monitoring: history vs model - digests after arbitrary operation histories compared with golden digests '
             'from fresh interpreters; probes of both caches')
RULE = ('pool per shard: R-produced messages over every bundled master-table version and local tables plus sample files; '
        'golden digest of each from its own fresh interpreter; histories of 60 (quick) / 400 (thorough) random operations '
        '(decode plain / compiled cache 0,1,2,n / aliased table roots, failing decode of a corrupted copy, encode, '
        're-render, re-wire, re-query of a kept object) under table-group limits 1,2,3 and 50; non-trivial = the step is '
        'preceded by a different message, a failure or an eviction; distinct by SHA-1 of (history prefix); table-sensitive pairs through marker / first-order / associated-field forms; table identifications outside the bundle; encode golden from an interpreter of its own; a long-lived querent that also serves malformed queries')
RULE += "; added with rounds 10-12: a deterministic prologue of four simultaneous scans (no filter / accept-all / accept-nothing / metadata-only) per history; scans in flight across history steps; every third digest through the history's long-lived renderers and querents; twins"
ASSUMPTIONS = ['golden digests are computed by the same tree in a fresh interpreter (the property is about history independence, not about FM-94)',
               'no table-definition (data category 11) message is processed in these histories',
               'the table-group cache size is read through a probe of TableGroupCacheManager._TABLE_GROUP_CACHE (evidence only)']
BUDGET = {'quick': 55, 'thorough': 700}
POOLSIZE = {'quick': 15, 'thorough': 60}
HISTORIES = {'quick': 4, 'thorough': 16}
STEPS = {'quick': 50, 'thorough': 400}
REQUIRED = {'quick': {'evaluations': 1200, 'golden_from_fresh_interpreters': 110, 'history_steps': 1200,
                      'steps_after_failure': 16, 'table_groups_rebuilt': 3,
                      'kept_object_rechecks': 120, 'encode_steps': 80, 'limit_50_histories': 2,
                      'lenient_then_strict_steps': 28, 'version_sensitive_pairs_in_pool': 16,
                      'distinct_table_group_keys_max': 51},
            'thorough': {'evaluations': 38000, 'golden_from_fresh_interpreters': 340, 'history_steps': 40000,
                      'steps_after_failure': 700, 'table_groups_rebuilt': 12,
                      'kept_object_rechecks': 4000, 'encode_steps': 5000, 'limit_50_histories': 16,
                      'lenient_then_strict_steps': 2000, 'version_sensitive_pairs_in_pool': 38,
                      'distinct_table_group_keys_max': 51}}


def anchors():
    from pybufrkit import tables
    from pybufrkit.templatecompiler import CompiledTemplateManager
    from pybufrkit.templatedata import TemplateData
    from pybufrkit.coder import CoderState
    return [tables.TableGroupCache.get, tables.TableGroupCacheManager.get_table_group, CompiledTemplateManager.get_or_compile,
            TemplateData.wire, CoderState.__init__]


def build_pool(ctx, scratch):
    """[(name, bytes, tables_root or None)]"""
    rng = ctx.rng
    pool = []
    versions = R.wmo_versions()
    rng.shuffle(versions)
    k = ctx.shard * 1000
    n = POOLSIZE[ctx.tier]
    # same descriptor list under two table versions that define an element differently (cache keys!)
    pairs = cases.version_sensitive_pairs(6)
    FORMS = ['marker', 'plain', 'first-order', 'assoc', 'plain']
    for pi in range(3 if ctx.quick else 6):
        if not pairs:
            break
        pair = rng.choice(pairs)
        form = FORMS[(pi + ctx.shard) % len(FORMS)]
        ctx.add('version_pair_forms', form)
        try:
            ids, (ma, mb) = cases.version_pair_messages(rng, pair, compressed=bool(pi % 2), form=form)
        except (R.Unsupported, KeyError):
            continue
        pool.append(('pair%d-%06d-v%d' % (pi, pair[0], pair[1]), ma.bytes, None))
        pool.append(('pair%d-%06d-v%d' % (pi, pair[0], pair[2]), mb.bytes, None))
        ctx.count('version_sensitive_pairs_in_pool')
    lpairs = cases.local_sensitive_pairs()
    if lpairs:
        lp = rng.choice(lpairs)
        try:
            ids, (ma, mb) = cases.local_pair_messages(rng, lp, form=['plain', 'marker', 'assoc'][ctx.shard % 3])
            pool.append(('lpair-%06d-l%d' % (lp[0], lp[1][2]), ma.bytes, None))
            pool.append(('lpair-%06d-l%d' % (lp[0], lp[2][2]), mb.bytes, None))
            ctx.count('local_table_pairs_in_pool')
        except (R.Unsupported, KeyError):
            pass
    # identifications just outside what is bundled: the decoder falls back (version 33 / <centre>_0), the encoder refuses -
    # whatever was decoded before
    for meta in (dict(master_table_version=42), dict(master_table_version=33, originating_centre=98, originating_subcentre=5,
                                                     local_table_version=1)):
        try:
            B, D = R.load_tables(0, meta.get('originating_centre', 0), meta.get('originating_subcentre', 0),
                                 meta['master_table_version'], meta.get('local_table_version', 0))
            msg = R.build_message([1001, 12001, 101002, 4024], B, D, R.Policy(rng), 1, False, 4, dict(meta, update_sequence_number=len(pool)))
            pool.append(('unbundled-%d' % len(pool), msg.bytes, None))
            ctx.count('unbundled_identification_messages_in_pool')
        except Exception:
            pass
    # fields wider than 64 bits are refused - whatever narrower or wider fields were handled before
    for wide in ([206072, 63250, 1001], [206080, 63250, 1001], [201190, 12001, 201000, 1001], [206066, 63250, 1001]):
        try:
            B, D = R.load_tables(0, 0, 0, 33, 0)
            msg = R.build_message(wide, B, D, R.Policy(rng), 1, False, 4, dict(master_table_version=33, update_sequence_number=len(pool)))
            pool.append(('refused-wide-%d' % len(pool), msg.bytes, None))
        except Exception:
            pass
    # an undefined descriptor in section 3 is refused (when the template is built, walked or compiled) - by a coder that has
    # just handled other templates and by one that has just refused this very message
    for ids, pos in (([1001, 1002], 1), ([1001, 12001, 101002, 4024], 0), ([301011, 12001], 1)):
        try:
            B, D = R.load_tables(0, 0, 0, 33, 0)
            msg = R.build_message(ids, B, D, R.Policy(rng), 1, False, 4, dict(master_table_version=33, update_sequence_number=len(pool)))
            from mon.gen import streams as _streams
            pool.append(('refused-undefined-%d' % len(pool), _streams.fault_descriptor(msg.bytes, pos, pos == 0, len(pool)), None))
        except Exception:
            pass
    # a descriptor that only OTHER tables define (a local table set on the same WMO version) is in no table for this message: it
    # is refused whatever table groups were built, evicted and rebuilt before
    try:
        B, D = R.load_tables(0, 0, 0, 33, 0)
        added = 0
        for ce, su, lv, _path in R.local_table_dirs():
            Bl, Dl = R.load_tables(0, ce, su, 33, lv)
            only = sorted(q for q in Dl if q not in D and all(m in B for m in Dl[q]))
            only_b = sorted(e for e in Bl if e not in B)
            for bad in ([rng.choice(only)] if only else []) + ([rng.choice(only_b)] if only_b else []):
                msg = R.build_message([1001, 12001, 2001], B, D, R.Policy(rng), 1, False, 4,
                                      dict(master_table_version=33, update_sequence_number=len(pool)))
                fr = R.parse_frame(msg.bytes)
                st = fr.sections[3][0] + 7 + 2
                bb = bytearray(msg.bytes)
                bb[st] = ((bad // 100000) << 6) | (bad // 1000 % 100)
                bb[st + 1] = bad % 1000
                pool.append(('refused-defined-only-by-local-%d_%d_%d-%06d' % (ce, su, lv, bad), bytes(bb), None))
                added += 1
            if added >= (2 if ctx.quick else 6):
                break
        ctx.count('refused_other_tables_messages_in_pool', added)
    except Exception as e:
        ctx.notes.append('refused-defined-only-by-local: %r' % (e,))
    # every shard covers all versions across its histories: messages over many versions
    for v in versions:
        if len(pool) >= n * 2 // 3:
            break
        B, D = R.load_tables(0, 0, 0, v, 0)
        g = cases.gen_for(v, rng, pclose=0.9)
        for _ in range(20):
            ids = g.template(max_items=5, ptail=0.3)
            if not scoped(ids, D):
                continue   # compiled and interpreted runs are only claimed equal for scoped templates (C08's proviso)
            try:
                msg = R.build_message(ids, B, D, R.Policy(rng), rng.choice([1, 2]), rng.random() < 0.4, rng.choice([2, 3, 4]),
                                      dict(master_table_version=v, update_sequence_number=len(pool)))
            except (R.Unsupported, KeyError):
                continue
            if any(me and me[0] == 'n' and me[2] > 0 and me[1] > 48 for s in msg.subsets for me in s.meta):
                continue
            pool.append(('v%d-%d' % (v, len(pool)), msg.bytes, None))
            break
    # local tables
    for ce, su, lv, path in R.local_table_dirs():
        if len(pool) >= n * 5 // 6:
            break
        try:
            B, D = R.load_tables(0, ce, su, 33, lv)
            msg = R.build_message([1001, 12001, 101000, 31001, 4024], B, D, R.Policy(rng), 1, False, 4,
                                  dict(master_table_version=33, originating_centre=ce, originating_subcentre=su,
                                       local_table_version=lv))
        except Exception:
            continue
        pool.append(('local-%d_%d_%d' % (ce, su, lv), msg.bytes, None))
    # sample files
    repo = os.environ.get('VERIF_REPO', '/repo')
    names = ['207003.bufr', 'jaso_214.bufr', 'mpco_217.bufr', 'rado_250.bufr', 'amv2_87.bufr', 'ISMD01_OKPR.bufr', 'uegabe.bufr',
             'IUSK73_AMMC_182300.bufr', 'b005_89.bufr', 'profiler_european.bufr']
    rng.shuffle(names)
    for nme in names:
        if len(pool) >= n:
            break
        p = os.path.join(repo, 'tests', 'data', nme)
        if os.path.exists(p) and os.path.getsize(p) < 60000:
            pool.append((nme, open(p, 'rb').read(), None))
    # every pool holds messages of editions 2, 3 and 4 (the section layouts differ per edition)
    B33e, D33e = R.load_tables(0, 0, 0, 33, 0)
    for ed in (2, 3, 4):
        for sec2 in (None, b'ab'):
            try:
                msg = R.build_message([1001, 12001, 101000, 31001, 4024, 2001], B33e, D33e, R.Policy(rng), 2, ed == 3, ed,
                                      dict(master_table_version=33, update_sequence_number=len(pool) % 256, data_category=ed), sec2)
                pool.append(('edition%d-%s' % (ed, 'sec2' if sec2 else 'nosec2'), msg.bytes, None))
            except Exception:
                pass
    return pool


def fresh_golden(ctx, pool, scratch):
    """golden digest of each pool message from its own brand-new interpreter"""
    gold = {}
    env = dict(os.environ)
    for i, (name, b, root) in enumerate(pool):
        hf = os.path.join(scratch, 'm%d.hex' % i)
        with open(hf, 'w') as f:
            f.write(b.hex())
        try:
            p = subprocess.run([sys.executable, '-m', 'mon.digest', hf], capture_output=True, timeout=120, env=env,
                               cwd=os.environ.get('VERIF_DIR', '/verif'))
            g = json.loads(p.stdout.decode())
        except Exception as e:
            ctx.count('golden_failed')
            ctx.notes.append('golden failed for %s: %r' % (name, e))
            continue
        if 'error' in g:
            ctx.count('golden_decode_error')
            if name.startswith('refused'):
                # a message that a brand-new interpreter refuses: it is refused after any history as well
                gold[i] = dict(refused=g['error'])
                ctx.count('refused_messages_in_pool')
            continue
        # the encode golden comes from an interpreter that has not decoded anything (not even this message) - for the
        # messages where that can matter (table identifications outside the bundle, table-sensitive pairs) and a third of
        # the rest; it must agree with the encode done after the decode in the first interpreter
        if name.startswith(('unbundled', 'pair', 'lpair')) or i % 3 == 0:
            try:
                jf = os.path.join(scratch, 'm%d.json' % i)
                with open(jf, 'w') as f:
                    f.write(g['flat_json'])
                p2 = subprocess.run([sys.executable, '-m', 'mon.digest', '--encode', jf] + ([root] if root else []), capture_output=True,
                                    timeout=120, env=env, cwd=os.environ.get('VERIF_DIR', '/verif'))
                alone = json.loads(p2.stdout.decode())['encode']
                ctx.count('encode_goldens_from_fresh_interpreters')
                if alone != g['encode']:
                    ctx.violate('history-dependence/encode/after-decode-in-a-new-interpreter',
                                'encoding %s alone in a new interpreter gives %s, after decoding it there %s' % (name, alone, g['encode']),
                                dict(message=name, op='golden'))
                g['encode'] = alone
            except Exception as e:
                ctx.notes.append('encode golden failed for %s: %r' % (name, e))
        ctx.count('golden_from_fresh_interpreters')
        gold[i] = g
    return gold


def cache_sizes():
    try:
        from pybufrkit.tables import TableGroupCacheManager
        return len(TableGroupCacheManager._TABLE_GROUP_CACHE._groups)
    except Exception:
        return None


def corrupt(b, rng):
    bb = bytearray(b)
    kind = rng.randrange(4)
    if kind == 0:
        bb[-1] = ord('8')                       # stop signature
    elif kind == 1:
        return bytes(bb[:max(8, len(bb) // 2)])  # truncation
    elif kind == 2:
        i = b.find(b'BUFR') + 8
        bb[i:i + 3] = b'\xff\xff\xff'            # section 1 length
    else:
        for j in range(len(bb) // 3, len(bb) // 3 + 6):
            bb[j] ^= 0xff
        bb[-1] = ord('6')
    return bytes(bb)


def compare(ctx, what, got, gold, m_index, name, hist, step, opname, prev):
    """got / gold: {component: hash}"""
    bad = [k for k in gold if got.get(k) != gold[k] and not (k == 'table_group_line' and 'alias' in opname)]
    if bad:
        ctx.violate('history-dependence/%s/%s/after-%s' % (opname, bad[0], prev),
                    'step %d (%s of %s): component(s) %r differ from the fresh-interpreter result after history %s'
                    % (step, opname, name, bad, hist[-8:]), dict(history=hist, step=step, message=name, op=opname, components=bad))
        return False
    return True


def run_history(ctx, pool, gold, limit, hno, alts):
    from pybufrkit import tables
    from pybufrkit.decoder import Decoder
    from pybufrkit.encoder import Encoder
    from pybufrkit.renderer import NestedJsonRenderer
    rng = ctx.rng
    saved_limit = tables.MAXIMUM_NUMBER_OF_CACHED_TABLE_GROUPS
    tables.MAXIMUM_NUMBER_OF_CACHED_TABLE_GROUPS = limit
    decs = {'plain': Decoder(), 'c0': Decoder(compiled_template_cache_max=0), 'c1': Decoder(compiled_template_cache_max=1),
            'c2': Decoder(compiled_template_cache_max=2), 'cn': Decoder(compiled_template_cache_max=100)}
    for ai, alt in enumerate(alts):
        decs['alt%d' % ai] = Decoder(tables_root_dir=alt)
        decs['alt%dc' % ai] = Decoder(tables_root_dir=alt, compiled_template_cache_max=2)
    encs = {'plain': Encoder(), 'c1': Encoder(compiled_template_cache_max=1)}
    from pybufrkit.dataquery import DataQuerent, NodePathParser
    long_q = DataQuerent(NodePathParser())
    from pybufrkit.renderer import FlatTextRenderer, NestedTextRenderer, FlatJsonRenderer, NestedJsonRenderer
    from pybufrkit.mdquery import MetadataExprParser, MetadataQuerent
    long_tools = dict(ft=FlatTextRenderer(), nt=NestedTextRenderer(), fj=FlatJsonRenderer(), nj=NestedJsonRenderer(),
                      dq=DataQuerent(NodePathParser()), mq=MetadataQuerent(MetadataExprParser()))

    def outcome_of(f):
        try:
            return f()
        except Exception as e:
            return 'raises ' + type(e).__name__
    kept = {}
    kept_alias = {}
    hist = []
    open_scans = []
    # eviction evidence at the API boundary: a table group asked for now and again after the history is another OBJECT when it
    # was evicted and rebuilt in between (no private name involved)
    try:
        v0 = rng.choice(R.wmo_versions())
        g0 = tables.TableGroupCacheManager.get_table_group(master_table_version=v0)
    except Exception:
        g0 = None
    prev = 'start'
    prev_msg = None
    idxs = sorted(gold)
    refused_idxs = [i for i in idxs if 'refused' in gold[i]]
    ok_idxs = [i for i in idxs if 'refused' not in gold[i]]
    seen_keys = set()
    # members of scanned streams: pool entries that are exactly ONE message from their first to their last octet (some sample files
    # carry a telecommunication header or hold several messages: a scan of those delivers other pieces than the entry)
    scan_idxs = [j for j in ok_idxs if pool[j][1][:4] == b'BUFR' and int.from_bytes(pool[j][1][4:7], 'big') == len(pool[j][1])
                 and pool[j][1].count(b'BUFR') == 1]
    try:
        # every history begins with scans that are under way AT THE SAME TIME on one decoder, with options of their own (no filter /
        # a filter that accepts nothing / one that accepts everything / metadata only): each delivers exactly its own selection
        if len(scan_idxs) >= 2:
            from pybufrkit.decoder import generate_bufr_message
            dn = ['plain', 'c1', 'cn'][hno % 3]
            plans = [({}, True), (dict(filter_expr='${%edition} < 0'), False), (dict(filter_expr='${%edition} >= 0'), True),
                     (dict(filter_expr='${%edition} < 0', info_only=True), False)]
            if hno % 2:
                plans.reverse()
            scans = []
            for kw, delivers in plans:
                members = [rng.choice(scan_idxs) for _ in range(2)]
                stream = b'\r\r\n'.join(pool[j][1] for j in members)
                scans.append([generate_bufr_message(decs[dn], stream, **kw), members if delivers else [], 0, kw])
            hist.append('four scans started on [%s] with options %r' % (dn, [sc[3] for sc in scans]))
            live = list(scans)
            while live:
                sc = rng.choice(live)
                ctx.count('prologue_scan_steps')
                try:
                    m = next(sc[0])
                except StopIteration:
                    if sc[2] < len(sc[1]):
                        ctx.violate('history-dependence/scans-at-the-same-time/ends-early', 'a scan with options %r, advanced alternately with three other scans on the same '
                                    'decoder, delivered %d of its %d messages' % (sc[3], sc[2], len(sc[1])), dict(history=hist, op='scan', options=repr(sc[3])))
                    live.remove(sc)
                    continue
                except Exception as e:
                    ctx.violate('history-dependence/scans-at-the-same-time/raises:%s' % type(e).__name__, 'a scan with options %r, advanced alternately with three other scans on '
                                'the same decoder, raised %r' % (sc[3], e), dict(history=hist, op='scan', options=repr(sc[3])), exc=e)
                    live.remove(sc)
                    continue
                if sc[2] >= len(sc[1]):
                    ctx.violate('history-dependence/scans-at-the-same-time/delivers-what-its-filter-rejects', 'a scan with options %r, advanced alternately with three other '
                                'scans on the same decoder, delivered a message its own filter rejects' % (sc[3],), dict(history=hist, op='scan', options=repr(sc[3])))
                    live.remove(sc)
                    continue
                j = sc[1][sc[2]]
                sc[2] += 1
                if not sc[3].get('info_only'):
                    try:
                        got = DG.message_digest(m)
                    except Exception as e:
                        got = {'digest-raises': type(e).__name__}
                    compare(ctx, 'decode', got, gold[j]['digest'], j, pool[j][0], hist, -1, 'scans-at-the-same-time/decode', 'start')
                ctx.evaluated((hno, ctx.shard, 'prologue', len(hist), sc[2]), True)
        # ... and with lenient decodes (ignore_value_expectation=True applies to THAT call) of intact messages of different editions on
        # one decoder, in both orders, followed by metadata-only and plain decodes: each gives the message's fresh-interpreter digest
        by_edition = {}
        for j in ok_idxs:
            bj = pool[j][1]
            k0 = bj.find(b'BUFR')
            if k0 >= 0 and len(bj) > k0 + 8:
                by_edition.setdefault(bj[k0 + 7], []).append(j)
        eds = sorted(by_edition)
        if len(eds) >= 2:
            dn = ['plain', 'c2', 'c0'][hno % 3]
            order = [rng.choice(by_edition[e]) for e in (eds if hno % 2 else list(reversed(eds)))]
            order = order + order[:1]
            for n_, j in enumerate(order):
                for kw in (dict(ignore_value_expectation=True), dict(ignore_value_expectation=True, info_only=True), {}):
                    hist.append('prologue-decode[%s]%r:%s' % (dn, sorted(kw), pool[j][0]))
                    ctx.count('prologue_lenient_decodes')
                    try:
                        mm = decs[dn].process(pool[j][1], **kw)
                        if not kw.get('info_only'):
                            compare(ctx, 'decode', DG.message_digest(mm), gold[j]['digest'], j, pool[j][0], hist, -1,
                                    'lenient-decodes-of-several-editions/' + ('lenient' if kw else 'plain'), 'start')
                    except Exception as e:
                        ctx.violate('history-dependence/lenient-decodes-of-several-editions/raises:%s' % type(e).__name__, 'a decode %r of the intact message %s (edition '
                                    '%d) raised %s after lenient decodes of messages of other editions on the same decoder' % (sorted(kw), pool[j][0],
                                    pool[j][1][pool[j][1].find(b'BUFR') + 7], type(e).__name__), dict(history=hist, op='decode', message=pool[j][0]), exc=e)
                        break
        for step in range(STEPS[ctx.tier]):
            if not ctx.more():
                break
            # refused pool messages take about one step in six (they are many: wide fields, undefined descriptors, descriptors
            # that only other tables define), the rest goes to the operations on decodable messages
            if refused_idxs and (not ok_idxs or rng.random() < 0.17):
                i = rng.choice(refused_idxs)
            else:
                i = rng.choice(ok_idxs)
            name, b, _ = pool[i]
            g = gold[i]
            if 'refused' in g:
                dn = rng.choice(list(decs))
                hist.append('decode-refused[%s]:%s' % (dn, name))
                ctx.count('refused_message_steps')
                ctx.count('history_steps')
                ctx.evaluated((hno, ctx.shard, step, 'refused', name), True)
                # (twice in a row on the same decoder: the retry of a refused message is refused as well)
                for attempt in (1, 2):
                    try:
                        decs[dn].process(b)
                        ctx.violate('history-dependence/refused-message-decodes/after-%s' % (prev if attempt == 1 else 'its-own-refusal'),
                                    'step %d: %s is refused (%s) by a new interpreter but decodes (attempt %d) after history %s'
                                    % (step, name, g['refused'], attempt, hist[-8:]),
                                    dict(history=hist, step=step, message=name, op='decode', attempt=attempt))
                        break
                    except Exception as e:
                        ctx.count('refused_message_attempts')
                        if type(e).__name__ != g['refused']:
                            # refused, but for another reason than in a new interpreter (an unknown descriptor that has become
                            # known and now fails on the data, ...): the outcome depends on the history all the same
                            ctx.violate('history-dependence/refused-message-raises-%s-instead-of-%s/after-%s'
                                        % (type(e).__name__, g['refused'], prev if attempt == 1 else 'its-own-refusal'),
                                        'step %d: %s is refused with %s by a new interpreter but with %s (attempt %d) after history %s'
                                        % (step, name, g['refused'], type(e).__name__, attempt, hist[-8:]),
                                        dict(history=hist, step=step, message=name, op='decode', attempt=attempt))
                            break
                prev = 'failure'
                prev_msg = None
                continue
            r = rng.random()
            size0 = cache_sizes()
            nontrivial = prev_msg != i or prev in ('failure',)
            if r < 0.5 or i not in kept:
                dn = rng.choice(list(decs))
                op = 'decode[%s]' % dn
                hist.append('%s:%s' % (op, name))
                try:      # (private bookkeeping: evidence only)
                    ctm = decs[dn].compiled_template_manager
                    keys0 = set(ctm.cache) if ctm is not None else set()
                except Exception:
                    ctm, keys0 = None, set()
                try:
                    m = decs[dn].process(b)
                    # (every third decode is rendered and queried with the renderers / querents that serve the whole history)
                    use_tools = step % 3 == 1
                    got = DG.message_digest(m, tools=long_tools if use_tools else None)
                    if use_tools:
                        ctx.count('digests_with_long_lived_renderers_and_querents')
                except Exception as e:
                    ctx.violate('history-dependence/decode-raises:%s/after-%s' % (type(e).__name__, prev),
                                'step %d: %s of %s raised %s after history %s' % (step, op, name, type(e).__name__, hist[-8:]),
                                dict(history=hist, step=step, message=name, op=op), exc=e)
                    prev = 'failure'
                    continue
                try:
                    if ctm is not None and keys0 - set(ctm.cache):
                        ctx.count('compiled_cache_evictions')
                        nontrivial = True
                except Exception:
                    pass
                try:
                    seen_keys.add(repr(m.table_group_key) + ('|' + dn if dn.startswith('alt') else ''))
                except Exception:
                    pass
                kept[i] = m
                kept_alias[i] = dn.startswith('alt')
                compare(ctx, 'decode', got, g['digest'], i, name, hist, step,
                        'decode/' + ('plain' if dn == 'plain' else 'alias-root' if dn.startswith('alt') else 'compiled'), prev)
                prev = 'decode'
            elif r < 0.56:
                # lenient decode (signature checks off for THIS call), then a strict decode of a copy with a
                # damaged stop signature must still say what a brand-new decoder says
                dn = rng.choice(list(decs))
                op = 'lenient-then-strict[%s]' % dn
                hist.append('%s:%s' % (op, name))
                ctx.count('lenient_then_strict_steps')
                try:
                    lenient_of_intact = rng.random() < 0.5
                    ml = decs[dn].process(b if lenient_of_intact else DG.damaged_copy(b), ignore_value_expectation=True)
                    if lenient_of_intact:
                        # leniency concerns expected constants only: an intact message decodes to what it always decodes to,
                        # whatever editions and modes this decoder served leniently before
                        ctx.count('lenient_decodes_of_intact_messages_compared')
                        compare(ctx, 'decode', DG.message_digest(ml), g['digest'], i, name, hist, step,
                                'lenient-decode/' + ('alias-root' if dn.startswith('alt') else 'decode'), prev)
                except Exception as e:
                    ctx.count('lenient_decode_raises')
                    if lenient_of_intact:
                        ctx.violate('history-dependence/lenient-decode-raises:%s/after-%s' % (type(e).__name__, prev), 'step %d: the lenient decode of the intact message %s '
                                    'raised %s after history %s' % (step, name, type(e).__name__, hist[-8:]), dict(history=hist, step=step, message=name, op=op), exc=e)
                try:
                    decs[dn].process(DG.damaged_copy(b))
                    got_d = 'decodes'
                except Exception:
                    got_d = 'raises'
                if g.get('damaged') and got_d != g['damaged']:
                    ctx.violate('history-dependence/damaged-copy-%s/after-lenient-decode' % got_d,
                                'step %d: a copy of %s with a damaged stop signature %s after a lenient decode on the same decoder; '
                                'a brand-new decoder: %s' % (step, name, got_d, g['damaged']),
                                dict(history=hist, step=step, message=name, op=op))
                prev = 'lenient'
                ctx.count('history_steps')
                ctx.evaluated((hno, ctx.shard, step, tuple(hist[-3:])), True)
                continue
            elif r < 0.64 and scan_idxs:
                # scans in flight: a scan over two or three pool messages is started on one of the decoders and advanced ONE
                # message at a time, at later steps of the history, while every other kind of operation goes on in between (and
                # some scans are never finished).  Each message it delivers is the message a brand-new interpreter decodes.
                from pybufrkit.decoder import generate_bufr_message
                startable = len(open_scans) < 3
                if startable and (not open_scans or rng.random() < 0.4):
                    dn = rng.choice(list(decs))
                    if open_scans and rng.random() < 0.7:
                        dn = rng.choice(open_scans)['dn']         # several scans under way on ONE decoder
                        ctx.count('scans_started_on_a_decoder_with_a_scan_in_flight')
                    members = [rng.choice(scan_idxs) for _ in range(rng.choice([2, 3]))]
                    stream = b'\r\r\n'.join(pool[j][1] for j in members)
                    # (a scan has options of its own: a filter that accepts everything, one that accepts nothing, none)
                    fkind = rng.choice(['none', 'none', 'all', 'nothing'])
                    skw = {'all': dict(filter_expr='${%edition} >= 0'), 'nothing': dict(filter_expr='${%edition} < 0')}.get(fkind, {})
                    if fkind == 'nothing':
                        members_expected = []
                    else:
                        members_expected = members
                    open_scans.append(dict(gen=generate_bufr_message(decs[dn], stream, **skw), members=members_expected, at=0, dn=dn))
                    ctx.add('scan_filters_in_histories', fkind)
                    hist.append('scan-started[%s,filter=%s]:%s' % (dn, fkind, '+'.join(pool[j][0] for j in members)))
                    ctx.count('scans_started_in_histories')
                    prev = 'scan-start'
                else:
                    sc = rng.choice(open_scans)
                    j = sc['members'][sc['at']] if sc['at'] < len(sc['members']) else None
                    hist.append('scan-advanced[%s]:%s' % (sc['dn'], pool[j][0] if j is not None else 'end'))
                    ctx.count('scan_steps_in_histories')
                    try:
                        m = next(sc['gen'])
                    except StopIteration:
                        if j is not None:
                            ctx.violate('history-dependence/scan-in-flight/ends-early/after-%s' % prev, 'step %d: a scan advanced one message at a time '
                                        'between other operations ended after %d of %d messages, history %s' % (step, sc['at'], len(sc['members']), hist[-8:]),
                                        dict(history=hist, step=step, op='scan'))
                        open_scans.remove(sc)
                        m = None
                    except Exception as e:
                        ctx.violate('history-dependence/scan-in-flight/raises:%s/after-%s' % (type(e).__name__, prev), 'step %d: a scan advanced one message '
                                    'at a time between other operations raised %s at its message %d, history %s' % (step, type(e).__name__, sc['at'], hist[-8:]),
                                    dict(history=hist, step=step, op='scan'), exc=e)
                        open_scans.remove(sc)
                        m = None
                    if m is not None:
                        if j is None:
                            ctx.violate('history-dependence/scan-in-flight/phantom/after-%s' % prev, 'step %d: a scan delivered more messages than its '
                                        'stream holds, history %s' % (step, hist[-8:]), dict(history=hist, step=step, op='scan'))
                            open_scans.remove(sc)
                        else:
                            sc['at'] += 1
                            try:
                                got = DG.message_digest(m)
                            except Exception as e:
                                got = {'digest-raises': type(e).__name__}
                            compare(ctx, 'decode', got, gold[j]['digest'], j, pool[j][0], hist, step,
                                    'scan-in-flight/' + ('alias-root' if sc['dn'].startswith('alt') else 'decode'), prev)
                    prev = 'scan-step'
                ctx.count('history_steps')
                ctx.evaluated((hno, ctx.shard, step, tuple(hist[-3:])), True)
                continue
            elif r < 0.68:
                op = 'failing-decode'
                hist.append('%s:%s' % (op, name))
                dn = rng.choice(list(decs))
                try:
                    decs[dn].process(corrupt(b, rng))
                    ctx.count('corrupted_copy_decoded')
                except Exception:
                    ctx.count('failing_decodes')
                prev = 'failure'
                prev_msg = None
                ctx.count('history_steps')
                continue
            elif r < 0.82:
                if rng.random() < 0.15:
                    # history event: ANOTHER encoder object, built with a table-version override, encodes something
                    ov = rng.choice([13, 31, 25])
                    hist.append('other-encoder(master_table_version=%d):%s' % (ov, name))
                    ctx.count('encoders_with_override_in_history')
                    try:
                        Encoder(master_table_version=ov).process(g['flat_json'])
                    except Exception:
                        pass
                en = rng.choice(list(encs))
                op = 'encode[%s]' % en
                hist.append('%s:%s' % (op, name))
                ctx.count('encode_steps')
                try:
                    eb = DG._h(encs[en].process(g['flat_json']).serialized_bytes)
                except Exception as e:
                    eb = 'raises ' + type(e).__name__
                if eb != g['encode']:
                    ctx.violate('history-dependence/encode/after-%s' % prev, 'step %d: encoding %s gives %s, fresh interpreter %s, history %s'
                                % (step, name, eb, g['encode'], hist[-8:]), dict(history=hist, step=step, message=name, op=op))
                prev = 'encode'
            else:
                op = 're-render/re-wire/re-query'
                hist.append('%s:%s' % (op, name))
                ctx.count('kept_object_rechecks')
                m = kept[i]
                if rng.random() < 0.12 and len(b) < 20000:
                    # "earlier queries and renderings of the same message object": one object of this message taken through a
                    # sequence of successful operations of different kinds (both wiring entry points, renderings, queries,
                    # subset, encoding of the objects it hands out), each result compared with a brand-new object's
                    handover.on_message(ctx, b, dict(history=hist[-6:], step=step, message=name), site='history', p=1.0,
                                        quota=4 if ctx.quick else 40)
                try:
                    if rng.random() < 0.5:
                        m.wire()
                    if rng.random() < 0.3:
                        m.template_data.value.wire()      # the other public entry point: wiring is done once whoever asks
                    NestedJsonRenderer().render(m)
                    got = DG.message_digest(m)
                except Exception as e:
                    ctx.violate('history-dependence/kept-object-raises:%s' % type(e).__name__, 'step %d: re-rendering the kept object of %s raised %s'
                                % (step, name, type(e).__name__), dict(history=hist, step=step, message=name, op=op), exc=e)
                    continue
                compare(ctx, 'kept', got, g['digest'], i, name, hist, step, 'kept-object' + ('/alias' if kept_alias.get(i) else ''), prev)
                # a long-lived querent (its parser included) that has also served failing queries answers like a new one
                try:
                    labels = [str(d) for d in m.template_data.value.decoded_descriptors_all_subsets[0]]
                    ids = [lab for lab in labels if lab[0] == '0' and lab[:3] != '031'][:3]
                    for lab in ids:
                        if rng.random() < 0.5:
                            bad = rng.choice(['%s[1:' % lab, '/%s[2:x]' % lab, '@[1:/%s' % lab, '%s[1:2:3:4]' % lab, '@[2'])
                            hist.append('failing-query:%s' % bad)
                            ctx.count('failing_queries_on_long_lived_querent')
                            try:
                                long_q.query(m, bad)
                            except Exception:
                                pass
                        ctx.count('queries_on_long_lived_querent')
                        a = outcome_of(lambda: repr(long_q.query(m, lab).all_values()))
                        f = outcome_of(lambda: repr(DataQuerent(NodePathParser()).query(m, lab).all_values()))
                        if a != f:
                            ctx.violate('history-dependence/long-lived-querent/after-%s' % ('failing-query' if hist[-1].startswith('failing-query') else 'queries'),
                                        'step %d: query %r of %s on the long-lived querent gives %s, a new querent %s; history %s'
                                        % (step, lab, name, a[:80], f[:80], hist[-6:]), dict(history=hist, step=step, message=name, op='query'))
                            break
                except Exception as e:
                    ctx.notes.append('long-lived querent step failed: %r' % (e,))
                prev = 'requery'
            size1 = cache_sizes()
            if size0 is not None and size1 is not None:
                ctx.add('table_group_cache_sizes', size1)
                if size1 <= size0 and size0 >= limit and op.startswith('decode'):
                    pass
                if size1 > limit:
                    ctx.violate('probe/table-group-cache-exceeds-limit', 'cache holds %d groups with limit %d' % (size1, limit),
                                dict(history=hist[-5:]), advisory=True)
            if prev_failed(hist):
                ctx.count('steps_after_failure')
            ctx.count('history_steps')
            ctx.evaluated((hno, ctx.shard, step, tuple(hist[-3:])), nontrivial,
                          sample=dict(history_tail=hist[-4:], limit=limit) if step == 20 else None)
            prev_msg = i
    finally:
        try:
            if g0 is not None:
                if tables.TableGroupCacheManager.get_table_group(master_table_version=v0) is not g0:
                    ctx.count('table_groups_rebuilt')
                else:
                    ctx.count('table_groups_still_cached')
        except Exception:
            pass
        tables.MAXIMUM_NUMBER_OF_CACHED_TABLE_GROUPS = saved_limit
    return len(seen_keys)


def prev_failed(hist):
    return len(hist) >= 2 and hist[-2].startswith('failing-decode')


def run(ctx):
    from pybufrkit import tables
    scratch = os.path.join(os.environ.get('VERIF_SCRATCH', '/verif/.scratch'), 'c13-%d' % ctx.shard)
    os.makedirs(scratch, exist_ok=True)
    try:
        alts = []
        for ai in range(2):
            alt = os.path.join(scratch, 'tables_alias%d' % ai)
            try:
                os.symlink(R.TABLES, alt)
                alts.append(alt)
            except OSError:
                pass
        install_eviction_probe()
        pool = build_pool(ctx, scratch)
        gold = fresh_golden(ctx, pool, scratch)
        if len(gold) < 5:
            ctx.notes.append('too few golden digests (%d)' % len(gold))
            return
        ctx.add('pool', ','.join(sorted(set(n.split('-')[0] for n, _, _ in pool)))[:300])
        # eviction telemetry through a wrapper-free probe: count evictions by watching the cache dict
        limits = [1, 2, 3, 50] if ctx.quick else [1, 2, 3, 50] * 4
        for hno, limit in enumerate(limits[:HISTORIES[ctx.tier]]):
            if limit == 50:
                # reach the real limit: prime the cache with > 50 distinct keys (all versions x aliased roots)
                nk = prime_many_groups(ctx, alts)
                ctx.counters['distinct_table_group_keys_max'] = max(ctx.counters.get('distinct_table_group_keys_max', 0), nk)
                ctx.count('limit_50_histories')
                ctx.add('distinct_table_group_keys_per_shard', nk)
            before = ctx.counters.get('history_steps', 0)
            run_history(ctx, pool, gold, limit, hno, alts)
            ctx.add('limits', limit)
        # evictions: measured by instrumented popitem observation
        ctx.count('table_group_evictions', EVICT['n'])
    finally:
        shutil.rmtree(scratch, ignore_errors=True)


EVICT = dict(n=0, installed=False)


def install_eviction_probe():
    """count popitem calls on the table-group dict (evidence): replace the dict by a counting subclass."""
    if EVICT['installed']:
        return
    try:
        from pybufrkit.tables import TableGroupCacheManager

        class CountingDict(dict):
            def popitem(self):
                EVICT['n'] += 1
                return dict.popitem(self)
        c = TableGroupCacheManager._TABLE_GROUP_CACHE
        if type(getattr(c, '_groups', None)) is dict:      # a private name: when it is not there the probe is unavailable
            c._groups = CountingDict(c._groups)
            EVICT['installed'] = True
    except Exception:
        pass


def prime_many_groups(ctx, alts):
    """touch > 50 distinct table-group keys so that the real limit (50) is reached"""
    from pybufrkit.tables import TableGroupCacheManager
    install_eviction_probe()
    keys = set()
    for root in [None] + alts:
        for v in R.wmo_versions():
            try:
                tg = TableGroupCacheManager.get_table_group(tables_root_dir=root, master_table_version=v)
                keys.add(tg.key)
            except Exception:
                pass
    return len(keys)


def replay(ctx, case):
    ctx.evaluated('replay', True)
    print('C13 replay: histories depend on fresh-interpreter goldens; re-run ./check C13 --seed %s (history tail: %r)'
          % (case.get('seed'), case.get('case', {}).get('history', [])[-6:]))
