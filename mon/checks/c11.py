"""C11 - a byte stream is split into exactly the messages it contains.

Offline exactly-once / order checker over the yield log of generate_bufr_message: the stream is
assembled from a known list of R-produced messages and separators, so the expected yield list is
known by construction (and, with a filter, from the known metadata - never from the code under
test).  command_split / info -c are driven on files and the pieces concatenated.
"""
import itertools
import json
import os
import shutil

from mon import refbufr as R
from mon.gen import streams
from mon.monitors import telemetry

ID = 'C11'
LEVEL = 'exploration'
TECHNIQUE = ('runtime monitoring: exactly-once/order checker over the recorded yield log of the stream scanner, '
             'expected list known by construction; frame-local probe of the scan offset')
RULE = ('streams of 0-8 R-produced messages (mixed editions, compressed or not, string payloads containing BUFR, '
        '7777 and complete inner messages inside 205YYY fields) joined by separators (empty, GTS headers, noise, '
        'BUF, BU, 7777, ...) x {full, info-only} x filters over data_category / n_subsets / edition / is_compressed; '
        'non-trivial = >= 2 messages or a non-empty separator or a hostile payload; distinct by SHA-1 of (stream, mode, filter); scans repeated with ignore_value_expectation / wire_template_data=False / continue_on_error; 42-48 octet messages at the end of a stream; commands over two files per invocation; decode -m [-j] [--filter]')
RULE += '; added with rounds 10-12: 2-4 scans with options of their own advanced under a random schedule on one shared decoder / one each, scans left half-way, complete nested scans from the loop body; consumers that wrap or release a delivered piece; filters over PBK_FILENAME on a named stream; twins'
ASSUMPTIONS = ['separators do not contain the start signature (statement\'s proviso)',
               'a stream of n bytes can yield at most n/12 messages (logical progress cap instead of a wall-clock verdict)',
               'filter expressions use metadata only; their truth is computed from the metadata the stream was built with']
BUDGET = {'quick': 45, 'thorough': 600}
QUOTA = {'quick': 70, 'thorough': 1500}
REQUIRED = {'quick': {'evaluations': 1500, 'streams_full': 400, 'streams_info_only': 400, 'filtered_streams': 400,
                      'inner_message_streams': 25, 'hostile_payload_messages': 100, 'empty_streams': 5, 'split_runs': 10,
                      },
            'thorough': {'evaluations': 30000, 'streams_full': 8000, 'streams_info_only': 8000, 'filtered_streams': 8000,
                      'inner_message_streams': 250, 'hostile_payload_messages': 2000, 'empty_streams': 100,
                      'split_runs': 200}}


FILTERS = [
    ('${%data_category} == 3', lambda m: m['data_category'] == 3),
    ('${%data_category} in (0, 1, 2, 7)', lambda m: m['data_category'] in (0, 1, 2, 7)),
    ('${%n_subsets} > 1', lambda m: m['n_subsets'] > 1),
    ('${%edition} == 4', lambda m: m['edition'] == 4),
    ('${%edition} < 4 and ${%n_subsets} == 1', lambda m: m['edition'] < 4 and m['n_subsets'] == 1),
    ('${%is_compressed}', lambda m: bool(m['is_compressed'])),
    ('not ${%is_compressed}', lambda m: not m['is_compressed']),
    ('${%master_table_version} >= 29', lambda m: m['master_table_version'] >= 29),
    ('True', lambda m: True),
    ('${%edition} == 7', lambda m: False),
    ('${%length} > 60', lambda m: m['length'] > 60),
    # the same expression used again after a different one (one variable per distinct expression)
    ('(${%edition} == 3 and ${%n_subsets} > 1) or (${%edition} == 4 and ${%n_subsets} == 1)',
     lambda m: (m['edition'] == 3 and m['n_subsets'] > 1) or (m['edition'] == 4 and m['n_subsets'] == 1)),
    ('${%data_category} == 3 or (${%edition} == 2 and ${%data_category} == 0) or ${ %edition } == 4',
     lambda m: m['data_category'] == 3 or (m['edition'] == 2 and m['data_category'] == 0) or m['edition'] == 4),
    ('${%n_subsets} + ${%edition} > 5 and not (${%n_subsets} == 3)', lambda m: m['n_subsets'] + m['edition'] > 5 and not m['n_subsets'] == 3),
    # names held by several sections: '%name' is the FIRST section that has it, whatever earlier messages looked like
    ('${%reserved_bits} == "00000000"', lambda m: m['first_reserved_bits'] == '00000000'),
    ('${%section_length} == 22', lambda m: m['section1_length'] == 22),
    ('${%3.reserved_bits} == "00000001" or ${%reserved_bits} == "00000001"', lambda m: m['reserved3'] == '00000001' or m['first_reserved_bits'] == '00000001'),
    ('${%flag_bits} == "0000001"', lambda m: m['flag_bits1'] == '0000001'),
    ('${%3.section_length} > ${%section_length}', lambda m: m['section3_length'] > m['section1_length']),
    # parameter names that carry a digit
    ('${%is_section2_presents}', lambda m: m['has_section2']),
    ('not ${%is_section2_presents} and ${%edition} >= 2', lambda m: not m['has_section2']),
]


def anchors():
    from pybufrkit import decoder, commands
    return [decoder.generate_bufr_message, commands.command_split, commands.command_info]


def known_meta(msg):
    m = dict(R.DEFAULT_META)
    m.update(msg.meta or {})
    s1 = 22 if msg.edition == 4 else 18
    s3 = 7 + 2 * len(msg.ids)
    if msg.edition <= 3 and s3 % 2:
        s3 += 1
    return dict(data_category=m['data_category'], n_subsets=msg.nsub, edition=msg.edition,
                is_compressed=msg.compressed, master_table_version=m['master_table_version'], length=len(msg.bytes),
                reserved3=m['reserved3'], flag_bits1=m['flag_bits1'],
                first_reserved_bits=(m['reserved2'] if msg.sec2 is not None else m['reserved3']),
                section1_length=s1, section3_length=s3, has_section2=msg.sec2 is not None)


CHANGED_LATER = b'<<a yielded message object no longer holds the bytes it held when it was yielded>>'


def collect(gen, cap, consumer=None):
    """the bytes of every yielded message, read when it is yielded; the message objects are kept, as a caller collecting the
    messages of a file would keep them, and must still hold the same bytes when the scan is over.
    consumer='envelope' / 'release': a delivered piece belongs to the consumer - he wraps its bytes into a bulletin of his own
    or drops them before asking for the next piece; what the scan delivers next is not his business and must not depend on it"""
    out = []
    held = []
    for m in itertools.islice(gen, cap + 1):
        out.append(m.serialized_bytes)
        held.append(m)
        if consumer == 'envelope':
            m.serialized_bytes = b'\x01\r\r\n042\r\r\nIUXX01 XXXX 010000\r\r\n' + out[-1] + b'\r\r\n\x03'
        elif consumer == 'release':
            m.serialized_bytes = None
    if consumer is None and (len(set(id(m) for m in held)) != len(held) or [m.serialized_bytes for m in held] != out):
        out.append(CHANGED_LATER)
    return out


def check_yields(ctx, got, want, stream, cap, spec, clause):
    """exactly-once / order / exact-bytes checker."""
    if len(got) > cap:
        ctx.violate('%s/no-progress' % clause, 'more than %d messages yielded from a stream of %d bytes' % (cap, len(stream)), spec)
        return False
    if got == want:
        return True
    gs, ws = list(got), list(want)
    if CHANGED_LATER in gs:
        kind = 'yielded-object-changed-later'
    elif len(gs) < len(ws) and all(g in ws for g in gs):
        kind = 'loss'
    elif len(gs) > len(ws) and all(w in gs for w in ws):
        extra = [g for g in gs if g not in ws]
        kind = 'phantom' if extra else 'duplication'
    elif sorted(gs) == sorted(ws):
        kind = 'reordering'
    else:
        kind = 'wrong-bytes'
    ctx.violate('%s/%s' % (clause, kind), 'yielded %d messages (lengths %r), expected %d (lengths %r)'
                % (len(gs), [len(g) for g in gs][:10], len(ws), [len(w) for w in ws][:10]), spec,
                expected=[w.hex()[:80] for w in ws][:6], observed=[g.hex()[:80] for g in gs][:6])
    return False


def run_stream(ctx, dec, msgs, stream, seps, spec_base, probe=False):
    from pybufrkit.decoder import generate_bufr_message
    want_all = [m.bytes for m in msgs]
    cap = len(stream) // 12 + 2
    nontrivial = len(msgs) >= 2 or any(seps) or spec_base.get('hostile')
    for info_only in (False, True):
        mode = 'info-only' if info_only else 'full'
        spec = dict(spec_base, mode=mode, stream_hex=stream.hex(), n_messages=len(msgs),
                    separators=[s.decode('latin-1') for s in seps])
        ctx.evaluated((stream.hex(), mode, None), nontrivial,
                      sample=dict(n_messages=len(msgs), mode=mode, separators=[s.decode('latin-1') for s in seps][:5],
                                  lengths=[len(w) for w in want_all], hostile=spec_base.get('hostile')))
        ctx.count('streams_info_only' if info_only else 'streams_full')
        ctx.count('messages_in', len(msgs))
        try:
            if probe and not info_only:
                with telemetry.LocalProbe(generate_bufr_message, ('idx_start',)) as lp:
                    got = collect(generate_bufr_message(dec, stream, info_only=info_only), cap)
                offs = [t[0] for t in lp.seen if t[0] is not None]
                ctx.count('probe_offsets_seen', len(offs))
                if lp.ok and offs:
                    offs = [o for o in offs if o >= 0]
                    if any(b < a for a, b in zip(offs, offs[1:])):
                        ctx.violate('probe/scan-offset-decreases', 'idx_start went backwards: %r' % offs[:12], spec, advisory=True)
            else:
                got = collect(generate_bufr_message(dec, stream, info_only=info_only), cap)
        except Exception as e:
            ctx.violate('scan-raises:%s/%s%s' % (type(e).__name__, mode, '/hostile' if spec_base.get('hostile') else ''),
                        'scanning a stream of valid messages raised %s: %s' % (type(e).__name__, str(e)[:120]), spec, exc=e)
            continue
        ctx.count('messages_out', len(got))
        check_yields(ctx, got, want_all, stream, cap, spec, 'split/' + mode + ('/hostile' if spec_base.get('hostile') else ''))
    # filters
    metas = [known_meta(m) for m in msgs]
    for fi in ctx.rng.sample(range(len(FILTERS)), 2 if ctx.quick else 4):
        expr, truth = FILTERS[fi]
        want = [m.bytes for m, me in zip(msgs, metas) if truth(me)]
        for info_only in (False, True):
            mode = 'info-only' if info_only else 'full'
            spec = dict(spec_base, mode=mode, filter=expr, stream_hex=stream.hex(), n_messages=len(msgs))
            ctx.evaluated((stream.hex(), mode, expr), nontrivial)
            ctx.count('filtered_streams')
            ctx.add('filter_selectivity', 'none' if not want else ('all' if len(want) == len(msgs) else 'some'))
            try:
                got = collect(generate_bufr_message(dec, stream, info_only=info_only, filter_expr=expr), cap)
            except Exception as e:
                ctx.violate('filter-scan-raises:%s/%s' % (type(e).__name__, mode),
                            'scanning with filter %r raised %s: %s' % (expr, type(e).__name__, str(e)[:120]), spec, exc=e)
                continue
            check_yields(ctx, got, want, stream, cap, spec, 'filter/' + mode + ('/hostile' if spec_base.get('hostile') else ''))


    # a named stream: filters may refer to the documented variable PBK_FILENAME (the file_path the scan was given)
    for expr, want in (('PBK_FILENAME == "stream-a.bufr"', want_all), ('PBK_FILENAME != "stream-a.bufr"', []),
                       ('PBK_FILENAME.endswith(".bufr") and ${%edition} >= 2', want_all)):
        for info_only in (False, True):
            mode = 'info-only' if info_only else 'full'
            spec = dict(spec_base, mode=mode, filter=expr, file_path='stream-a.bufr', stream_hex=stream.hex(), n_messages=len(msgs))
            ctx.evaluated((stream.hex(), mode, expr), nontrivial)
            ctx.count('filtered_streams_by_file_name')
            try:
                got = collect(generate_bufr_message(dec, stream, info_only=info_only, filter_expr=expr, file_path='stream-a.bufr'), cap)
            except Exception as e:
                ctx.violate('filter-scan-raises:%s/%s/file-name' % (type(e).__name__, mode), 'scanning a named stream with filter %r raised %s: %s'
                            % (expr, type(e).__name__, str(e)[:120]), spec, exc=e)
                continue
            check_yields(ctx, got, want, stream, cap, spec, 'filter/file-name/' + mode)
    # non-default options that must not change what a stream of valid messages yields
    OPTS = [{}, dict(ignore_value_expectation=True), dict(wire_template_data=False), dict(continue_on_error=True),
            dict(ignore_value_expectation=True, wire_template_data=False), dict(ignore_value_expectation=True, continue_on_error=True)]
    for opts in ctx.rng.sample(OPTS, 2 if ctx.quick else 4):
        for info_only in (False, True):
            for use_filter in (True, False):
                mode = 'info-only' if info_only else 'full'
                if use_filter:
                    expr, truth = FILTERS[ctx.rng.randrange(len(FILTERS))]
                    want = [m.bytes for m, me in zip(msgs, metas) if truth(me)]
                else:
                    expr, want = None, want_all
                oname = '+'.join(sorted(opts)) or 'default'
                spec = dict(spec_base, mode=mode, filter=expr, options=opts, stream_hex=stream.hex(), n_messages=len(msgs))
                ctx.evaluated((stream.hex(), mode, expr, oname), nontrivial)
                ctx.count('option_variant_scans')
                ctx.add('option_variants', oname)
                consumer = ctx.rng.choice([None, None, 'envelope', 'release'])
                if consumer:
                    oname += '+consumer-' + consumer
                    ctx.count('scans_with_a_consumer_that_edits_delivered_pieces')
                try:
                    got = collect(generate_bufr_message(dec, stream, info_only=info_only, filter_expr=expr, **opts), cap, consumer)
                except Exception as e:
                    ctx.violate('option-scan-raises:%s/%s/%s%s' % (type(e).__name__, mode, oname, '/filter' if use_filter else ''),
                                'scanning valid messages with %r%s raised %s: %s' % (opts, ' and a filter' if use_filter else '',
                                                                                   type(e).__name__, str(e)[:120]), spec, exc=e)
                    continue
                check_yields(ctx, got, want, stream, cap, spec, 'options/%s/%s%s' % (oname, mode, '/filter' if use_filter else ''))


def interleaved(ctx, decs, parts, spec_base):
    """Several scans under way at the same time.  `parts` = [(msgs, stream, kwargs, want)].  The generators are advanced under a
    random schedule (one shared Decoder, or one each), some are abandoned half-way (closed, or just dropped) and a nested full
    scan of another stream is run from inside the loop body of a running one.  Exactly-once / order oracle per stream: what a
    generator yielded up to the point where it was left is the prefix of its own expected list, whatever the others did."""
    from pybufrkit.decoder import generate_bufr_message
    rng = ctx.rng
    gens = []
    for i, (msgs, stream, kw, want) in enumerate(parts):
        dec = decs[i % len(decs)]
        gens.append(dict(i=i, gen=generate_bufr_message(dec, stream, **kw), got=[], held=[], want=want, stream=stream, kw=kw,
                         stop_after=(rng.randrange(len(want) + 1) if rng.random() < 0.35 else None), done=False, dec=dec))
    schedule = []
    live = list(gens)
    steps = 0
    while live and steps < 400:
        steps += 1
        g = rng.choice(live)
        schedule.append(g['i'])
        if g['stop_after'] is not None and len(g['got']) >= g['stop_after']:
            # abandoned half-way: closed explicitly or simply dropped
            if rng.random() < 0.5:
                try:
                    g['gen'].close()
                except Exception as e:
                    ctx.violate('interleaved/close-raises:%s' % type(e).__name__, 'closing a scan that was left half-way raised %r' % (e,),
                                dict(spec_base, schedule=schedule[:80]), exc=e)
            g['gen'] = None
            g['abandoned'] = True
            live.remove(g)
            ctx.count('scans_abandoned_half_way')
            continue
        try:
            m = next(g['gen'])
        except StopIteration:
            g['done'] = True
            live.remove(g)
            continue
        except Exception as e:
            ctx.violate('interleaved/scan-raises:%s' % type(e).__name__, 'a scan of valid messages advanced alternately with %d other scans raised %s: %s'
                        % (len(parts) - 1, type(e).__name__, str(e)[:120]), dict(spec_base, schedule=schedule[:80], stream_hex=g['stream'].hex(), options=g['kw']), exc=e)
            live.remove(g)
            g['failed'] = True
            continue
        g['got'].append(m.serialized_bytes)
        g['held'].append(m)
        if rng.random() < 0.15:
            # a complete scan of another stream from inside the loop body of this one, on this one's decoder
            o = rng.choice(parts)
            try:
                inner = collect(generate_bufr_message(g['dec'], o[1], **o[2]), len(o[1]) // 12 + 2)
            except Exception as e:
                inner = ['raises %s' % type(e).__name__]
            ctx.count('nested_scans')
            schedule.append('n')
            if inner != o[3]:
                ctx.violate('interleaved/nested-scan-differs', 'a complete scan started from inside the loop body of a running scan yielded %d messages '
                            '(lengths %r), the stream holds %d' % (len(inner), [len(x) for x in inner][:8], len(o[3])),
                            dict(spec_base, schedule=schedule[:80], stream_hex=o[1].hex(), options=o[2]))
    ctx.add('interleaving_schedules', ''.join(str(x) for x in schedule)[:60])
    for g in gens:
        if g.get('failed'):
            continue
        ctx.count('interleaved_scans')
        spec = dict(spec_base, schedule=schedule[:80], stream_hex=g['stream'].hex(), options=g['kw'], n_scans=len(parts))
        ctx.evaluated((g['stream'].hex(), repr(sorted(g['kw'].items())), tuple(schedule)), True)
        want = g['want'] if g['done'] else g['want'][:len(g['got'])]
        got = list(g['got'])
        if [m.serialized_bytes for m in g['held']] != got or len(set(id(m) for m in g['held'])) != len(g['held']):
            got.append(CHANGED_LATER)
        check_yields(ctx, got, want, g['stream'], len(g['stream']) // 12 + 2, spec,
                     'interleaved/' + ('finished' if g['done'] else 'left-half-way'))
    # after everything that was left half-way: the same decoders scan every stream from start to end
    for i, (msgs, stream, kw, want) in enumerate(parts):
        try:
            got = collect(generate_bufr_message(decs[i % len(decs)], stream, **kw), len(stream) // 12 + 2)
        except Exception as e:
            ctx.violate('interleaved/scan-after-abandoned-scans-raises:%s' % type(e).__name__, 'a scan after scans that were left half-way raised %r' % (e,),
                        dict(spec_base, schedule=schedule[:80], stream_hex=stream.hex(), options=kw), exc=e)
            continue
        ctx.count('scans_after_abandoned_scans')
        check_yields(ctx, got, want, stream, len(stream) // 12 + 2, dict(spec_base, schedule=schedule[:80], stream_hex=stream.hex(), options=kw),
                     'interleaved/after-abandoned-scans')


def interleaved_block(ctx, dec, k):
    """build 2-4 streams with options of their own and run them interleaved: once on ONE shared decoder, once on a decoder each"""
    from pybufrkit.decoder import Decoder
    rng = ctx.rng
    parts = []
    for _ in range(rng.choice([2, 2, 3, 4])):
        msgs = []
        for _ in range(rng.choice([1, 2, 3, 3, 4, 5])):
            k += 1
            msgs.append(streams.make_message(rng, k, hostile=1.0 if rng.random() < 0.2 else 0.0))
        stream, used = streams.join(msgs, rng)
        metas = [known_meta(m) for m in msgs]
        kw = {}
        want = [m.bytes for m in msgs]
        if rng.random() < 0.5:
            kw['info_only'] = True
        if rng.random() < 0.5:
            expr, truth = FILTERS[rng.randrange(len(FILTERS))]
            kw['filter_expr'] = expr
            want = [m.bytes for m, me in zip(msgs, metas) if truth(me)]
        if rng.random() < 0.3:
            kw.update(rng.choice([dict(ignore_value_expectation=True), dict(wire_template_data=False), dict(continue_on_error=True)]))
        parts.append((msgs, stream, kw, want))
    if rng.random() < 0.3:
        parts.append(parts[0][:2] + (dict(parts[-1][2]), None))           # the same stream scanned twice at the same time, other options
        msgs, stream, kw, _ = parts[-1]
        metas = [known_meta(m) for m in msgs]
        truth = dict(FILTERS).get(kw.get('filter_expr'), lambda me: True)
        parts[-1] = (msgs, stream, kw, [m.bytes for m, me in zip(msgs, metas) if truth(me)])
    interleaved(ctx, [dec], parts, dict(origin='interleaved-scans', decoders='one shared'))
    interleaved(ctx, [Decoder(), Decoder()], parts, dict(origin='interleaved-scans', decoders='one each'))
    return k


def split_files(ctx, msgs, stream, scratch, tag, spec):
    from mon.cli import run_cli
    path = os.path.join(scratch, 'stream_%s.bufr' % tag)
    with open(path, 'wb') as f:
        f.write(stream)
    so, se, exc, code = run_cli(['split', path])
    if exc is not None:
        ctx.violate('split-command-raises:%s' % type(exc).__name__, 'pybufrkit split raised %r' % (exc,), spec, exc=exc)
        return
    names = [ln.strip() for ln in so.splitlines() if ln.strip()]
    pieces = b''
    for nme in names:
        with open(nme, 'rb') as f:
            pieces += f.read()
        os.remove(nme)
    ctx.count('split_runs')
    want = b''.join(m.bytes for m in msgs)
    if pieces != want or len(names) != len(msgs):
        ctx.violate('split-command/pieces-differ', 'split wrote %d pieces (%d bytes), the stream holds %d messages (%d bytes)'
                    % (len(names), len(pieces), len(msgs), len(want)), spec)
    so, se, exc, code = run_cli(['info', '-c', path])
    if exc is not None or not so.strip().endswith(': %d' % len(msgs)):
        ctx.violate('info-count-differs', 'info -c printed %r for %d messages (%r)' % (so.strip()[-40:], len(msgs), exc), spec)
    # several files in one invocation: every file is scanned on its own
    path2 = path + '.second'
    msgs2 = list(reversed(msgs))[:max(1, len(msgs) - 1)] if msgs else []
    with open(path2, 'wb') as f:
        f.write(b'\r\r\n'.join(m.bytes for m in msgs2))
    so, se, exc, code = run_cli(['info', '-c', path, path2])
    ctx.count('multi_file_command_runs')
    want_lines = ['%s: %d' % (path, len(msgs)), '%s: %d' % (path2, len(msgs2))]
    if exc is not None or [ln.strip() for ln in so.splitlines() if ln.strip()] != want_lines:
        ctx.violate('info-count-differs/several-files', 'info -c over two files printed %r, expected %r (%r)'
                    % (so.strip().splitlines()[-2:], [w.split('/')[-1] for w in want_lines], exc), spec)
    so, se, exc, code = run_cli(['split', path, path2])
    ctx.count('multi_file_command_runs')
    if exc is not None:
        ctx.violate('split-command-raises:%s/several-files' % type(exc).__name__, 'pybufrkit split of two files raised %r' % (exc,), spec, exc=exc)
    else:
        names = [ln.strip() for ln in so.splitlines() if ln.strip()]
        got = {}
        for nme in names:
            with open(nme, 'rb') as f:
                got.setdefault(nme.rsplit('.', 1)[0], []).append(f.read())
            os.remove(nme)
        if got.get(path, []) != [m.bytes for m in msgs] or got.get(path2, []) != [m.bytes for m in msgs2]:
            ctx.violate('split-command/pieces-differ/several-files', 'split of two files wrote %r pieces, the files hold %d and %d messages'
                        % ({k.split('/')[-1]: len(v) for k, v in got.items()}, len(msgs), len(msgs2)), spec)
    so, se, exc, code = run_cli(['decode', '-m', '-j', path, path2])
    ctx.count('multi_file_command_runs')
    if exc is None and not se.strip():
        try:
            lens = [json.loads(ln)[0][1] for ln in so.splitlines() if ln.strip()]
        except Exception:
            lens = None
        if lens != [len(m.bytes) for m in msgs] + [len(m.bytes) for m in msgs2]:
            ctx.violate('decode-m-command/messages-differ/several-files', 'decode -m of two files printed messages of lengths %r' % (lens,), spec)
    else:
        ctx.violate('decode-m-command-fails/several-files', 'decode -m of two files failed: %r %s' % (exc, se[:100]), spec)
    os.remove(path2)
    # decode -m [--filter]: one JSON document per delivered message, in order (identified by its section lengths/metadata)
    metas = [known_meta(m) for m in msgs]
    fi = ctx.rng.randrange(len(FILTERS))
    for expr, truth in ((None, lambda me: True), FILTERS[fi]):
        args = ['decode', '-m', '-j'] + (['--filter', expr] if expr else []) + [path]
        so, se, exc, code = run_cli(args)
        ctx.count('decode_m_command_runs')
        if exc is not None or se.strip():
            ctx.violate('decode-m-command-fails%s' % ('/filter' if expr else ''), 'pybufrkit %s failed: %r %s' % (' '.join(args[:-1]), exc, se[:100]),
                        dict(spec, filter=expr))
            continue
        want = [(len(m.bytes), me['data_category'], me['n_subsets']) for m, me in zip(msgs, metas) if truth(me)]
        got = []
        try:
            for ln in so.splitlines():
                if ln.strip():
                    doc = json.loads(ln)
                    sec1 = doc[1]
                    # [length, edition] ; section 1 holds data_category at a layout-dependent place: take what the sections say
                    got.append((doc[0][1], None, None))
        except Exception as e:
            ctx.violate('decode-m-command-output-unreadable', 'output of %s is not one JSON document per line: %r' % (' '.join(args[:-1]), e),
                        dict(spec, filter=expr))
            continue
        if [g[0] for g in got] != [w[0] for w in want]:
            ctx.violate('decode-m-command/messages-differ%s' % ('/filter' if expr else ''),
                        'pybufrkit %s printed messages of lengths %r, expected %r' % (' '.join(args[:-1]), [g[0] for g in got], [w[0] for w in want]),
                        dict(spec, filter=expr))
    os.remove(path)


def run(ctx):
    from pybufrkit.decoder import Decoder
    dec = Decoder()
    rng = ctx.rng
    scratch = os.path.join(os.environ.get('VERIF_SCRATCH', '/verif/.scratch'), 'c11-%d' % ctx.shard)
    os.makedirs(scratch, exist_ok=True)
    k = ctx.shard * 100000
    try:
        # mandatory: empty stream, separators only, single message with each separator kind, inner message
        mandatory = []
        mandatory.append(([], [b'']))
        mandatory.append(([], [b'\r\r\nBUF7777 no message here BU']))
        ctx.count('empty_streams', 2)
        for i, sep in enumerate(streams.SEPARATORS):
            if not ctx.mine(i):
                continue
            k += 1
            m1 = streams.make_message(rng, k)
            k += 1
            m2 = streams.make_message(rng, k, hostile=1.0)
            mandatory.append(([m1, m2], [sep]))
        for msgs, seps in mandatory:
            stream, used = streams.join(msgs, rng, seps)
            if any(getattr(m, 'ids', [0])[0] // 1000 in (205, 1) for m in msgs):
                ctx.count('hostile_payload_messages')
            run_stream(ctx, dec, msgs, stream, used, dict(origin='mandatory', hostile=bool(msgs)), probe=True)
        # the smallest legal messages (no descriptor at all / one descriptor, 42-48 octets), in particular as the LAST
        # thing in the stream with nothing behind them
        from mon.gen import cases as _cases
        B33, D33 = _cases.tables(33)
        tiny = []
        for ti, (ids, ed) in enumerate((([], 4), ([], 3), ([], 2), ([1001], 3), ([2001], 4), ([1001], 2))):
            try:
                tiny.append(R.build_message(ids, B33, D33, R.Policy(rng), 1, False, ed, dict(update_sequence_number=ti, data_category=ti)))
            except R.Unsupported:
                pass
        k += 1
        normal = streams.make_message(rng, k)
        layouts = [[t] for t in tiny] + [[normal, t] for t in tiny] + [[tiny[i], tiny[(i + 1) % len(tiny)]] for i in range(len(tiny))]
        for li, msgs in enumerate(layouts):
            if not ctx.mine(li):
                continue
            for tail in (b'', b'\r\r\n', b'BUF'):
                stream = b'\r\r\n'.join(m.bytes for m in msgs) + tail
                ctx.count('tiny_message_streams')
                run_stream(ctx, dec, msgs, stream, [tail], dict(origin='tiny-messages', hostile=False))
            if li % 5 == 0:
                stream = b''.join(m.bytes for m in msgs)
                split_files(ctx, msgs, stream, scratch, 't%d' % li, dict(origin='tiny-messages', stream_hex=stream.hex()))
        for j in range(4 if ctx.quick else 40):
            k += 1
            inner = streams.small_message(rng, k, data_category=3)
            k += 1
            try:
                outer = streams.make_message(rng, k, inner=inner.bytes)
            except RuntimeError:
                continue
            outer.meta['data_category'] = outer.meta.get('data_category', 0)
            k += 1
            other = streams.make_message(rng, k)
            msgs = [outer, other] if j % 2 else [other, outer]
            stream, used = streams.join(msgs, rng)
            ctx.count('inner_message_streams')
            ctx.count('hostile_payload_messages')
            run_stream(ctx, dec, msgs, stream, used, dict(origin='inner-message', hostile=True), probe=(j == 0))
        for _ in range(6 if ctx.quick else 60):
            k = interleaved_block(ctx, dec, k)
        q = 0
        while q < QUOTA[ctx.tier] and ctx.more():
            q += 1
            if q % 10 == 0:
                k = interleaved_block(ctx, dec, k)
            n = rng.choice([0, 1, 2, 2, 3, 3, 4, 5, 6, 8])
            msgs = []
            hostile = False
            for _ in range(n):
                k += 1
                h = rng.random() < 0.3
                msgs.append(streams.make_message(rng, k, hostile=1.0 if h else 0.0))
                if h:
                    hostile = True
                    ctx.count('hostile_payload_messages')
            stream, used = streams.join(msgs, rng)
            if n == 0:
                ctx.count('empty_streams')
            for s in used:
                ctx.add('separators', s.decode('latin-1')[:12])
            run_stream(ctx, dec, msgs, stream, used, dict(origin='random', hostile=hostile), probe=(q % 5 == 0))
            if q % 6 == 1 and n:
                split_files(ctx, msgs, stream, scratch, 'r%d' % q, dict(origin='random', stream_hex=stream.hex()))
    finally:
        shutil.rmtree(scratch, ignore_errors=True)


def replay(ctx, case):
    from pybufrkit.decoder import Decoder, generate_bufr_message
    spec = case['case']
    stream = bytes.fromhex(spec['stream_hex'])
    got = collect(generate_bufr_message(Decoder(), stream, info_only=spec.get('mode') == 'info-only',
                                        filter_expr=spec.get('filter')), len(stream) // 12 + 2)
    ctx.evaluated(spec['stream_hex'], True)
    want = [bytes.fromhex(h) for h in case.get('expected') or []]
    print('replay: yielded lengths', [len(g) for g in got])
    if case.get('expected') is not None and [g.hex()[:80] for g in got][:6] != case['expected']:
        ctx.violate(case['sig'], 'replay: yields still differ', spec)
