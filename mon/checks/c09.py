"""C09 - all four output formats carry the same data and convert back to it.

Oracle (differential + invariant): for every decoded message the three conversions back to flat
(nested JSON, flat text, nested text) must equal the flat JSON rendering; encoding from each gives
the same bytes; and an independent flattener of the nested JSON view (DESIGN appendix B) must
reproduce the flat value list exactly - every value once, in order.  The node tree built by
TemplateData.wire must reference every flat index exactly once.  The four CLI paths
(decode [-a] [-j] -> encode [-a] [-j]) are driven in-process on a sample.
"""
import glob
import copy
import json
import os
import shutil

from mon import refbufr as R
from mon import handover, midscan, forms
from mon import nested
from mon.compare import td_of, opsig
from mon.gen import cases
from mon.gen import failures
from mon.checks.c06 import OPEN_SHAPES
from mon.gen.shapes import SHAPES, EdgePolicy

ID = 'C09'
LEVEL = 'exploration'
TECHNIQUE = ('runtime monitoring: renderings of real decodes converted back and compared with the flat form; '
             'independent conservation walk over the nested view and over the wired node tree')
RULE = ('R-produced messages (random templates with operators, bitmap tails, attributes on elements and on '
        'replication factors, 221, zero-count replications, flag tables, hostile strings with quotes, '
        'backslashes, blanks, 8-bit characters and text that resembles the text formats\' own syntax) and every '
        'sample file; non-trivial = >= 3 values and (a replication, an attribute, a string or an operator); '
        'distinct by SHA-1 of the message bytes; open-construct shapes, value-less templates, same-layout-different-bitmap subsets; virtual attributes of each subset compared with that subset\'s flat links; command line also with -t <tables root>')
RULE += '; added with rounds 10-12: conversions repeated after the caller edited the first result in place; the nested view handed to the converter re-read; text renderings with CRLF / no final newline / blanks at line ends / byte-order mark; `encode` from standard input / --append / --preamble / both / -t -d with trailing slash and relative; messages rendered while scans are suspended (mid-scan scenarios); twins'
ASSUMPTIONS = ['comparison after a JSON round trip with the repository\'s EntityEncoder (bytes -> latin-1 str), as the CLI does',
               'bytes objects returned by the text converters are identified with their latin-1 str',
               'messages whose decode raises are out of scope (property quantifies over decodable messages)']
BUDGET = {'quick': 45, 'thorough': 600}
QUOTA = {'quick': 220, 'thorough': 4000}
REQUIRED = {'quick': {'evaluations': 1200, 'conversions_compared': 3800, 'conservation_walks': 2000,
                      'node_tree_checks': 1500, 'corpus_compared': 6, 'encodes_compared': 300, 'cli_roundtrips': 8,
                      'attr_on_factor_cases': 5, 'dnp221_cases': 20, 'hostile_string_cases': 100},
            'thorough': {'evaluations': 20000, 'conversions_compared': 61000, 'conservation_walks': 30000,
                      'node_tree_checks': 25000, 'corpus_compared': 62, 'encodes_compared': 5000, 'cli_roundtrips': 150,
                      'attr_on_factor_cases': 100, 'dnp221_cases': 300, 'hostile_string_cases': 2000}}


HOSTILE = [b" b'x", b"it's", b'say "hi"', b'a = b', b'-> A1', b'###### x', b'<<<<<< s', b'\\', b'\'"',
           b"x b'", b'x b"', b'#', b'3', b'None', b"b''", b'  lead', b'trail  ', b'\\x41', b'\\n', b'1 2',
           b"' b'", b'" b"', b'(1, [2])', b'\xe9t\xe9', b'\xa0', b'....', b'\t', b'\'',
           # octet strings that happen to be well-formed multi-byte UTF-8 (they are latin-1 data all the same)
           b'Z\xc3\xbcRICH', b'\xc3\xa9t\xc3\xa9', b'\xe2\x82\xac5', b'\xc2\xb0C']

SHAPES09 = [
    ('attr-on-factor', [12001, 101000, 31001, 4024, 222000, 101000, 31001, 31031, 101000, 31001, 33007]),
    ('attr-on-nested-factor', [102002, 1001, 101000, 31001, 12001, 223000, 101000, 31001, 31031, 101000, 31001, 223255]),
    ('dnp-221', [221003, 12001, 1001, 5001, 12001]),
    ('dnp-221-in-replication', [102002, 221002, 12001, 1001, 12001]),
    # 221 spans that cover non-element descriptors (grey for FM-94, DESIGN 2.3; the library counts every
    # descriptor of the list) - data produced in R's permissive mode, compared differentially only
    ('dnp-221-over-sequence', [221003, 301021, 12001, 12004, 1001]),
    ('dnp-221-over-replication', [221003, 101002, 12001, 12004, 1001]),
    ('dnp-221-over-operator', [221004, 201130, 12001, 201000, 12004, 12001]),
    ('dnp-221-over-delayed', [221004, 101000, 31001, 12001, 12004, 10004, 1001]),
    ('zero-count', [101000, 31001, 12001, 1001]),
    # subsets that hold no value at all
    ('empty-template', []),
    ('operators-only', [201130, 201000, 202129, 202000]),
    ('strings', [1015, 1001, 1015, 205008, 208003, 1015, 208000]),
    ('flags', [2002, 2003, 20003, 2001, 8042]),
    ('assoc-chain', [204003, 31021, 12001, 1015, 204000, 12001, 224000, 101000, 31001, 31031, 8023,
                     101000, 31001, 224255]),
]


def anchors():
    from pybufrkit import utils
    from pybufrkit.templatedata import TemplateData
    from pybufrkit.renderer import FlatTextRenderer, NestedTextRenderer
    return [utils.template_data_nested_json_to_flat_json, utils.subsets_flat_text_to_flat_json,
            utils.subsets_nested_text_to_flat_json, utils.section_text_to_flat_json, TemplateData.wire,
            TemplateData.wire_members, FlatTextRenderer._render_template_data,
            NestedTextRenderer._render_template_data_nodes, NestedTextRenderer._render_template_data_value_node]


class HostilePolicy(R.Policy):
    def pick_str(self, n):
        if self.rng.random() < 0.5:
            s = self.rng.choice(HOSTILE)
            if self.rng.random() < 0.3:
                s = s + self.rng.choice(HOSTILE)
            return s[:n].ljust(n)
        return R.Policy.pick_str(self, n)


def norm(v):
    if isinstance(v, bytes):
        return v.decode('latin-1')
    if isinstance(v, (list, tuple)):
        return [norm(x) for x in v]
    return v


def first_diff(a, b, path=()):
    if type(a) != type(b) and not (isinstance(a, (int, float)) and isinstance(b, (int, float))
                                     and not isinstance(a, bool) and not isinstance(b, bool)):
        return path, a, b
    if isinstance(a, list):
        if len(a) != len(b):
            return path + ('len',), len(a), len(b)
        for i, (x, y) in enumerate(zip(a, b)):
            d = first_diff(x, y, path + (i,))
            if d:
                return d
        return None
    if a != b or (isinstance(a, float) != isinstance(b, float) and a != b):
        return path, a, b
    return None


def tree_indices(nodes, out):
    """flat indices referenced by the wired node tree (first appearances only)."""
    from pybufrkit.templatedata import NoValueDataNode, AssociatedFieldNode
    for n in nodes:
        if isinstance(n, NoValueDataNode):
            f = getattr(n, 'factor', None)
            if f is not None:
                _value_node(f, out)
            tree_indices(getattr(n, 'members', []), out)
        else:
            _value_node(n, out)


def _value_node(n, out):
    from pybufrkit.templatedata import AssociatedFieldNode
    for a in getattr(n, 'attributes', []):
        if isinstance(a, AssociatedFieldNode):
            out.append(a.index)
    out.append(n.index)


def features_of(labels_all, nodes_all, ids):
    f = set()
    for labels in labels_all:
        if any(l[0] in 'AFDTR' for l in labels):
            f.add('attr')
    if any(i // 1000 == 221 for i in ids):
        f.add('dnp221')
    return f


def factor_has_attr(nodes):
    for n in nodes:
        fac = n.get('factor')
        if fac is not None and fac.get('attributes'):
            return True
        mem = n.get('members')
        if mem:
            if nested.is_replication(n):
                if any(factor_has_attr(rep) for rep in mem):
                    return True
            elif factor_has_attr(mem):
                return True
    return False


def scramble(o, depth=0):
    """edit a result object in place, as deep as it goes (what a caller may do with something he was given)"""
    if isinstance(o, list):
        for x in o:
            scramble(x, depth + 1)
        if o and not isinstance(o[0], (list, dict)):
            o.reverse()
            if len(o) > 1:
                del o[-1]
        o.append('edited-by-the-caller')
    elif isinstance(o, dict):
        for x in list(o.values()):
            scramble(x, depth + 1)
        for k in list(o):
            if not isinstance(o[k], (list, dict)):
                o[k] = 'edited-by-the-caller'
        o['edited'] = True


def judge_formats(kind, m, exp, opts):
    """C09's oracle for a message delivered / decoded in the middle of other work: the other three formats convert back to the flat
    JSON form (a message decoded without the wiring option - or with it switched off by the caller - is wired first, as a caller would)"""
    from pybufrkit.renderer import FlatJsonRenderer, NestedJsonRenderer, FlatTextRenderer, NestedTextRenderer
    from pybufrkit import utils
    if kind != 'full':
        return None
    if opts.get('wire_template_data') is False:
        m.wire()
    dumps = lambda o: json.dumps(o, cls=utils.EntityEncoder)
    fj = json.loads(dumps(FlatJsonRenderer().render(m)))
    nvals = sum(len(x) for x in fj[-2][-1]) if isinstance(fj[-2][-1], list) else 0
    for name, fn in (('nested-json', lambda: utils.nested_json_to_flat_json(json.loads(dumps(NestedJsonRenderer().render(m))))),
                     ('flat-text', lambda: utils.flat_text_to_flat_json(FlatTextRenderer().render(m))),
                     ('nested-text', lambda: utils.nested_text_to_flat_json(NestedTextRenderer().render(m)))):
        try:
            conv = fn()
        except Exception as e:
            return ('%s-to-flat-raises:%s' % (name, type(e).__name__), '%s -> flat raises %s' % (name, type(e).__name__))
        d = first_diff(norm(conv), fj)
        if d:
            return ('%s-converted-back-differs' % name, '%s converted back differs from the flat JSON at %r (%d values in the flat form)' % (name, d[0], nvals))
    return None


def check_message(ctx, m, enc, spec, sigctx, ids, want_encode=True):
    """m: decoded BufrMessage (wired)."""
    from pybufrkit.renderer import FlatJsonRenderer, NestedJsonRenderer, FlatTextRenderer, NestedTextRenderer
    from pybufrkit import utils
    td = td_of(m)
    dumps = lambda o: json.dumps(o, cls=utils.EntityEncoder)
    try:
        sb = bytes(m.serialized_bytes)
        if len(sb) < 20000:
            # each rendering shows the same data the first time and every later time, in whatever order the four are taken
            handover.on_message(ctx, sb, spec, site=str(spec.get('origin')), p=0.25)
    except Exception as e:
        ctx.notes.append('object history skipped: %r' % (e,))
    try:
        fj = json.loads(dumps(FlatJsonRenderer().render(m)))
        nj_obj = NestedJsonRenderer().render(m)
        nj = json.loads(dumps(nj_obj))
        ft = FlatTextRenderer().render(m)
        nt = NestedTextRenderer().render(m)
    except Exception as e:
        ctx.violate('render-raises:%s/%s' % (type(e).__name__, sigctx), 'a renderer raised %s: %s'
                    % (type(e).__name__, str(e)[:150]), spec, exc=e)
        return
    nvals = sum(len(v) for v in td.decoded_values_all_subsets)
    labels_all = [[str(d) for d in ds] for ds in td.decoded_descriptors_all_subsets]
    nodes_all = nj[-2][-1]['value'] if len(nj) >= 2 and nj[-2] and isinstance(nj[-2][-1].get('value'), list) else []
    has_str = any(isinstance(v, bytes) for vs in td.decoded_values_all_subsets for v in vs)
    f = features_of(labels_all, nodes_all, ids)
    nontrivial = nvals >= 3 and (bool(f) or has_str or any(i // 100000 in (1, 2) for i in ids))
    ctx.evaluated(spec.get('hex', spec.get('file', ''))[:4000], nontrivial,
                  sample=dict((k, v) for k, v in spec.items() if k != 'hex'))
    if 'dnp221' in f:
        ctx.count('dnp221_cases')
    if has_str:
        ctx.count('string_cases')
    try:
        if any(factor_has_attr(nodes) for nodes in nodes_all):
            ctx.count('attr_on_factor_cases')
            sigctx_f = sigctx + '/attr-on-factor'
        else:
            sigctx_f = sigctx
    except Exception:
        sigctx_f = sigctx
    # ---- conversions back to flat
    results = {}
    for name, fn in (('nested-json', lambda: utils.nested_json_to_flat_json(nj)),
                     ('flat-text', lambda: utils.flat_text_to_flat_json(ft)),
                     ('nested-text', lambda: utils.nested_text_to_flat_json(nt))):
        ctx.count('conversions_compared')
        try:
            conv = fn()
        except Exception as e:
            extra = '/dnp221' if 'dnp221' in f and name == 'nested-text' else ''
            ctx.violate('convert-raises/%s:%s%s/%s' % (name, type(e).__name__, extra, sigctx_f if name == 'nested-text' else sigctx),
                        '%s -> flat raised %s: %s' % (name, type(e).__name__, str(e)[:150]), spec, exc=e)
            continue
        results[name] = conv
        d = first_diff(norm(conv), fj)
        if d:
            where = 'data' if (len(d[0]) >= 2 and d[0][0] == len(fj) - 2) else 'section%s' % (d[0][0] if d[0] else '?')
            strv = isinstance(d[1], str) or isinstance(d[2], str)
            ctx.violate('convert-differs/%s/%s%s/%s' % (name, where, '/string' if strv else '',
                                                        sigctx_f if name == 'nested-text' else sigctx),
                        '%s converted back to flat differs from the flat JSON at %r: %r vs %r'
                        % (name, d[0], d[1], d[2]), spec, expected=d[2], observed=d[1])
    # ---- the text renderings as another platform / editor would hold them (line ends, final newline, blanks, byte-order mark)
    if ctx.counters['conversions_compared'] % 12 < 3:
        forms.text_forms(ctx, ft, nt, 'convert', spec)
    # ---- what a caller was given stays his: the nested view handed to the converter still shows what it showed, and a
    # conversion repeated after the caller edited the result of the first one (in place, as deep as it goes) gives the first result
    if ctx.counters['conversions_compared'] % 9 < 3 or spec.get('origin') == 'shape':
        if dumps(nj) != dumps(json.loads(dumps(nj_obj))):
            ctx.violate('converter-changes-its-argument/nested-json/' + sigctx, 'the nested JSON view passed to nested_json_to_flat_json no longer '
                        'shows what the renderer returned', spec)
        nj_text = dumps(nj)         # the result of the first conversion may share structure with its argument (both are the caller's)
        for name, fn in (('nested-json', lambda: utils.nested_json_to_flat_json(json.loads(nj_text))),
                         ('flat-text', lambda: utils.flat_text_to_flat_json(ft)),
                         ('nested-text', lambda: utils.nested_text_to_flat_json(nt))):
            if name not in results:
                continue
            snap = dumps(results[name])
            edited = copy.deepcopy(results[name])       # the encodes below still use the first result as it was
            first = results[name]
            results[name] = edited
            scramble(first)
            ctx.count('conversions_repeated_after_edit')
            try:
                again = dumps(fn())
            except Exception as e:
                ctx.violate('convert-after-edit-of-earlier-result-raises/%s:%s' % (name, type(e).__name__),
                            '%s -> flat raised %s the second time, after the caller had edited the first result in place' % (name, type(e).__name__), spec, exc=e)
                continue
            if again != snap:
                ctx.violate('convert-after-edit-of-earlier-result-differs/%s/%s' % (name, sigctx),
                            '%s converted to flat a second time, after the caller had edited the first result in place, differs from the first result' % name, spec)
    # ---- conservation walk over the nested JSON view
    for k, nodes in enumerate(nodes_all):
        ctx.count('conservation_walks')
        try:
            fl = nested.flatten(nodes)
        except nested.Malformed as e:
            ctx.violate('nested-view-malformed/' + sigctx, 'nested view of subset %d: %s' % (k, e), spec)
            break
        if fl.values != fj[-2][-1][k] or fl.ids != labels_all[k]:
            ctx.violate('conservation/nested-view-loses-or-duplicates/' + sigctx,
                        'independent walk of the nested view of subset %d yields %d values, flat list has %d '
                        '(first difference at %s)' % (k, len(fl.values), len(fj[-2][-1][k]),
                                                      next((i for i, (a, b) in enumerate(zip(fl.values, fj[-2][-1][k])) if a != b), 'end')),
                        spec)
            break
    # ---- "... or an attribute of its owner": the second appearances (virtual attributes) in the nested view of
    # subset k sit under the owners that subset k's own flat attribute links name
    if not spec.get('grey'):
        from mon.checks.c07 import check_nested
        links_all = td.bitmap_links_all_subsets
        for k, nodes in enumerate(nodes_all):
            lk = links_all[k] if k < len(links_all) else {}
            if not lk:
                continue
            ctx.count('attribute_owner_checks')
            try:
                bad = check_nested(nodes, labels_all[k], [norm(v) for v in td.decoded_values_all_subsets[k]], dict(lk))
            except Exception as e:
                ctx.count('attribute_owner_check_unavailable')
                continue
            if bad and bad[0].startswith('nested/attribute-owner'):
                ctx.violate('conservation/attribute-under-wrong-owner/' + sigctx,
                            'nested view of subset %d shows attribute values under other owners than the flat links of that '
                            'subset name: %s' % (k, bad[1][:300]), spec)
                break
    # ---- node tree references every flat index exactly once (contract on TemplateData.wire's result)
    nsub_tree = 1 if td.is_compressed else td.n_subsets
    for k in range(nsub_tree):
        ctx.count('node_tree_checks')
        idxs = []
        tree_indices(td.decoded_nodes_all_subsets[k], idxs)
        n = len(td.decoded_values_all_subsets[k])
        if idxs != list(range(n)):
            ctx.violate('conservation/node-tree-indices/' + sigctx,
                        'wired node tree of subset %d references flat indices %r..., expected 0..%d once each in order'
                        % (k, idxs[:12], n - 1), spec)
            break
    # ---- encoding from each format
    if want_encode:
        try:
            base = enc.process(dumps(fj)).serialized_bytes
        except Exception as e:
            ctx.count('encode_from_flat_raises')
            ctx.add('encode_from_flat_raises', type(e).__name__)
            return
        for name, conv in results.items():
            ctx.count('encodes_compared')
            try:
                b = enc.process(conv if name != 'nested-json' else dumps(conv)).serialized_bytes
            except Exception as e:
                ctx.violate('encode-from-%s-raises:%s/%s' % (name, type(e).__name__, sigctx),
                            'encoding from the %s conversion raised %s: %s' % (name, type(e).__name__, str(e)[:120]),
                            spec, exc=e)
                continue
            if b != base:
                ctx.violate('encode-from-%s-differs/%s' % (name, sigctx),
                            'encoding from the %s conversion gives different bytes than from flat JSON' % name, spec)


def cli_roundtrip(ctx, b, spec, scratch, tag, prefix=()):
    from mon.cli import run_cli
    prefix = list(prefix)
    src = os.path.join(scratch, 'in_%s.bufr' % tag)
    with open(src, 'wb') as f:
        f.write(b)
    outs = {}
    for flags in ([], ['-j'], ['-a'], ['-a', '-j']):
        name = ''.join(flags) or 'flat-text'
        so, se, exc, code = run_cli(prefix + ['decode'] + flags + [src])
        if exc is not None or se.strip():
            ctx.violate('cli-decode-fails/%s' % name, 'pybufrkit decode %s failed: %r %s' % (flags, exc, se[:120]), spec)
            return
        txt = os.path.join(scratch, 'txt_%s_%s' % (tag, name))
        with open(txt, 'w') as f:
            f.write(so)
        dst = os.path.join(scratch, 'out_%s_%s.bufr' % (tag, name))
        so2, se2, exc2, code2 = run_cli(prefix + ['encode'] + flags + [txt, dst])
        if exc2 is not None or se2.strip() or not os.path.exists(dst):
            ctx.violate('cli-encode-fails/%s:%s' % (name, type(exc2).__name__ if exc2 else 'stderr'),
                        'pybufrkit encode %s failed: %r %s' % (flags, exc2, se2[:160]), spec)
            return
        with open(dst, 'rb') as f:
            outs[name] = f.read()
    ctx.count('cli_roundtrips')
    if not prefix:
        texts = {}
        for flags in ((), ('-j',), ('-a',), ('-a', '-j')):
            nm = ''.join(flags) or 'flat-text'
            with open(os.path.join(scratch, 'txt_%s_%s' % (tag, nm))) as f:
                texts[flags] = f.read()
        if len(set(outs.values())) == 1:
            forms.cli_encode_forms(ctx, scratch, tag, texts, outs['-j'], 'cli', spec)
    if prefix:
        ctx.count('cli_roundtrips_with_tables_root_option')
        # (a compressed reference message may use wider increments than the encoder would choose: bytes are only
        # demanded for the uncompressed one, values for both)
        same = outs['-j'] == b
        if not same and spec.get('compressed'):
            try:
                from pybufrkit.decoder import Decoder
                dalt = Decoder(tables_root_dir=prefix[1])
                same = repr(td_of(dalt.process(outs['-j'])).decoded_values_all_subsets) == repr(td_of(dalt.process(b)).decoded_values_all_subsets)
            except Exception:
                same = False
        if not same:
            ctx.violate('cli-encode-differs/tables-root-option', 'pybufrkit -t <root> decode | encode does not reproduce a message '
                        'made with those tables', spec)
    ref = outs['-j']
    for name, ob in outs.items():
        if ob != ref:
            ctx.violate('cli-encode-differs/%s' % name, 'CLI decode|encode through %s gives different bytes than through flat JSON' % name, spec)


def corpus_files():
    repo = os.environ.get('VERIF_REPO', '/repo')
    return sorted(glob.glob(os.path.join(repo, 'tests', 'data', '*.bufr')) +
                  glob.glob(os.path.join(repo, 'tests', 'benchmark_data', '*.bufr')))


def run(ctx):
    from pybufrkit.decoder import Decoder
    from pybufrkit.encoder import Encoder
    dec, enc = Decoder(), Encoder()
    rng = ctx.rng
    scratch = os.path.join(os.environ.get('VERIF_SCRATCH', '/verif/.scratch'), 'c09-%d' % ctx.shard)
    os.makedirs(scratch, exist_ok=True)
    B, D = cases.tables(33)
    try:
        # mandatory shapes
        n = 0
        ncli = 0
        for name, ids in SHAPES09 + list(SHAPES) + [('c06-' + nm, i) for nm, i in OPEN_SHAPES]:
            for comp in (False, True):
                for phase in range(3 if ctx.quick else 8):
                    n += 1
                    if not ctx.mine(n):
                        continue
                    pol = HostilePolicy(rng) if phase % 2 else EdgePolicy(rng, phase=phase)
                    try:
                        msg = R.build_message(ids, B, D, pol, 1 + phase % 3, comp, [4, 3, 2][phase % 3],
                                              grey221=name.startswith('dnp-221-over'))
                    except R.Unsupported:
                        ctx.count('gen_unsupported')
                        continue
                    spec = dict(origin='shape', shape=name, ids=ids, compressed=comp, nsub=msg.nsub, hex=msg.bytes.hex())
                    try:
                        failures.maybe(ctx, [dec], [enc], every=6)
                        m = dec.process(msg.bytes)
                    except Exception as e:
                        ctx.count('decode_raises')
                        continue
                    ctx.add('shapes', name)
                    if phase % 2:
                        ctx.count('hostile_string_cases')
                    check_message(ctx, m, enc, spec, 'c' if comp else 'u', ids)
                    if ncli < (2 if ctx.quick else 12) and phase == 0:
                        ncli += 1
                        cli_roundtrip(ctx, msg.bytes, dict(spec, cli=True), scratch, 's%d' % n)
        for bi, (name, msg) in enumerate(cases.big_cases(rng)):
            if not ctx.mine(bi):
                continue
            try:
                failures.maybe(ctx, [dec], [enc], every=6)
                m = dec.process(msg.bytes)
            except Exception:
                ctx.count('decode_raises')
                continue
            ctx.count('big_cases')
            check_message(ctx, m, enc, dict(origin='big', shape=name, ids=msg.ids, compressed=msg.compressed, nsub=msg.nsub,
                                            hex=msg.bytes.hex()), 'c' if msg.compressed else 'u', msg.ids)
        # same layout, different owners (consecutive uncompressed subsets with equal descriptors, different bitmaps)
        for nsub in (2, 3):
            for name, msg in cases.same_layout_cases(rng, nsub=nsub):
                n += 1
                if not ctx.mine(n):
                    continue
                try:
                    failures.maybe(ctx, [dec], [enc], every=6)
                    m = dec.process(msg.bytes)
                except Exception:
                    ctx.count('decode_raises')
                    continue
                ctx.add('shapes', name)
                ctx.count('same_layout_cases')
                check_message(ctx, m, enc, dict(origin='shape', shape=name, ids=msg.ids, compressed=False, nsub=nsub, hex=msg.bytes.hex()),
                              'u', msg.ids)
        if ctx.shard % 4 == 1:
            from mon.cli import alt_tables_root, alt_message
            root = alt_tables_root(scratch)
            for comp in (False, True):
                am = alt_message(rng, root, nsub=2, compressed=comp)
                cli_roundtrip(ctx, am.bytes, dict(origin='alt-tables', compressed=comp, hex=am.bytes.hex(), cli=True), scratch,
                              'alt%d' % comp, prefix=['-t', root])
        # corpus
        files = corpus_files()
        if ctx.quick:
            files = [f for f in files if os.sep + 'data' + os.sep in f]
        for i, f in enumerate(files):
            if not ctx.mine(i):
                continue
            name = os.path.basename(f)
            if name in ('multi_invalid_messages.bufr', 'prepbufr.bufr'):
                continue
            with open(f, 'rb') as fh:
                b = fh.read()
            try:
                m = dec.process(b)
            except Exception:
                ctx.count('corpus_decode_raises')
                continue
            ids = list(m.unexpanded_descriptors.value)
            ctx.count('corpus_compared')
            check_message(ctx, m, enc, dict(origin='corpus', file=name), 'corpus', ids, want_encode=True)
            if i % 8 == 0:
                cli_roundtrip(ctx, b, dict(origin='corpus', file=name, cli=True), scratch, 'f%d' % i)
        # random
        q = 0
        while q < QUOTA[ctx.tier] and ctx.more():
            q += 1
            mtv = rng.choice(cases.MTVS)
            g = cases.gen_for(mtv, rng, pclose=0.8)
            ids = g.template(ptail=0.5)
            comp = rng.random() < 0.45
            Bv, Dv = cases.tables(mtv)
            hostile = rng.random() < 0.5
            try:
                msg = R.build_message(ids, Bv, Dv, HostilePolicy(rng) if hostile else R.Policy(rng),
                                      rng.choice([1, 1, 2, 3]), comp, rng.choice([2, 3, 4]),
                                      dict(master_table_version=mtv))
            except R.Unsupported:
                ctx.count('gen_unsupported')
                continue
            try:
                failures.maybe(ctx, [dec], [enc], every=6)
                m = dec.process(msg.bytes)
            except Exception:
                ctx.count('decode_raises')
                continue
            if hostile:
                ctx.count('hostile_string_cases')
            spec = dict(origin='random', ids=ids, compressed=comp, nsub=msg.nsub, mtv=mtv, hex=msg.bytes.hex())
            check_message(ctx, m, enc, spec, 'c' if comp else 'u', ids, want_encode=(q % 3 == 0))
            recent = ctx.__dict__.setdefault('_c09_recent', [])
            if len(msg.bytes) < 3000:
                recent.append((msg.bytes, None))
            if len(recent) >= 6:
                ctx.count('mid_scan_blocks')
                if ctx.counters['mid_scan_blocks'] % (3 if ctx.quick else 2) == 1:
                    from pybufrkit.decoder import Decoder
                    midscan.scenarios(ctx, 'formats', Decoder, recent[:3], recent[3:6], judge_formats, dict(origin='mid-scan'))
                del recent[:]
            if q % 97 == 1:
                cli_roundtrip(ctx, msg.bytes, dict(spec, cli=True), scratch, 'r%d' % q)
    finally:
        shutil.rmtree(scratch, ignore_errors=True)


def replay(ctx, case):
    from pybufrkit.decoder import Decoder
    from pybufrkit.encoder import Encoder
    spec = case['case']
    if 'hex' in spec:
        b = bytes.fromhex(spec['hex'])
    else:
        repo = os.environ.get('VERIF_REPO', '/repo')
        p = os.path.join(repo, 'tests', 'data', spec['file'])
        if not os.path.exists(p):
            p = os.path.join(repo, 'tests', 'benchmark_data', spec['file'])
        b = open(p, 'rb').read()
    m = Decoder().process(b)
    check_message(ctx, m, Encoder(), spec, 'replay', list(m.unexpanded_descriptors.value))
