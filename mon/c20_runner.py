"""Fresh-interpreter runner for C20: scans one stream (definition messages + data messages) with
generate_bufr_message and prints what was decoded, as JSON.
    python -m mon.c20_runner <file with hex of the stream> [variant]
variant: 'filter' = scan with an all-accepting filter expression, 'continue' = continue_on_error=True,
'unwired' = wire_template_data=False (options that must not change how definitions govern what follows)
"""
import json
import logging
import sys


def enc(v):
    if isinstance(v, bytes):
        return {'b': v.hex()}
    return v


def main(argv):
    logging.disable(logging.CRITICAL)
    from pybufrkit.decoder import Decoder, generate_bufr_message
    with open(argv[0]) as f:
        lines = [ln.strip() for ln in f.read().splitlines() if ln.strip()]
    # one stream per line, scanned one after the other in this process; a line starting with '!' is expected to be refused
    segments = [(ln.startswith('!'), bytes.fromhex(ln.lstrip('!'))) for ln in lines]
    out = dict(messages=[], error=None, segment_errors=[])
    variant = argv[1] if len(argv) > 1 else 'default'
    kw = {'filter': dict(filter_expr='${%length} > 0 and ${%edition} >= 2'), 'continue': dict(continue_on_error=True),
          'unwired': dict(wire_template_data=False), 'lookahead': dict(lookahead=True),
          'compiling': dict(compiling=True)}.get(variant, {})
    for expect_refusal, stream in segments:
        if expect_refusal:
            try:
                for m in generate_bufr_message(Decoder(), stream, **kw):
                    pass
            except BaseException as e:
                out['segment_errors'].append(type(e).__name__)
            continue
        scan(out, stream, dict(kw))
        if out['error']:
            break
    try:
        from pybufrkit.tables import TableGroupCacheManager
        c = TableGroupCacheManager._TABLE_GROUP_CACHE
        out['extra_b'] = len(c.extra_b_entries)
        out['extra_d'] = len(c.extra_d_entries)
    except Exception:
        pass
    json.dump(out, sys.stdout)


def scan(out, stream, kw):
    from pybufrkit.decoder import Decoder, generate_bufr_message
    lookahead = kw.pop('lookahead', False)
    deckw = dict(compiled_template_cache_max=8) if kw.pop('compiling', False) else {}
    pos = 0
    try:
        for m in generate_bufr_message(Decoder(**deckw), stream, **kw):
            td = m.template_data.value
            out['messages'].append(dict(
                data_category=m.data_category.value,
                n_bytes=len(m.serialized_bytes),
                labels=[[str(d) for d in ds] for ds in td.decoded_descriptors_all_subsets],
                values=[[enc(v) for v in vs] for vs in td.decoded_values_all_subsets],
                links=[sorted(dict(x).items()) for x in td.bitmap_links_all_subsets]))
            if lookahead:
                # the scan is suspended at this message: from the loop body ANOTHER decoder decodes what follows it in the stream
                # (the definitions of a message that has been delivered are in force for whoever decodes next)
                at = stream.find(m.serialized_bytes, pos)
                pos = at + len(m.serialized_bytes) if at >= 0 else pos
                rest = stream[pos:]
                if b'BUFR' in rest:
                    try:
                        nm = Decoder().process(rest)
                        ntd = nm.template_data.value
                        out['messages'][-1]['lookahead'] = dict(
                            labels=[[str(d) for d in ds] for ds in ntd.decoded_descriptors_all_subsets],
                            values=[[enc(v) for v in vs] for vs in ntd.decoded_values_all_subsets],
                            links=[sorted(dict(x).items()) for x in ntd.bitmap_links_all_subsets])
                    except BaseException as e:
                        out['messages'][-1]['lookahead'] = dict(error='%s: %s' % (type(e).__name__, str(e)[:160]))
    except BaseException as e:
        out['error'] = '%s: %s' % (type(e).__name__, str(e)[:200])


if __name__ == '__main__':
    main(sys.argv[1:])
