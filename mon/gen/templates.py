"""Seeded random template generator over the bundled tables (DESIGN 1.2)."""
from mon.refbufr.rtables import kind_of


class Gen(object):
    def __init__(self, B, D, rng, pclose=0.8, grey=False):
        self.B, self.D, self.rng = B, D, rng
        self.pclose = pclose
        self.grey = grey
        self.num = sorted(k for k, v in B.items() if kind_of(v[1]) == 'n' and
                          k // 1000 not in (0, 31, 33) and 2 <= v[4] <= 32)
        self.code = sorted(k for k, v in B.items() if kind_of(v[1]) == 'c' and
                           k // 1000 not in (0, 31, 33) and v[4] <= 31)
        self.strs = sorted(k for k, v in B.items() if kind_of(v[1]) == 's' and
                           k // 1000 != 0 and 8 <= v[4] <= 256)
        # class 00 (table-definition elements, all character data): legal anywhere, and the class that
        # 221YYY suppresses together with classes 10+
        self.cls0 = sorted(k for k, v in B.items() if k // 1000 == 0 and kind_of(v[1]) == 's' and 8 <= v[4] <= 256)
        self.q33 = sorted(k for k, v in B.items() if k // 1000 == 33)
        self.onebit = sorted(k for k, v in B.items() if v[4] == 1 and k // 1000 not in (0, 31))
        self.simple_seq = []
        for sid in sorted(D):
            try:
                flat = self.flat(D[sid])
            except (KeyError, RecursionError):
                continue
            if len(flat) <= 25 and all(
                    (i < 100000 and i in B and i // 1000 != 31) or
                    (100000 <= i < 200000 and i % 1000 != 0) for i in flat):
                self.simple_seq.append(sid)

    def flat(self, ids, depth=0):
        if depth > 12:
            raise RecursionError
        out = []
        for i in ids:
            if i >= 300000:
                out += self.flat(self.D[i], depth + 1)
            else:
                out.append(i)
        return out

    def elem(self, strings=True):
        r = self.rng.random()
        if strings and self.cls0 and r < 0.02:
            return self.rng.choice(self.cls0)
        if r < 0.6:
            return self.rng.choice(self.num)
        if r < 0.85 or not strings or not self.strs:
            return self.rng.choice(self.code)
        return self.rng.choice(self.strs)

    def items(self, depth, n, allow_delayed=True, allow_ops=True, in204=False):
        rng = self.rng
        out = []
        for _ in range(n):
            r = rng.random()
            if r < 0.45 or depth > 2:
                out.append(self.elem())
            elif r < 0.52 and self.simple_seq:
                out.append(rng.choice(self.simple_seq))
            elif r < 0.60:
                body = self.items(depth + 1, rng.randint(1, 3), allow_delayed, allow_ops, in204)
                out += [100000 + len(body) * 1000 + rng.randint(1, 3)] + body
            elif r < 0.68 and allow_delayed:
                body = self.items(depth + 1, rng.randint(1, 3), allow_delayed, allow_ops, in204)
                fac = rng.choice([31000, 31001, 31001, 31002])
                out += [100000 + len(body) * 1000, fac] + body
            elif allow_ops and r < 0.74:
                body = self.items(depth + 1, rng.randint(1, 3), False, False, in204)
                y = 128 + rng.choice([-1, 1, 2, 5, 10])
                out += [201000 + y] + body + ([201000] if rng.random() < self.pclose else [])
            elif allow_ops and r < 0.79:
                body = self.items(depth + 1, rng.randint(1, 3), False, False, in204)
                y = 128 + rng.choice([-2, -1, 1, 2])
                out += [202000 + y] + body + ([202000] if rng.random() < self.pclose else [])
            elif allow_ops and r < 0.83:
                body = self.items(depth + 1, rng.randint(1, 3), False, False, in204)
                out += [207000 + rng.randint(1, 3)] + body + ([207000] if rng.random() < self.pclose else [])
            elif allow_ops and r < 0.86 and self.strs:
                body = [rng.choice(self.strs), self.elem()]
                out += [208000 + rng.randint(1, 12)] + body + ([208000] if rng.random() < self.pclose else [])
            elif allow_ops and not in204 and r < 0.90:
                body = self.items(depth + 1, rng.randint(1, 3), allow_delayed, False, True)
                if rng.random() < 0.3:
                    # nested associated fields: inner 204 opened and closed inside the outer one
                    inner = self.items(depth + 1, rng.randint(1, 2), False, False, True)
                    body = body + [204000 + rng.randint(1, 6), 31021] + inner + [204000] + [self.elem(False)]
                out += [204000 + rng.randint(1, 8), 31021] + body + ([204000] if rng.random() < self.pclose else [])
            elif allow_ops and r < 0.93:
                out += [205000 + rng.randint(1, 10)]
            elif allow_ops and r < 0.95:
                out += [206000 + rng.randint(1, 20), rng.choice([63250, 48001, 12001])]
            elif allow_ops and r < 0.98:
                es = [rng.choice(self.num) for _ in range(rng.randint(1, 2))]
                use = [rng.choice(es), self.elem(False)]
                out += ([203000 + rng.randint(2, 16)] + es + [203255] + use +
                        ([203000] if rng.random() < self.pclose else []))
            elif allow_ops and rng.random() < 0.5:
                out += [221000 + 2, rng.choice(self.num), rng.choice([1001, 5001, 4001])]
            elif allow_ops:
                # a 221 range over elements of every class: 01-09 and 31 keep their data, 00 and 10+ have none
                y = rng.randint(1, 4)
                pool = [1001, 2001, 4001, 5001, 6001, 7004, 8002, 1015, 31021] + ([rng.choice(self.cls0)] if self.cls0 else []) + \
                       [rng.choice(self.num), rng.choice(self.code), self.elem()]
                # (sometimes the count runs past the elements that follow: the range is still open at the end)
                out += [221000 + y + (rng.randint(1, 3) if rng.random() < 0.2 else 0)] + [rng.choice(pool) for _ in range(y)]
            else:
                out.append(self.elem())
        return out

    def tail(self):
        """bitmap constructs, all with delayed replication so that sizes are dynamic"""
        rng = self.rng
        out = []
        ops = rng.sample([222, 223, 224, 225, 232], rng.randint(1, 3))
        first = True
        kept = False
        for op in ops:
            out.append(op * 1000)
            if not first and kept and rng.random() < 0.5:
                out.append(237000)
            else:
                if rng.random() < 0.6:
                    out.append(236000)
                    kept = True
                else:
                    kept = False
                out += [101000, 31001, 31031]
            if op == 222:
                if rng.random() < 0.5:
                    out += [1031, 1032]
                out += [101000, 31001, rng.choice([33007, 33007, 33003])]
            else:
                if op == 224:
                    out.append(8023)
                if op == 225:
                    out.append(8024)
                out += [101000, 31001, op * 1000 + 255]
            first = False
            if rng.random() < 0.15:
                out.append(235000)
                kept = False
                out.append(rng.choice(self.num))
        if kept and rng.random() < 0.2:
            out.append(237255)
        return out

    def template(self, min_items=2, max_items=7, ptail=0.45):
        ids = self.items(0, self.rng.randint(min_items, max_items))
        if self.rng.random() < ptail:
            ids += self.tail()
        return ids


def scoped(ids, D):
    """True when every data-description operator is opened and closed within one replication
    scope (C08's proviso): the operator state at the end of every replication body equals the
    state at its start, and no 206/221 range or bitmap construct straddles a body boundary."""

    def expand(lst, depth=0):
        out = []
        for i in lst:
            if i >= 300000 and depth < 12:
                if i not in D:
                    return None
                sub = expand(D[i], depth + 1)
                if sub is None:
                    return None
                out.append(('seq', sub))
            else:
                out.append(i)
        return out

    def walk(lst, st, top):
        i = 0
        n = len(lst)
        while i < n:
            d = lst[i]
            i += 1
            if isinstance(d, tuple):
                if not walk(d[1], st, top):
                    return False
                continue
            if st['dnp'] > 0:
                st['dnp'] -= 1
            if st['skip']:
                st['skip'] = 0
                continue
            F = d // 100000
            if F == 1:
                X, Y = d // 1000 % 100, d % 1000
                if Y == 0:
                    i += 1
                body = lst[i:i + X]
                i += X
                before = dict(st)
                if not walk(body, st, False):
                    return False
                if st != before:
                    return False
            elif F == 2:
                op, y = d // 1000, d % 1000
                if op in (201, 202, 207, 208):
                    st[op] = y
                elif op == 203:
                    if y == 0:
                        st[203] = 0
                        st['ref'] = 0
                    elif y == 255:
                        st[203] = 0
                    else:
                        st[203] = y
                        st['ref'] = 1
                elif op == 204:
                    st[204] = st[204] + (1 if y else -1)
                elif op == 206:
                    st['skip'] = 1
                elif op == 221:
                    st['dnp'] = y
                elif op == 235:
                    st['bm'] = 0
                elif op in (222, 223, 224, 225, 232, 236, 237):
                    if not (y == 255 and op in (223, 224, 225, 232)):
                        # a bitmap construct opened inside a replication body must be closed (235000) in that body
                        st['bm'] = 1
        return True

    ex = expand(list(ids))
    if ex is None:
        return False
    st = {201: 0, 202: 0, 203: 0, 204: 0, 207: 0, 208: 0, 'ref': 0, 'skip': 0, 'dnp': 0, 'bm': 0}
    return walk(ex, st, True)
