"""Streams of messages for C11 / C12 / C17: pools of R-produced messages with known metadata,
separators, hostile payloads, fault injection at the byte level."""
from mon import refbufr as R
from mon.gen import cases
from mon.gen.shapes import EdgePolicy

SEPARATORS = [b'', b'\r\r\n', b'\x01\r\r\n001\r\r\nISMD01 OKPR 041200\r\r\n', b'BUF', b'BU', b'B', b'7777',
              b'\x00\xff\x10BUF\x00', b'777', b'\n', b'UFR', b'BUFBUF', b'xx7777yy', b'RFUB']


class PayloadPolicy(R.Policy):
    """strings carry the given payloads (start/stop signatures, whole inner messages)."""

    def __init__(self, rng, payloads, **kw):
        R.Policy.__init__(self, rng, **kw)
        self.payloads = payloads

    def pick_str(self, n):
        fits = [p for p in self.payloads if len(p) <= n]
        if fits and self.rng.random() < 0.8:
            p = self.rng.choice(fits)
            return p.ljust(n)
        return R.Policy.pick_str(self, n)


def small_message(rng, k, **meta):
    """a short valid message, unique through its metadata"""
    B, D = cases.tables(33)
    ids = rng.choice([[1001], [1001, 12001], [2001, 1002], [1015]])
    m = dict(update_sequence_number=k % 256, second=k % 60)
    m.update(meta)
    return R.build_message(ids, B, D, R.Policy(rng), 1, False, rng.choice([2, 3, 4]), m)


def make_message(rng, k, hostile=0.0, inner=None, nsub_choices=(1, 1, 2, 3), unique=True):
    """One R-produced message; `k` makes it unique (update sequence number / second / minute).
    Returns Message with .meta filled (data_category etc.)."""
    for _ in range(30):
        mtv = rng.choice(cases.MTVS)
        B, D = cases.tables(mtv)
        g = cases.gen_for(mtv, rng, pclose=0.8)
        r = rng.random()
        if inner is not None:
            ids = [205000 + len(inner), 1001]
        elif r < hostile:
            ids = rng.choice([[1015, 1001], [205008, 12001], [1015, 205004, 1015], [208006, 1015, 208000, 1001]])
        else:
            ids = g.template(max_items=5, ptail=0.3)
        meta = dict(master_table_version=mtv, data_category=rng.choice([0, 1, 2, 3, 7, 12, 21, 255]),
                    update_sequence_number=k % 256, second=(k // 256) % 60, minute=rng.randrange(60),
                    originating_centre=rng.randrange(200),
                    reserved3=rng.choice(['00000000', '00000000', '00000001']),
                    flag_bits1=rng.choice(['0000000', '0000000', '0000001']))
        if inner is not None:
            pol = PayloadPolicy(rng, [inner])
        elif r < hostile:
            pol = PayloadPolicy(rng, [b'BUFR', b'7777', b'BUFR7777', b'xBUFR', b'7777BUFR', b'BUFR\x00\x00\x30\x04'])
        else:
            pol = R.Policy(rng)
        comp = rng.random() < 0.4
        nsub = rng.choice(nsub_choices)
        try:
            msg = R.build_message(ids, B, D, pol, nsub, comp, rng.choice([2, 3, 4]), meta,
                                  rng.choice([None, None, b'ab']))
        except R.Unsupported:
            continue
        if any(me and me[0] == 'n' and me[2] > 0 and me[1] > 48 for s in msg.subsets for me in s.meta):
            continue
        return msg
    raise RuntimeError('no message could be generated')


def join(messages, rng, seps=None):
    """-> (stream bytes, [separator used before each message] + [trailer])"""
    out = b''
    used = []
    for m in messages:
        s = rng.choice(SEPARATORS) if seps is None else seps[len(used) % len(seps)]
        used.append(s)
        out += s + (m if isinstance(m, bytes) else m.bytes)
    s = rng.choice(SEPARATORS) if seps is None else seps[len(used) % len(seps)]
    used.append(s)
    return out + s, used


# ------------------------------------------------------------------------- faults (C12)
def section_offsets(b):
    """[(section index, start octet, declared length)] by the declared lengths (valid message)."""
    fr = R.parse_frame(b)
    return [(i, fr.sections[i][0], fr.sections[i][1]) for i in fr.order]


def fault_stop_signature(b, rng, variant):
    bb = bytearray(b)
    n = len(bb)
    if variant == 0:
        bb[n - 1] = ord('8')
    elif variant == 1:
        bb[n - 4] = ord('X')
    elif variant == 2:
        bb[n - 4:n] = b'\x00\x00\x00\x00'
    else:
        bb[n - 2] ^= 0x40
    return bytes(bb)


UNDEFINED_ELEMENTS = (b'\x3f\xff', b'\x00\x00', b'\x3c\xc8')     # 0-63-255, 0-00-000, 0-60-200: in no table, bundled or local
UNDEFINED_SEQUENCES = (b'\xff\xff', b'\xc0\x00', b'\xfc\xc8')    # 3-63-255, 3-00-000, 3-60-200


def fault_descriptor(b, pos, sequence, variant=0):
    """substitute descriptor number `pos` of section 3 by an undefined element / sequence descriptor"""
    offs = dict((i, (st, ln)) for i, st, ln in section_offsets(b))
    st, ln = offs[3]
    bb = bytearray(b)
    o = st + 7 + 2 * pos
    bb[o:o + 2] = (UNDEFINED_SEQUENCES if sequence else UNDEFINED_ELEMENTS)[variant % 3]
    return bytes(bb)


def fault_section_length(b, sec, delta):
    offs = dict((i, (st, ln)) for i, st, ln in section_offsets(b))
    if sec not in offs:
        return None
    st, ln = offs[sec]
    if ln + delta < 0:
        return None
    bb = bytearray(b)
    bb[st:st + 3] = (ln + delta).to_bytes(3, 'big')
    return bytes(bb)


def r_verdict(b):
    """R's reading of a (possibly damaged) single message: 'valid' | 'invalid' | 'unknown-descriptor' |
    'no-opinion'."""
    try:
        r = R.decode(b)
    except R.Unsupported as e:
        s = str(e)
        if s.startswith('unknown element') or s.startswith('unknown sequence'):
            return 'unknown-descriptor'
        return 'no-opinion'
    except Exception:
        return 'invalid'
    if r['stop'] != b'7777':
        return 'invalid'
    if r['end'] != r['total'] or r['end'] != len(b):
        return 'no-opinion'
    return 'valid'
