"""Mandatory adversarial shapes (DESIGN 1.2/3): emitted deterministically first in every run."""
from mon.refbufr import Policy


class EdgePolicy(Policy):
    """Deterministic edge values: cycles through {max, missing, 0, 1, 2^(w-1), mid} per field and
    through the compressed column patterns {all equal, all missing, one missing, 1-bit spread,
    1-bit spread + missing, range 2^k-1, range 2^k}."""

    def __init__(self, rng, phase=0, **kw):
        Policy.__init__(self, rng, **kw)
        self.k = phase

    def _edge(self, w, i):
        top = (1 << w) - 1
        if w == 1:
            return [1, 0][i % 2]
        return [top - 1, None, 0, 1, 1 << (w - 1), top // 3][i % 6]

    def uint_column(self, pw, w):
        self.k += 1
        n = pw.ncols
        if n == 1:
            return [self._edge(w, self.k)]
        top = (1 << w) - 1
        pat = self.k % 8
        base = self._edge(w, self.k // 8)
        if pat == 0:
            return [base] * n
        if pat == 1:
            return [None if w > 1 else 1] * n
        if base is None:
            base = 0
        if pat == 2:
            col = [base] * n
            if w > 1:
                col[self.k % n] = None
            return col
        if w == 1:
            return [(self.k + j) % 2 for j in range(n)]
        lo = min(base, top - 2) if top >= 2 else 0
        if pat == 3:   # 1-bit spread, nothing missing  (needs nb=2 since 1 = all ones of 1 bit)
            return [lo + (j % 2 if lo + 1 <= top - 1 else 0) for j in range(n)]
        if pat == 4:   # equal values plus missing -> increments 0 and all-ones in 1 bit
            col = [lo] * n
            col[-1] = None
            return col
        k = max(1, min(w - 1, 1 + self.k % max(1, w - 1)))
        span = (1 << k) - (1 if pat == 5 else 0) - (2 if pat == 7 else 0)
        span = max(0, min(span, top - 1))
        lo = min(lo, top - 1 - span)
        col = [lo + (span if j % 2 else 0) for j in range(n)]
        col[0] = lo
        col[-1] = lo + span
        if pat == 7 and n > 2:
            col[1] = None
        return col

    def count(self, pw, w, eid):
        self.k += 1
        hi = (1 << w) - 2 if w > 1 else 1
        return min(hi, [0, 2, 1, 3][self.k % 4])

    def bitmap_bit(self, pw):
        self.k += 1
        return [0, 1, 0, 0, 1][self.k % 5]


# name -> template ids.  Elements: 001001 (7 bit, numeric), 012001 (12 bit, scale 1),
# 004024 (12 bit, ref -2048), 005001 (25 bit, scale 5, ref -9000000), 010004 (14 bit, scale -1),
# 002001 (2-bit code), 020011 (4-bit code), 001015 (20 char), 013011 (ref -1)
SHAPES = [
    ('onebit-201', [201122, 1001, 201000, 1001]),                      # 7-6 = 1 bit numeric
    ('onebit-assoc', [204001, 31021, 12001, 2001, 204000]),
    ('onebit-206', [206001, 63250, 12001]),
    ('allones-narrow', [201118, 12001, 201119, 12001, 201120, 12001, 201000]),   # widths 2,3,4
    ('allones-8-16', [201124, 12001, 201128 + 4, 12001, 201000, 12001]),         # 8, 16, 12
    ('allones-24-32', [201128 + 12, 12001, 201128 + 20, 12001, 201000]),         # 24, 32
    ('wide-48-64', [201128 + 36, 12001, 201128 + 52, 12001, 201000]),            # 48, 64
    ('neg-ref', [4024, 5001, 13011, 6001]),
    ('neg-scale', [10004, 7004, 202127, 10004, 202000]),
    ('201-shrink', [201127, 12001, 5001, 201000, 12001]),
    ('202-both', [202129, 12001, 202126, 5001, 202000, 12001]),
    ('201+202', [201130, 202129, 12001, 201000, 202000, 12001]),
    ('207', [207002, 12001, 4024, 2001, 207000, 12001]),
    ('207+201', [207001, 201129, 12001, 4024, 201000, 207000, 4024]),
    ('203-basic', [203012, 12001, 4024, 203255, 12001, 4024, 5001, 203000, 12001]),
    ('203-under-207', [203010, 12001, 203255, 207001, 12001, 207000, 12001, 203000]),
    ('203-redefine', [203008, 12001, 203255, 12001, 203009, 12001, 203255, 12001, 203000, 12001]),
    ('204', [204003, 31021, 12001, 2001, 1015, 204000, 12001]),
    ('204-replicated', [204002, 31021, 102002, 12001, 4024, 204000]),
    ('204-nested', [204004, 31021, 12001, 204002, 31021, 12001, 2001, 204000, 12001, 204000, 12001]),
    ('205', [205005, 12001, 205001]),
    ('206-undefined', [206012, 63250, 12001]),
    ('206-defined', [206007, 12001, 12001]),
    ('208', [208003, 1015, 12001, 208000, 1015]),
    ('208-oversize', [208030, 1015, 208000]),
    ('221', [221003, 12001, 1001, 5001, 12001]),
    ('221-all-classes', [12001, 221007, 10, 1001, 12001, 20011, 1015, 8002, 13, 12001]),
    ('221-class-31-keeps-data', [1001, 221003, 12001, 31021, 1002, 12001]),
    ('class-00-elements', [10, 1001, 11, 12, 12001]),
    ('zero-count', [101000, 31001, 12001, 1001]),
    ('empty-template', []),
    ('operators-only', [201130, 201000, 202129, 202000]),
    ('single-element', [1001]),
    ('nested-delayed', [105000, 31001, 1001, 102000, 31000, 12001, 2001]),
    ('nested-fixed', [103002, 1001, 101003, 12001]),
    ('sequence', [301001, 301011, 301021]),
    ('strings', [1015, 1001, 1015]),
    ('code-flag', [2001, 20011, 8023, 1031]),
    ('qa-222', [1001, 12001, 2001, 222000, 101000, 31001, 31031, 1031, 1032, 101000, 31001, 33007]),
    ('subst-223', [1001, 12001, 4024, 223000, 101000, 31001, 31031, 101000, 31001, 223255]),
    ('first-order-224', [12001, 5001, 224000, 236000, 101000, 31001, 31031, 8023, 101000, 31001, 224255]),
    ('difference-225', [12001, 4024, 13011, 225000, 101000, 31001, 31031, 8024, 101000, 31001, 225255]),
    ('replaced-232', [12001, 2001, 1001, 232000, 101000, 31001, 31031, 101000, 31001, 232255]),
    ('reuse-237', [1001, 12001, 4024, 222000, 236000, 101000, 31001, 31031, 101000, 31001, 33007,
                   224000, 237000, 8023, 101000, 31001, 224255, 237255]),
    ('cancel-235', [1001, 12001, 223000, 101000, 31001, 31031, 101000, 31001, 223255, 235000,
                    4024, 5001, 224000, 101000, 31001, 31031, 8023, 101000, 31001, 224255]),
    ('bitmap-over-replication', [102002, 1001, 12001, 222000, 101000, 31001, 31031, 101000, 31001, 33003]),
    ('marker-under-201', [12001, 4024, 223000, 101002, 31031, 201130, 223255, 201000]),
    # one element / one replication descriptor met in several contexts of the same message (whatever is remembered "per
    # descriptor id" - widths, labels, packings, node lists - is wrong for the second context)
    ('same-element-all-contexts', [12001, 201130, 12001, 201000, 202129, 12001, 202000, 207001, 12001, 207000, 204003, 31021,
                                   12001, 204000, 204006, 31021, 12001, 204000, 203014, 12001, 203255, 12001, 203000, 12001]),
    ('same-code-element-assoc-widths', [20011, 204004, 31021, 20011, 204000, 20011, 204002, 31021, 20011, 204000, 20011]),
    ('same-element-plain-and-marked', [12001, 11002, 12001, 225000, 236000, 101000, 31001, 31031, 8024, 101000, 31001, 225255, 12001, 11002]),
    ('same-string-two-widths', [1015, 208003, 1015, 208000, 1019, 1015]),
    ('same-replication-other-contents', [101002, 1001, 101002, 12001, 101000, 31001, 1001, 101000, 31001, 12001,
                                         102002, 1001, 12001, 102002, 12001, 1001]),
]


def shape_list():
    return list(SHAPES)
