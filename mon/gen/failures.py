"""Failing and refused operations for long-lived objects.

The properties quantify over histories: a Decoder / Encoder (and the process-wide table and template caches behind it) that has
just refused an input must treat the next input as a fresh object would.  `provoke(ctx, decoders, encoders)` submits, to each
object it is given, inputs that the unchanged code refuses at different depths of the walk: with operators in effect (201, 202,
203 reference values being defined, 204, 207, 208), inside a delayed replication, after a bitmap has been defined and while it is
being applied, in both data layouts - and, for encoders, value lists that are too short / out of range / of the wrong type at
those depths.  Nothing is judged here (what is refused is the business of C04/C12/C19); the cases that follow are.
"""
import json
from mon import refbufr as R
from mon.gen import cases
from mon.compare import jsonable

TEMPLATES = [
    [1001, 12001, 101000, 31001, 4024, 1015],
    [201130, 202129, 12001, 12001, 202000, 201000, 7004, 12001],
    [203012, 12001, 7004, 203255, 12001, 7004, 12001, 203000, 12001],
    [204008, 31021, 12001, 10004, 204000, 12001],
    [207002, 12001, 10004, 7004, 207000, 12001],
    [208003, 1015, 1019, 208000, 1015],
    [12001, 10004, 7004, 222000, 236000, 101003, 31031, 1031, 1032, 101002, 33007, 12001],
    [12001, 10004, 7004, 11001, 224000, 236000, 101004, 31031, 1031, 101002, 224255, 225000, 237000, 101002, 225255],
    [103000, 31001, 12001, 102000, 31000, 7004, 10004, 1015],
    [221002, 12001, 8001, 12001],
]

_DAMAGED = []
_REFUSED_JSON = []


def _prepare(rng):
    B, D = cases.tables(33)
    for ids in TEMPLATES:
        for comp in (False, True):
            try:
                m = R.build_message(ids, B, D, R.Policy(rng), 3, comp, rng.choice([3, 4]))
            except R.Unsupported:
                continue
            fr = R.parse_frame(m.bytes)
            s4, l4 = fr.sections[4][0], fr.sections[4][1]
            # cut at three depths of the data section: the template walk fails with operators / replication / bitmap in effect
            for frac in (0.25, 0.6, 0.9):
                cut = s4 + 4 + max(1, int((l4 - 4) * frac))
                _DAMAGED.append(m.bytes[:cut])
            # the same message as encoder input with the value lists damaged at matching depths
            try:
                flat = json.loads(json.dumps(jsonable(R.flat_json(m))))
            except Exception:
                continue
            idx = len(flat) - 2          # the data section
            for frac in (0.25, 0.6, 0.9):
                f2 = json.loads(json.dumps(flat))
                r = f2[idx][2][-1]
                f2[idx][2][-1] = r[:max(1, int(len(r) * frac))]
                _REFUSED_JSON.append(f2)
                f3 = json.loads(json.dumps(flat))
                r3 = f3[idx][2][-1]
                k = min(len(r3) - 1, max(0, int(len(r3) * frac)))
                r3[k] = 'not a number' if not isinstance(r3[k], str) else 10 ** 30
                _REFUSED_JSON.append(f3)


def provoke(ctx, decoders=(), encoders=(), k=3):
    if not _DAMAGED:
        _prepare(ctx.rng)
    for d in decoders:
        for bad in ctx.rng.sample(_DAMAGED, min(k, len(_DAMAGED))):
            for attempt in (1, 2):        # (the retry of a refused input is part of the history too)
                try:
                    d.process(bad)
                    ctx.count('provoked_decode_accepted')
                except Exception as e:
                    ctx.count('provoked_decode_failures')
                    ctx.add('provoked_exceptions', type(e).__name__)
    for e in encoders:
        if not _REFUSED_JSON:
            break
        for bad in ctx.rng.sample(_REFUSED_JSON, min(k, len(_REFUSED_JSON))):
            for attempt in (1, 2):
                try:
                    e.process(json.dumps(bad))
                    ctx.count('provoked_encode_accepted')
                except Exception as ex:
                    ctx.count('provoked_encode_refusals')
                    ctx.add('provoked_exceptions', type(ex).__name__)


def maybe(ctx, decoders=(), encoders=(), every=5, k=2):
    """call once per case: every `every`-th call submits failing inputs to the long-lived objects first"""
    ctx.count('provoke_ticks')
    if ctx.counters.get('provoke_ticks', 0) % every == 1:
        provoke(ctx, decoders, encoders, k)
