"""Message cases: template x values x envelope, produced by R, with the R self-consistency gate."""
from mon import refbufr as R
from mon.gen.templates import Gen
from mon.gen.shapes import SHAPES, EdgePolicy

MTVS = [33, 33, 33, 33, 29, 25, 19, 13, 36, 40]
_gens = {}


def tables(mtv):
    return R.load_tables(0, 0, 0, mtv, 0)


def gen_for(mtv, rng, **kw):
    B, D = tables(mtv)
    key = (mtv, tuple(sorted(kw.items())))
    g = _gens.get(key)
    if g is None:
        g = _gens[key] = Gen(B, D, rng, **kw)
    g.rng = rng
    return g


def envelope(rng, nsub_choices=(1, 1, 2, 3, 5), pcomp=0.45):
    ed = rng.choice([2, 3, 4])
    sec2 = rng.choice([None, None, b'', b'ab', b'xyz'])
    comp = rng.random() < pcomp
    nsub = rng.choice(nsub_choices)
    return ed, sec2, comp, nsub


def self_consistent(msg, ctx=None):
    """R-produce -> R-consume identity (the gate of DESIGN 1.1). Returns True/False."""
    try:
        r = R.decode(msg.bytes)
    except Exception:
        return False
    if len(r['subsets']) != len(msg.subsets):
        return False
    for a, b in zip(msg.subsets, r['subsets']):
        if a.labels != list(b.labels) or a.values != b.values or a.links != b.links:
            return False
    return True


def random_case(ctx, mtv=None, pclose=0.8, **env):
    """Returns (msg, mtv) or None when R has no opinion (Unsupported)."""
    rng = ctx.rng
    mtv = mtv if mtv is not None else rng.choice(MTVS)
    g = gen_for(mtv, rng, pclose=pclose)
    ids = g.template()
    ed, sec2, comp, nsub = envelope(rng, **env)
    B, D = tables(mtv)
    try:
        msg = R.build_message(ids, B, D, R.Policy(rng), nsub, comp, ed,
                              dict(master_table_version=mtv), sec2)
    except R.Unsupported:
        ctx.count('gen_unsupported')
        return None
    return msg, mtv


def shape_cases(ctx, compressed_too=True):
    """Yield (name, msg) for the mandatory shapes assigned to this shard (deterministic)."""
    B, D = tables(33)
    variants = []
    for si, (name, ids) in enumerate(SHAPES):
        for vi, (comp, nsub, ed) in enumerate([(False, 1, 4), (False, 3, 3), (True, 4, 4), (True, 3, 2)]):
            if comp and not compressed_too:
                continue
            variants.append((si, vi, name, ids, comp, nsub, ed))
    for n, (si, vi, name, ids, comp, nsub, ed) in enumerate(variants):
        if not ctx.mine(n):
            continue
        for phase in (0, 3):
            pol = EdgePolicy(ctx.rng, phase=phase + vi)
            try:
                msg = R.build_message(ids, B, D, pol, nsub, comp, ed, None, None)
            except R.Unsupported as e:
                ctx.count('shape_unsupported')
                ctx.add('shape_unsupported', '%s:%s' % (name, e))
                continue
            yield name, msg
