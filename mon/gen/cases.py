"""Message cases: template x values x envelope, produced by R, with the R self-consistency gate."""
from mon import refbufr as R
from mon.gen.templates import Gen
from mon.gen.shapes import SHAPES, EdgePolicy

MTVS = [33, 33, 33, 33, 29, 25, 19, 13, 36, 40]
_gens = {}


def tables(mtv):
    return R.load_tables(0, 0, 0, mtv, 0)


def gen_for(mtv, rng, **kw):
    B, D = tables(mtv)
    key = (mtv, tuple(sorted(kw.items())))
    g = _gens.get(key)
    if g is None:
        g = _gens[key] = Gen(B, D, rng, **kw)
    g.rng = rng
    return g


def envelope(rng, nsub_choices=(1, 1, 2, 3, 5), pcomp=0.45):
    ed = rng.choice([2, 3, 4])
    sec2 = rng.choice([None, None, b'', b'ab', b'xyz'])
    comp = rng.random() < pcomp
    nsub = rng.choice(nsub_choices)
    return ed, sec2, comp, nsub


def self_consistent(msg, ctx=None):
    """R-produce -> R-consume identity (the gate of DESIGN 1.1). Returns True/False."""
    try:
        r = R.decode(msg.bytes)
    except Exception:
        return False
    if len(r['subsets']) != len(msg.subsets):
        return False
    for a, b in zip(msg.subsets, r['subsets']):
        if a.labels != list(b.labels) or a.values != b.values or a.links != b.links:
            return False
    return True


def random_case(ctx, mtv=None, pclose=0.8, narrow_strings=0.0, **env):
    """Returns (msg, mtv) or None when R has no opinion (Unsupported)."""
    rng = ctx.rng
    mtv = mtv if mtv is not None else rng.choice(MTVS)
    g = gen_for(mtv, rng, pclose=pclose)
    ids = g.template()
    ed, sec2, comp, nsub = envelope(rng, **env)
    B, D = tables(mtv)
    try:
        msg = R.build_message(ids, B, D, R.Policy(rng, narrow_strings=narrow_strings), nsub, comp, ed,
                              dict(master_table_version=mtv), sec2)
    except R.Unsupported:
        ctx.count('gen_unsupported')
        return None
    return msg, mtv


def shape_cases(ctx, compressed_too=True):
    """Yield (name, msg) for the mandatory shapes assigned to this shard (deterministic)."""
    B, D = tables(33)
    variants = []
    for si, (name, ids) in enumerate(SHAPES):
        for vi, (comp, nsub, ed) in enumerate([(False, 1, 4), (False, 3, 3), (True, 4, 4), (True, 3, 2)]):
            if comp and not compressed_too:
                continue
            variants.append((si, vi, name, ids, comp, nsub, ed))
    for n, (si, vi, name, ids, comp, nsub, ed) in enumerate(variants):
        if not ctx.mine(n):
            continue
        for phase in (0, 3):
            pol = EdgePolicy(ctx.rng, phase=phase + vi)
            try:
                msg = R.build_message(ids, B, D, pol, nsub, comp, ed, None, None)
            except R.Unsupported as e:
                ctx.count('shape_unsupported')
                ctx.add('shape_unsupported', '%s:%s' % (name, e))
                continue
            yield name, msg


_vs_cache = {}


def version_sensitive_pairs(min_version=6):
    """[(element id, vA, vB)]: the element's (scale, reference, width) differ between the two bundled
    master-table versions (consecutive versions and first/last), so the same descriptor list means
    different bits under vA and vB."""
    key = min_version
    if key in _vs_cache:
        return _vs_cache[key]
    vs = [v for v in R.wmo_versions() if v >= min_version]
    combos = list(zip(vs, vs[1:])) + [(vs[0], vs[-1])]
    out = []
    for a, b in combos:
        Ba, _ = R.load_tables(0, 0, 0, a, 0)
        Bb, _ = R.load_tables(0, 0, 0, b, 0)
        for e in sorted(Ba):
            if e in Bb and Ba[e][2:5] != Bb[e][2:5] and e // 1000 not in (0, 31, 33) and \
                    R.kind_of(Ba[e][1]) == R.kind_of(Bb[e][1]) and max(Ba[e][4], Bb[e][4]) <= 32:
                out.append((e, a, b))
    _vs_cache[key] = out
    return out


def pair_ids(e, form):
    """descriptor lists in which the table-dependent element e is used plainly / through a marker operator /
    under an associated field / as the owner of difference statistics"""
    if form == 'marker':
        return [e, 12001, 223000, 101002, 31031, 101000, 31001, 223255]
    if form == 'first-order':
        return [12001, e, 224000, 101002, 31031, 8023, 101000, 31001, 224255]
    if form == 'assoc':
        return [204005, 31021, e, 12001, 204000, e]
    return [1001, e, 12001, e]


class _ZeroBits(R.Policy):
    def bitmap_bit(self, pw):
        return 0


def version_pair_messages(rng, pair, compressed=False, form='plain'):
    """two messages with identical descriptor lists under the two versions of `pair`."""
    e, a, b = pair
    ids = pair_ids(e, form)
    out = []
    for v in (a, b):
        B, D = tables(v)
        out.append(R.build_message(ids, B, D, _ZeroBits(rng), 2 if compressed else 1, compressed, 4,
                                   dict(master_table_version=v)))
    return ids, out


def local_sensitive_pairs():
    """[(element id, (centre, subcentre, local version A), (.., local version B))]: the element's
    (scale, reference, width) differ between two bundled local table versions of one centre."""
    from mon.refbufr.rtables import load_dir
    import collections
    by = collections.defaultdict(list)
    for ce, su, lv, p in R.local_table_dirs():
        by[(ce, su)].append((lv, p))
    out = []
    for (ce, su), v in by.items():
        for i, (la, pa) in enumerate(v):
            Ba, _ = load_dir(pa)
            for lb, pb in v[i + 1:]:
                Bb, _ = load_dir(pb)
                for e in sorted(Ba):
                    if e in Bb and Ba[e][2:5] != Bb[e][2:5] and e // 1000 not in (0, 31, 33) and \
                            R.kind_of(Ba[e][1]) == R.kind_of(Bb[e][1]) and max(Ba[e][4], Bb[e][4]) <= 32:
                        out.append((e, (ce, su, la), (ce, su, lb)))
    return out


def local_pair_messages(rng, pair, compressed=False, mtv=33, form='plain'):
    """two messages with identical descriptor lists and master version under two local table versions"""
    e, la, lb = pair
    ids = pair_ids(e, form)
    out = []
    for ce, su, lv in (la, lb):
        B, D = R.load_tables(0, ce, su, mtv, lv)
        out.append(R.build_message(ids, B, D, _ZeroBits(rng), 2 if compressed else 1, compressed, 4,
                                   dict(master_table_version=mtv, originating_centre=ce, originating_subcentre=su,
                                        local_table_version=lv)))
    return ids, out


# same layout, different owners: uncompressed subsets whose expanded descriptor lists are identical while their
# (fixed-length) data-present bitmaps select different elements - anything derived from the descriptor list alone
# (a node tree, a set of matched nodes, back references) is then NOT reusable from one subset to the next
SAME_LAYOUT_SHAPES = [
    ('same-layout-222', [1001, 1002, 12001, 4024, 10004, 222000, 101005, 31031, 1031, 1032, 101000, 31001, 33007]),
    ('same-layout-224', [12001, 4024, 10004, 13011, 12003, 224000, 101005, 31031, 8023, 101000, 31001, 224255]),
    ('same-layout-223-232', [12001, 12003, 4024, 10004, 13011, 223000, 236000, 101005, 31031, 101000, 31001, 223255,
                             232000, 237000, 101000, 31001, 232255]),
    ('same-layout-two-qa-blocks', [12004, 12001, 10004, 1001, 1002, 222000, 101005, 31031, 101000, 31001, 33003, 235000,
                                   12004, 12001, 10004, 1001, 1002, 222000, 101005, 31031, 101000, 31001, 33003]),
]
# 5-bit bitmaps with two 1-bits each; in P1 the 4th element, in P2 the 3rd is designated in every subset, but as the
# 2nd/3rd/3rd resp. 3rd/2nd/2nd zero bit: its attribute sits at a different flat index from subset to subset
SAME_LAYOUT_BITS = [[1, 1, 0, 0, 0, 1, 0, 0, 0, 1, 0, 0, 1, 0, 1], [0, 0, 0, 1, 1, 0, 1, 0, 0, 1, 1, 0, 0, 1, 0]]


def same_layout_cases(rng, nsub=3, compressed=False, edition=4):
    """yield (name, msg): consecutive subsets with identical expanded descriptors and different bitmaps"""
    from mon.checks.c08 import AssignPolicy
    B, D = tables(33)
    for name, ids in SAME_LAYOUT_SHAPES:
        for bits in SAME_LAYOUT_BITS:
            try:
                yield name, R.build_message(ids, B, D, AssignPolicy(rng, [1], bits, phase=rng.randint(0, 5)), nsub, compressed, edition)
            except R.Unsupported:
                continue


# quantitative edges: many subsets (beyond 63 / 255 / 256), replication counts at the limits of their factors
class _BigCounts(R.Policy):
    def count(self, pw, w, eid):
        return {31000: 1, 31001: 254, 31002: 300}.get(eid, 2)


def big_cases(rng):
    """yield (name, msg)"""
    B, D = tables(33)
    specs = [('many-subsets-compressed-300', [1001, 12001, 1015, 2001], 300, True, R.Policy(rng)),
             ('many-subsets-compressed-64', [1001, 12001, 20011], 64, True, R.Policy(rng)),
             ('many-subsets-uncompressed-260', [1001, 12001, 101000, 31001, 4024], 260, False, R.Policy(rng)),
             ('replication-254', [1001, 101000, 31001, 12001], 2, False, _BigCounts(rng)),
             ('replication-300', [1001, 102000, 31002, 12001, 2001], 1, False, _BigCounts(rng)),
             ('replication-300-compressed', [102000, 31002, 12001, 2001, 1001], 3, True, _BigCounts(rng)),
             ('fixed-replication-255', [101255, 12001, 1001], 1, False, R.Policy(rng))]
    for name, ids, nsub, comp, pol in specs:
        try:
            yield name, R.build_message(ids, B, D, pol, nsub, comp, 4)
        except R.Unsupported:
            continue
