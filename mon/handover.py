"""Object histories: ONE message object (and the objects derived from it) taken through a sequence of successful operations of
different kinds, every result compared with the same operation applied to a brand-new object.

The library hands out shared structure on purpose: `BufrMessage.subset()` and `FlatJsonRenderer.render()` return the message's own
row lists, `Encoder.process()` accepts such an object as it is and works on it, `wire()` builds node trees lazily and once, queries
wire on demand.  None of the properties allows a later, legitimate operation on one holder to change what another holder sees -
"the source message is not modified" (C10), "earlier queries and renderings of the same message object" (C13), and the
decode / encode / render / query results the other properties describe are results for the message, not for its first use.

Oracle (boundary observations only): for a factory that yields a fresh message object for the same content,
    op(history object, after any earlier ops)  ==  op(fresh object)           for every operation kind,
where a result is the returned bytes / text / values, or the exception TYPE.  Everything runs in one process, so process-wide
state is the same on both sides; only the object's own history differs.

Used by C01 C02 C03 C04 C05 C06 C07 C09 C10 C16 (each on its own kind of message) and as a history operation of C13.
"""
import copy
import json


def _outcome(f):
    try:
        return ('ok', f())
    except Exception as e:          # result = exception type (texts may be reworded)
        return ('exc', type(e).__name__)


def _params(m):
    """(section index, parameter index) of named parameters in the data object layout of subset()/FlatJsonRenderer"""
    pos = {}
    for si, section in enumerate(m.sections):
        for pi, p in enumerate(section):
            pos[p.name] = (si, pi)
    return pos


def _variant(obj):
    """new outer lists, the rows inside stay the shared ones - what a caller does who edits a header field of a rendered message"""
    return [list(sec) for sec in obj]


def state_digest(m):
    td = m.template_data.value
    return repr((td.decoded_values_all_subsets,
                 [[str(d) for d in ds] for ds in td.decoded_descriptors_all_subsets],
                 [sorted(dict(x).items()) for x in td.bitmap_links_all_subsets],
                 [(p.name, repr(p.value)) for s in m.sections for p in s if p.name != 'template_data']))


def _hold(k, label, obj, view):
    """remember a result object a caller would still have in hand; `view(obj)` is what the caller sees in it"""
    try:
        held = k.setdefault('held', [])
        if len(held) < 6:
            held.append((label, obj, view, view(obj)))
    except Exception:
        pass
    return obj


def make_ops(m0, rng, light=False):
    """operation table {name: f(message, kept) -> comparable result}; `kept` is a per-object dict for objects that live across
    operations (a rendered object encoded by several encoders in turn)"""
    from pybufrkit.renderer import FlatTextRenderer, NestedTextRenderer, FlatJsonRenderer, NestedJsonRenderer
    from pybufrkit.utils import EntityEncoder
    from pybufrkit.encoder import Encoder
    from pybufrkit.dataquery import NodePathParser, DataQuerent
    from pybufrkit.mdquery import MetadataExprParser, MetadataQuerent
    n = m0.n_subsets.value
    pos = _params(m0)
    td = m0.template_data.value
    labels = [str(d) for d in (td.decoded_descriptors_all_subsets[0] if td.decoded_descriptors_all_subsets else [])]
    ids = []
    for lab in labels:
        if lab[0] == '0' and lab[:3] != '031' and lab not in ids:
            ids.append(lab)
    rng.shuffle(ids)
    ops = {}
    rng_mtv = rng.choice([13, 18, 25, 31])
    ops['state'] = lambda m, k: state_digest(m)
    _dumps = lambda o: json.dumps(o, cls=EntityEncoder)
    ops['flat_json'] = lambda m, k: _dumps(_hold(k, 'flat_json object', FlatJsonRenderer().render(m), _dumps))
    ops['nested_json'] = lambda m, k: _dumps(_hold(k, 'nested_json object', NestedJsonRenderer().render(m), _dumps))
    ops['flat_text'] = lambda m, k: FlatTextRenderer().render(m)
    ops['nested_text'] = lambda m, k: NestedTextRenderer().render(m)
    ops['wire'] = lambda m, k: m.wire()
    ops['wire_template_data'] = lambda m, k: m.template_data.value.wire()     # the other public entry point of the wiring
    ops['md_query'] = lambda m, k: repr([MetadataQuerent(MetadataExprParser()).query(m, e)
                                         for e in ('%length', '%n_subsets', '%3.section_length', '%is_compressed')])
    sels = ['', '@[0] > ', '@[-1] > ', '@[::2] > ', '@[%d] > ' % (n // 2)]
    for lab in ids[:2]:
        for sel in rng.sample(sels, 2):
            e = sel + lab
            _qview = lambda r: repr((r.subset_indices(), r.all_values()))
            ops['query:' + e] = (lambda e: lambda m, k: _qview(_hold(k, 'query result ' + e, DataQuerent(NodePathParser()).query(m, e), _qview)))(e)
    from pybufrkit.script import ScriptRunner
    for qname in [x for x in sorted(ops) if x.startswith('query:')][:2]:
        e = qname[6:]
        lvl = rng.choice([0, 1, 2, 4])
        _sview = lambda d: repr(sorted((kk, repr(vv)) for kk, vv in d.items() if kk.startswith('PBK_') and kk[4:].isdigit() or kk == 'v'))
        ops['script:%d:%s' % (lvl, e)] = (lambda e, lvl: lambda m, k: repr(_hold(
            k, 'script variables', ScriptRunner('v = ${%s}\n' % e, data_values_nest_level=lvl).run(m), _sview).get('v')))(e, lvl)
    idxsets = [[0], list(range(n)), [n - 1], list(range(0, n, 2)), [n - 1, 0]]
    I = rng.choice(idxsets)
    ops['subset:%r' % I] = (lambda I: lambda m, k: repr(_hold(k, 'subset data object', m.subset(I), repr)))(I)
    ops['encode_subset:%r' % I] = (lambda I: lambda m, k: Encoder().process(m.subset(I)).serialized_bytes.hex())(I)
    ops['encode_rendered_object'] = lambda m, k: Encoder().process(FlatJsonRenderer().render(m)).serialized_bytes.hex()
    ops['encode_rendered_text'] = lambda m, k: Encoder().process(
        json.dumps(FlatJsonRenderer().render(m), cls=EntityEncoder)).serialized_bytes.hex()
    ops['encode_compiling'] = lambda m, k: Encoder(compiled_template_cache_max=2).process(
        FlatJsonRenderer().render(m)).serialized_bytes.hex()

    def kept_obj(m, k):
        if 'fj' not in k:
            k['fj'] = FlatJsonRenderer().render(m)
        return k['fj']
    # one rendered object handed to several encoders in turn
    ops['encode_kept/default'] = lambda m, k: Encoder().process(kept_obj(m, k)).serialized_bytes.hex()
    ops['encode_kept/honour'] = lambda m, k: Encoder(ignore_declared_length=False).process(kept_obj(m, k)).serialized_bytes.hex()
    # the same rendered object given to an encoder that overrides the table version, then to plain encoders again
    ops['encode_kept/override'] = lambda m, k: Encoder(master_table_version=rng_mtv).process(kept_obj(m, k)).serialized_bytes.hex()
    # ONE long-lived encoder given the same object several times (and other objects in between)
    ops['encode_kept/same-encoder'] = lambda m, k: k.setdefault('enc', Encoder()).process(kept_obj(m, k)).serialized_bytes.hex()
    ops['encode_kept/same-compiling-encoder'] = lambda m, k: k.setdefault('cenc', Encoder(compiled_template_cache_max=3)).process(kept_obj(m, k)).serialized_bytes.hex()

    def nested_to_flat(m, k):
        # the nested view a caller holds, handed to the converter; the view is still his afterwards
        from pybufrkit.utils import nested_json_to_flat_json
        if 'nj' not in k:
            k['nj'] = _hold(k, 'nested_json object given to the converter', NestedJsonRenderer().render(m), _dumps)
        return _dumps(nested_json_to_flat_json(k['nj']))
    ops['nested_to_flat'] = nested_to_flat
    if 'n_subsets' in pos and n > 1 and not light:
        si_n, pi_n = pos['n_subsets']

        def fewer_by_count(m, k, si=si_n, pi=pi_n):
            # the first subset(s) only, by lowering the count: the rows are the message's own (surplus rows are not encoded)
            obj = _variant(FlatJsonRenderer().render(m))
            obj[si][pi] = 1
            return Encoder().process(obj).serialized_bytes.hex()
        ops['encode_fewer_subsets_by_count'] = fewer_by_count
    if 'is_compressed' in pos and not light:
        si, pi = pos['is_compressed']

        def flipped(m, k, si=si, pi=pi, I=I):
            data = m.subset(I)
            data[si][pi] = not data[si][pi]
            return Encoder().process(data).serialized_bytes.hex()
        ops['encode_subset_other_compression:%r' % I] = flipped
    if 'unexpanded_descriptors' in pos and not light:
        si, pi = pos['unexpanded_descriptors']

        def coarser(m, k, si=si, pi=pi):
            # the same rows under another template: scale / width / reference operators taken out (same number of values)
            obj = _variant(FlatJsonRenderer().render(m))
            obj[si][pi] = [d for d in obj[si][pi] if d // 1000 not in (201, 202, 207)]
            return Encoder().process(obj).serialized_bytes.hex()
        if any(d // 1000 in (201, 202, 207) for d in m0.unexpanded_descriptors.value):
            ops['encode_rows_under_coarser_template'] = coarser
    return ops


# a small edition-4 message (001001, 001002) in the flat JSON form
INTERFERENCE_JSON = None


def _interference_json():
    from pybufrkit.decoder import Decoder
    from pybufrkit.renderer import FlatJsonRenderer
    from pybufrkit.utils import EntityEncoder
    import random
    from mon import refbufr as R
    B, D = R.load_tables()
    b = R.build_message([1001, 1002], B, D, R.Policy(random.Random(1)), 1, False, 4).bytes
    return json.dumps(FlatJsonRenderer().render(Decoder().process(b)), cls=EntityEncoder)


SCRIPTS = [
    ('query:@', 'wire', 'nested_json', 'query:@', 'query:', 'nested_text'),
    ('nested_json', 'nested_text', 'nested_json', 'flat_text', 'nested_text'),
    ('flat_json', 'encode_rendered_object', 'state', 'nested_json', 'encode_rendered_text'),
    ('subset', 'encode_subset:', 'state', 'flat_json', 'encode_subset:'),
    ('encode_kept/default', 'encode_kept/honour', 'encode_kept/default', 'encode_kept/honour'),
    ('encode_kept/honour', 'encode_kept/default', 'encode_kept/honour'),
    ('encode_rows_under_coarser_template', 'state', 'flat_json', 'encode_rendered_object', 'query:'),
    ('encode_subset_other_compression', 'state', 'encode_rendered_object', 'flat_text'),
    ('encode_compiling', 'encode_rendered_object', 'encode_compiling', 'state'),
    ('flat_text', 'query:', 'nested_json', 'subset', 'encode_subset:', 'nested_text', 'flat_json'),
    ('wire', 'wire', 'nested_json', 'query:@', 'wire', 'nested_json'),
    ('md_query', 'encode_rendered_object', 'md_query', 'state'),
    ('wire', 'wire_template_data', 'nested_json', 'query:', 'nested_text'),
    ('wire_template_data', 'wire', 'nested_text', 'query:'),
    ('query:', 'wire', 'script:', 'query:', 'script:'),
    ('script:', 'wire', 'script:', 'nested_json'),
    ('query:@', 'wire_template_data', 'nested_json', 'query:@'),
    ('encode_kept/override', 'encode_kept/default', 'state', 'encode_kept/override', 'encode_kept/honour'),
    ('encode_kept/same-encoder', 'encode_kept/same-encoder', 'encode_rendered_object', 'encode_kept/same-encoder', 'state'),
    ('encode_kept/same-compiling-encoder', 'encode_kept/same-encoder', 'encode_kept/same-compiling-encoder', 'encode_kept/same-encoder'),
    ('nested_json', 'nested_to_flat', 'nested_json', 'nested_to_flat', 'nested_text'),
    ('wire', 'nested_to_flat', 'query:', 'nested_to_flat'),
    ('encode_fewer_subsets_by_count', 'state', 'flat_json', 'encode_rendered_object', 'encode_fewer_subsets_by_count'),
    ('flat_json', 'encode_fewer_subsets_by_count', 'nested_json', 'subset'),
]


HIERARCHICAL = ('nested_json', 'nested_text', 'query', 'script', 'nested_to_flat')


def interference(rng):
    """other objects of the same classes, built with non-default options, doing their own successful work on ANOTHER message:
    whatever is shared between instances (class attributes, mutable default arguments, module-level memos) would carry it over"""
    from pybufrkit.encoder import Encoder
    from pybufrkit.decoder import Decoder
    global INTERFERENCE_JSON
    mtv = rng.choice([13, 25, 31])
    try:
        if INTERFERENCE_JSON is None:
            INTERFERENCE_JSON = _interference_json()
        b = Encoder(master_table_version=mtv).process(INTERFERENCE_JSON).serialized_bytes
        m = Decoder(compiled_template_cache_max=1).process(b)
    except Exception:
        return
    acts = rng.sample(range(8), 3)
    for a in acts:
        try:
            if a == 0:
                Encoder(master_table_number=0, master_table_version=mtv, ignore_declared_length=False).process(INTERFERENCE_JSON)
            elif a == 1:
                Decoder().process(b, ignore_value_expectation=True, wire_template_data=False)
            elif a == 2:
                from pybufrkit.script import ScriptRunner
                ScriptRunner('#$ data_values_nest_level = %d\na = ${001001}\nb = ${%%edition}\n' % rng.choice([0, 2, 4])).run(m)
            elif a == 3:
                from pybufrkit.dataquery import NodePathParser, DataQuerent
                DataQuerent(NodePathParser(bare_id_matches_all=False)).query(m, '@[0] > 001002').all_values()
            elif a == 4:
                from pybufrkit.mdquery import MetadataExprParser, MetadataQuerent
                MetadataQuerent(MetadataExprParser()).query(m, '%1.section_length')
            elif a == 5:
                from pybufrkit.renderer import NestedTextRenderer, NestedJsonRenderer
                NestedTextRenderer().render(m)
                NestedJsonRenderer().render(m)
            elif a == 6:
                from pybufrkit.bitops import get_bit_reader, get_bit_writer
                r = get_bit_reader(b)
                r.read_bytes(4)
                w = get_bit_writer()
                w.write_uint(5, 3)
            else:
                from pybufrkit.decoder import generate_bufr_message
                list(generate_bufr_message(Decoder(), b + b'xx' + b, info_only=True, filter_expr='${%edition} == 4'))
        except Exception:
            pass


def exercise(ctx, factory, rng, prefix, spec, nops=8, light=False, script=None):
    """factory() -> fresh message object (decoded or encoder-returned) of the same content.  Returns the number of
    comparisons made; reports differences through ctx.violate with signatures  <prefix>/<operation kind>-differs/after-<previous kind>."""
    try:
        m = factory()
        ops = make_ops(m, rng, light)
    except Exception as e:
        ctx.count('object_history_setup_failed')
        ctx.notes.append('object history setup failed: %r' % (e,))
        return 0
    names = sorted(ops)
    if script is not None or rng.random() < 0.5:
        # scripted histories: the sequences in which shared structure, lazy wiring and once-only bookkeeping matter most
        script = script if script is not None else rng.choice(SCRIPTS)
        seq = []
        chosen = {}
        for pref in script:
            cands = [x for x in names if x.startswith(pref)]
            if cands:
                if pref not in chosen:
                    chosen[pref] = rng.choice(cands)
                seq.append(chosen[pref])
        ctx.count('object_histories_scripted')
    else:
        seq = [rng.choice(names) for _ in range(nops)]
    if 'state' not in seq:
        seq.append('state')
    seq.append(rng.choice(['nested_json', 'flat_json', 'encode_rendered_object']))
    kept = {}
    done = 0
    prev = 'start'
    hist = []
    ref = {}
    wired = bool(getattr(factory, 'wired', True))

    def fresh(hier):
        fm = factory()
        if hier:
            fm.wire()
        return fm
    for name in seq:
        if rng.random() < 0.1:
            interference(rng)
            hist.append('interference')
        kind = name.split(':')[0]
        # the hierarchical renderings and the queries are defined for a wired message (decoded with the default option, or
        # wire() called): on an object that has not been wired yet the call is made - it is a legitimate call and part of the
        # history - but its result is not judged
        hier = kind in HIERARCHICAL
        if hier and not wired:
            _outcome(lambda: ops[name](m, kept))
            kept.pop('nj', None)            # a view rendered before the wiring is not the view of the message
            hist.append(name + ' (not wired yet: not judged)')
            ctx.count('object_history_ops_on_unwired_objects')
            continue
        if name not in ref:
            ref[name] = _outcome(lambda: ops[name](fresh(hier), {}))
        got = _outcome(lambda: ops[name](m, kept))
        if kind in ('wire', 'wire_template_data'):
            wired = True
        hist.append(name)
        done += 1
        ctx.count('object_history_ops')
        if got != ref[name]:
            what = 'raises %s' % got[1] if got[0] == 'exc' else 'differs'
            ctx.violate('%s/%s-%s/after-%s' % (prefix, kind, 'raises' if got[0] == 'exc' else 'differs', prev.split(':')[0]),
                        'operation %r on a message object that went through %r %s; on a brand-new object of the same content it gives %s'
                        % (name, hist[:-1], what, ('%s' % (ref[name][1],))[:120] if ref[name][0] == 'exc' else 'another result'),
                        dict(spec, object_history=hist, operation=name,
                             got=str(got[1])[:300], fresh=str(ref[name][1])[:300]))
            break
        # results of earlier operations that the caller still has in hand show what they showed when they were returned
        changed = None
        for label, obj, view, snap in kept.get('held', []):
            try:
                if view(obj) != snap:
                    changed = label
                    break
            except Exception as e:
                changed = '%s (reading it now raises %s)' % (label, type(e).__name__)
                break
        if changed:
            ctx.violate('%s/earlier-result-changed/%s/by-%s' % (prefix, changed.split(' ')[0], kind),
                        'the %s returned earlier in the history %r no longer shows what it showed when it was returned' % (changed, hist),
                        dict(spec, object_history=hist, operation=name, held=changed))
            break
        ctx.counters['held_results_rechecked'] += len(kept.get('held', []))
        # whatever the operation was, the object still holds what a fresh one holds
        if 'state' not in ref:
            ref['state'] = _outcome(lambda: ops['state'](factory(), {}))
        st = _outcome(lambda: ops['state'](m, kept))
        if st != ref['state']:
            ctx.violate('%s/message-object-changed/by-%s' % (prefix, kind),
                        'after %r the message object no longer holds the values / labels / links / header fields of a brand-new object of the '
                        'same content' % (hist,), dict(spec, object_history=hist, operation=name))
            break
        prev = name
    ctx.count('object_histories')
    return done


def forms_agree(ctx, factory, rng, prefix, spec):
    """The Encoder takes a message as python lists or as their JSON text ("a JSON or its string serialized form"): the object a
    decoded message hands out (rows holding bytes / float / None) and the text of that very object encode to the same bytes - as
    it is, with the other compression flag, and for a selection of subsets."""
    from pybufrkit.renderer import FlatJsonRenderer
    from pybufrkit.utils import EntityEncoder
    from pybufrkit.encoder import Encoder
    try:
        m = factory()
        pos = _params(m)
        n = m.n_subsets.value
    except Exception:
        return
    variants = [('as-it-is', lambda: FlatJsonRenderer().render(factory()))]
    I = rng.choice([[0], list(range(n)), list(range(0, n, 2)), [n - 1]])
    variants.append(('subset', lambda: factory().subset(I)))
    if 'is_compressed' in pos:
        si, pi = pos['is_compressed']

        def flipped():
            data = factory().subset(list(range(n)))
            data[si][pi] = not data[si][pi]
            return data
        variants.append(('other-compression', flipped))
    for vname, make in variants:
        try:
            obj = make()
            text = json.dumps(obj, cls=EntityEncoder)
        except Exception:
            continue
        a = _outcome(lambda: Encoder().process(obj).serialized_bytes.hex())
        b = _outcome(lambda: Encoder().process(text).serialized_bytes.hex())
        ctx.count('object_vs_text_form_encodes')
        if a[0] == 'ok' and b[0] == 'ok' and a[1] != b[1]:
            ctx.violate('%s/object-form-and-text-form-encode-differently/%s' % (prefix, vname),
                        'the object a decoded message hands out (%s) and the JSON text of that object encode to different bytes'
                        % vname, dict(spec, variant=vname, subset=I, from_object=a[1][:400], from_text=b[1][:400]))
        elif a[0] != b[0]:
            ctx.violate('%s/object-form-and-text-form-encode-differently/%s/one-refused' % (prefix, vname),
                        'of the object a decoded message hands out (%s) and its JSON text one is refused (%s), the other encoded'
                        % (vname, a[1] if a[0] == 'exc' else b[1]), dict(spec, variant=vname, subset=I))


def decoded_factory(b, rng, **kw):
    """fresh decodes of the same bytes; each history object is wired or not (fixed per factory) - queries and renderers wire on demand"""
    from pybufrkit.decoder import Decoder
    wire = rng.random() < 0.5

    def factory():
        return Decoder(**kw).process(b, wire_template_data=wire)
    factory.wired = wire
    return factory


def encoded_factory(flat_json_text, **kw):
    """fresh encoder-returned messages built from python lists (json.loads each time: new lists holding str / float / None)"""
    from pybufrkit.encoder import Encoder
    return lambda: Encoder(**kw).process(json.loads(flat_json_text))


QUOTA = {'quick': 6, 'thorough': 60}      # object histories per shard and call site


def _rng(ctx):
    r = getattr(ctx, '_object_history_rng', None)
    if r is None:
        import random
        r = ctx._object_history_rng = random.Random((ctx.seed * 7927 + ctx.shard) * 31 + 5)
    return r


def on_message(ctx, b, spec, site='m', prefix='object-history', p=0.2, quota=None, encoder_returned=0.34, light=False, script=None, **deckw):
    """At a rate (and up to a per-shard quota per call site) take the message `b` through one object history of a decoded object
    and, a third of the time, one of an encoder-returned object built from the python lists of its flat JSON form."""
    rng = _rng(ctx)
    key = 'object_histories@' + site
    if ctx.counters.get(key, 0) >= (quota if quota is not None else QUOTA.get(ctx.tier, 6)) or rng.random() >= p:
        return
    ctx.counters[key] += 1
    spec = dict(spec, object_history_site=site)
    f = decoded_factory(b, rng, **deckw)
    exercise(ctx, f, rng, prefix, spec, light=light, script=script)
    if rng.random() < 0.5:
        forms_agree(ctx, f, rng, prefix, spec)
    if rng.random() < 0.5:
        # what the Encoder returns for the objects a decoded message hands out describes the bytes it wrote
        try:
            from pybufrkit.encoder import Encoder
            from pybufrkit.renderer import FlatJsonRenderer
            m = f()
            n = m.n_subsets.value
            data = rng.choice([lambda: FlatJsonRenderer().render(m), lambda: m.subset([n - 1]), lambda: m.subset(list(range(0, n, 2)))])()
            em = Encoder().process(data)
        except Exception:
            em = None
        if em is not None:
            encoder_object_matches_bytes(ctx, em, prefix, spec)
    if rng.random() < encoder_returned:
        try:
            from pybufrkit.decoder import Decoder
            from pybufrkit.renderer import FlatJsonRenderer
            from pybufrkit.utils import EntityEncoder
            fj = json.dumps(FlatJsonRenderer().render(Decoder(**deckw).process(b)), cls=EntityEncoder)
        except Exception:
            return
        exercise(ctx, encoded_factory(fj, **{k: v for k, v in deckw.items() if k in ('tables_root_dir', 'definitions_dir')}),
                 rng, prefix + '/encoder-returned', spec)


def on_flat_json(ctx, fj_text, spec, site='e', prefix='object-history/encoder-returned', p=0.2, quota=None, **enckw):
    """the same for a message in its flat JSON text form: the history object is the message the Encoder returns for the python
    lists of that text (str / float / None values, as a caller building messages in python would hand them over)"""
    rng = _rng(ctx)
    key = 'object_histories@' + site
    if ctx.counters.get(key, 0) >= (quota if quota is not None else QUOTA.get(ctx.tier, 6)) or rng.random() >= p:
        return
    ctx.counters[key] += 1
    exercise(ctx, encoded_factory(fj_text, **enckw), rng, prefix, dict(spec, object_history_site=site))


def _norm_param(v):
    if isinstance(v, (bytes, bytearray)):
        return bytes(v).decode('latin-1')
    if isinstance(v, (list, tuple)):
        return [_norm_param(x) for x in v]
    if isinstance(v, bool):
        return int(v)
    return v


def header_of(m):
    return [(si, p.name, _norm_param(p.value)) for si, s in enumerate(m.sections) for p in s if p.name != 'template_data']


def encoder_object_matches_bytes(ctx, em, prefix, spec):
    """The message object the Encoder returns describes the bytes it wrote: every header field (total length and section lengths
    above all - they are recalculated or zero-filled while writing) has the value a decode of `serialized_bytes` reads."""
    from pybufrkit.decoder import Decoder
    try:
        dm = Decoder().process(em.serialized_bytes)
    except Exception as e:
        ctx.violate('%s/encoder-output-does-not-decode:%s' % (prefix, type(e).__name__),
                    'the bytes of the message the Encoder returned do not decode: %r' % (e,), spec, exc=e)
        return
    a, b = header_of(em), header_of(dm)
    ctx.count('encoder_objects_compared_with_their_bytes')
    if a != b:
        bad = [(x, y) for x, y in zip(a, b) if x != y][:3] or [('number of fields', len(a), len(b))]
        ctx.violate('%s/encoder-returned-object-differs-from-its-bytes/%s' % (prefix, bad[0][0][1] if isinstance(bad[0][0], tuple) else 'layout'),
                    'header fields of the message object returned by the Encoder differ from what its serialized_bytes hold: %r' % (bad,),
                    dict(spec, differing=repr(bad)))
