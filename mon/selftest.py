"""R's own checks (no pybufrkit involved): produce->consume identity, corpus consumption."""
import glob
import os
import random
import sys


def main():
    from mon import refbufr as R
    from mon.gen.templates import Gen
    from mon.gen.cases import self_consistent, tables, MTVS
    from mon.gen.shapes import SHAPES, EdgePolicy
    rng = random.Random(12345)
    ok = bad = unsup = 0
    for n in range(400):
        mtv = rng.choice(MTVS)
        B, D = tables(mtv)
        g = Gen(B, D, rng) if n % 50 == 0 else g
        g.B, g.D = B, D
        ids = Gen(B, D, rng).template() if n % 50 == 0 else g.template()
        try:
            msg = R.build_message(ids, B, D, R.Policy(rng), rng.choice([1, 2, 4]), rng.random() < 0.5,
                                  rng.choice([2, 3, 4]), dict(master_table_version=mtv),
                                  rng.choice([None, b'ab']))
        except R.Unsupported:
            unsup += 1
            continue
        except KeyError:
            unsup += 1
            continue
        if self_consistent(msg):
            ok += 1
        else:
            bad += 1
            print('R self-inconsistent on', ids)
    B, D = tables(33)
    for name, ids in SHAPES:
        for comp in (False, True):
            try:
                msg = R.build_message(ids, B, D, EdgePolicy(rng), 3, comp, 4)
            except R.Unsupported as e:
                print('shape %s unsupported: %s' % (name, e))
                bad += 1
                continue
            if self_consistent(msg):
                ok += 1
            else:
                bad += 1
                print('R self-inconsistent on shape', name)
    repo = os.environ.get('VERIF_REPO', '/repo')
    files = sorted(glob.glob(os.path.join(repo, 'tests', 'data', '*.bufr')))
    consumed = 0
    for f in files:
        if os.path.basename(f) in ('multi_invalid_messages.bufr', 'prepbufr.bufr'):
            continue
        try:
            R.decode(open(f, 'rb').read())
            consumed += 1
        except R.Unsupported:
            pass
        except Exception as e:
            bad += 1
            print('R failed on', f, repr(e))
    print('selftest: R produce/consume ok=%d bad=%d unsupported=%d corpus_consumed=%d' % (ok, bad, unsup, consumed))
    return 0 if bad == 0 and ok > 200 and consumed >= 8 else 1


if __name__ == '__main__':
    sys.exit(main())
