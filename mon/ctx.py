"""Per-shard context handed to a check: RNG, counters, distinct-case registry, violations."""
import collections
import hashlib
import json
import random
import time
import traceback

from .compare import jsonable


def sha(obj):
    return hashlib.sha1(json.dumps(jsonable(obj), sort_keys=True, default=repr).encode()).hexdigest()[:16]


class Ctx(object):
    def __init__(self, prop, tier, seed, shard, nshards, budget_s):
        self.prop, self.tier, self.seed, self.shard, self.nshards = prop, tier, seed, shard, nshards
        self.rng = random.Random((seed * 1000003 + shard) * 7919 + 17)
        self.t0 = time.time()
        self.budget_s = budget_s
        self.counters = collections.Counter()
        self.distinct = set()
        self.samples = []
        self.sets = collections.defaultdict(set)
        self.violations = []
        self.vcount = collections.Counter()
        self.monitor = {}
        self.notes = []
        self.quick = tier == 'quick'

    # ---- budget
    def time_left(self):
        return self.budget_s - (time.time() - self.t0)

    def more(self):
        if self.time_left() <= 0:
            self.counters['budget_exhausted'] = 1
            return False
        return True

    def mine(self, i):
        """round-robin partition of an enumerated space over the shards"""
        return i % self.nshards == self.shard

    # ---- accounting
    def count(self, key, n=1):
        self.counters[key] += n

    def add(self, setname, item):
        self.sets[setname].add(item)

    def evaluated(self, case_sig, nontrivial, sample=None):
        """One oracle comparison was made. case_sig: hashable/json-able canonical spec."""
        self.counters['evaluations'] += 1
        if nontrivial:
            h = case_sig if isinstance(case_sig, str) and len(case_sig) == 16 else sha(case_sig)
            self.distinct.add(h)
        if sample is not None and len(self.samples) < 4:
            self.samples.append(jsonable(sample))

    def sample(self, s):
        if len(self.samples) < 4:
            self.samples.append(jsonable(s))

    def violate(self, sig, what, case, expected=None, observed=None, exc=None, advisory=False):
        """Record a refutation. sig = mechanism signature (stable, no random values)."""
        key = ('ADVISORY ' if advisory else '') + sig
        self.vcount[key] += 1
        if self.vcount[key] <= 2:
            v = dict(sig=sig, what=what, case=jsonable(case), expected=jsonable(expected),
                     observed=jsonable(observed), advisory=advisory, seed=self.seed,
                     shard=self.shard, tier=self.tier)
            if exc is not None:
                v['exception'] = ''.join(traceback.format_exception(type(exc), exc, exc.__traceback__))[-3000:]
            self.violations.append(v)

    def result(self):
        return dict(counters=dict(self.counters), distinct=sorted(self.distinct),
                    samples=self.samples, sets={k: sorted(jsonable(x) for x in v) if all(
                        not isinstance(x, tuple) for x in v) else sorted(jsonable(list(x)) for x in v)
                        for k, v in self.sets.items()},
                    violations=self.violations, vcount=dict(self.vcount), monitor=self.monitor,
                    notes=self.notes, elapsed=time.time() - self.t0)
