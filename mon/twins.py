"""Twins: differently configured instances of the same classes, alive in the same process, that are given THE SAME INPUT just
before the object under observation gets it.

Every property is stated for "a Decoder", "an Encoder", "a parser": what one instance returns for an input does not depend on
what another instance - built with another tables root, another definitions directory, other options - was built with or was
given before.  State that instances share without saying so (class-level attributes, module-level memos keyed by too little, a
process-wide cache whose key leaves out the directory or the option that decides the answer) is invisible to any workload in
which one configuration is alive at a time.

This module is an *interleaving injector at the API boundary* (the runtime-monitoring counterpart of yield injection): class
attribute wrappers on `Decoder.process`, `Encoder.process` and `NodePathParser.parse` that, at a seeded rate, first hand the very
same argument to one or two twins (exceptions swallowed, results dropped) and sometimes construct a new twin (constructor side
effects), then let the real call proceed.  No oracle lives here: the checks' own oracles judge the real call exactly as before -
a twin can only make a difference through state it should not share.  What was injected is counted and reported as evidence.

Twins:
  decoders  - tables root `wide` (every numeric Table B entry of every master version one bit wider), tables root `reduced`
              (only WMO version 33: every other version falls back to it), definitions directory `site` (other section
              layouts), each with and without template compilation; called with random per-call options
              (info_only / ignore_value_expectation / wire_template_data=False)
  encoders  - master_table_version override, `wide` root, `site` definitions, honouring declared lengths, compiling
  parsers   - NodePathParser(bare_id_matches_all = the opposite)
"""
import collections
import json
import os
import random

STATE = dict(attached=False, depth=0, rng=None, p=0.08, quota=400, roots=None, pool=None)
injected = collections.Counter()


# ------------------------------------------------------------------------------------------------ scratch roots
def build_roots(scratch):
    """<scratch>/twins/{wide,reduced,site}: built once per check run by the runner (workers only read them)."""
    repo = os.environ.get('VERIF_REPO', '/repo')
    base = os.path.join(scratch, 'twins')
    if os.path.isdir(os.path.join(base, 'site')):
        return base
    src = os.path.join(repo, 'pybufrkit', 'tables')
    # --- wide: every numeric Table B entry of every master version is one bit wider; local tables as they are
    wide = os.path.join(base, 'wide')
    for mt in os.listdir(src):
        os.makedirs(os.path.join(wide, mt))
        for cdir in os.listdir(os.path.join(src, mt)):
            if cdir != '0_0':
                os.symlink(os.path.join(src, mt, cdir), os.path.join(wide, mt, cdir))
                continue
            os.makedirs(os.path.join(wide, mt, cdir))
            for ver in os.listdir(os.path.join(src, mt, cdir)):
                vsrc = os.path.join(src, mt, cdir, ver)
                vdst = os.path.join(wide, mt, cdir, ver)
                os.makedirs(vdst)
                for name in os.listdir(vsrc):
                    if name != 'TableB.json':
                        os.symlink(os.path.join(vsrc, name), os.path.join(vdst, name))
                        continue
                    with open(os.path.join(vsrc, name)) as f:
                        tb = json.load(f)
                    for k, e in tb.items():
                        unit = str(e[1]).lower()
                        if 'ccitt' in unit or 'table' in unit or k.startswith('031'):
                            continue
                        e[4] = e[4] + 1
                    with open(os.path.join(vdst, name), 'w') as f:
                        json.dump(tb, f)
    # --- reduced: WMO version 33 only, no local tables
    red = os.path.join(base, 'reduced')
    os.makedirs(os.path.join(red, '0', '0_0'))
    os.symlink(os.path.join(src, '0', '0_0', '33'), os.path.join(red, '0', '0_0', '33'))
    # --- site definitions: same octets, other parameters
    dsrc = os.path.join(repo, 'pybufrkit', 'definitions')
    site = os.path.join(base, 'site.tmp')
    os.makedirs(site)
    for name in os.listdir(dsrc):
        if not name.endswith('.json'):
            continue
        with open(os.path.join(dsrc, name)) as f:
            d = json.load(f)
        ps = d['parameters']
        names = [p['name'] for p in ps]
        if name == 'section1-4.json' and 'data_i18n_subcategory' in names:
            i = names.index('data_i18n_subcategory')
            if names[i + 1:i + 2] == ['data_local_subcategory']:
                ps[i:i + 2] = [dict(name='data_subcategory_site', nbits=16, type='uint')]
        elif name in ('section1-2.json', 'section1-3.json'):
            for p in ps:
                if p['name'] in ('update_sequence_number', 'data_local_subcategory'):
                    p['name'] += '_site'
        elif name == 'section2.json':
            for p in ps:
                if p['name'] == 'reserved_bits':
                    p['name'], p['type'] = 'local_id_site', 'uint'
        elif name == 'section3.json':
            for p in ps:
                if p['name'] == 'flag_bits':
                    p['name'] = 'flag_bits_site'
        with open(os.path.join(site, name), 'w') as f:
            json.dump(d, f)
    os.rename(site, os.path.join(base, 'site'))
    return base


def roots():
    if STATE['roots'] is None:
        scratch = os.environ.get('VERIF_SCRATCH') or os.path.join(os.environ.get('VERIF_DIR', '/verif'), '.scratch', 'twins-%d' % os.getpid())
        base = os.path.join(scratch, 'twins')
        if not os.path.isdir(os.path.join(base, 'site')):
            base = build_roots(scratch)
        STATE['roots'] = dict(wide=os.path.join(base, 'wide'), reduced=os.path.join(base, 'reduced'), site=os.path.join(base, 'site'))
    return STATE['roots']


# ------------------------------------------------------------------------------------------------ the twins
def _mark(o):
    try:
        o._verif_twin = True
    except Exception:
        pass
    return o


DECODER_KINDS = ('wide', 'reduced', 'site', 'wide-compiling', 'reduced-compiling', 'plain-compiling')
ENCODER_KINDS = ('override-13', 'override-25', 'wide', 'site', 'honour', 'wide-compiling', 'override-31-number')


def new_decoder(kind):
    from pybufrkit.decoder import Decoder
    r = roots()
    kw = {}
    if kind.startswith('wide'):
        kw['tables_root_dir'] = r['wide']
    elif kind.startswith('reduced'):
        kw['tables_root_dir'] = r['reduced']
    elif kind.startswith('site'):
        kw['definitions_dir'] = r['site']
    if kind.endswith('compiling'):
        kw['compiled_template_cache_max'] = 8
    injected['constructed:decoder/' + kind] += 1
    return _mark(Decoder(**kw))


def new_encoder(kind):
    from pybufrkit.encoder import Encoder
    r = roots()
    kw = {}
    if kind == 'override-13':
        kw['master_table_version'] = 13
    elif kind == 'override-25':
        kw['master_table_version'] = 25
    elif kind == 'override-31-number':
        kw['master_table_version'] = 31
        kw['master_table_number'] = 0
    elif kind.startswith('wide'):
        kw['tables_root_dir'] = r['wide']
    elif kind == 'site':
        kw['definitions_dir'] = r['site']
    elif kind == 'honour':
        kw['ignore_declared_length'] = False
    if kind.endswith('compiling'):
        kw['compiled_template_cache_max'] = 8
    injected['constructed:encoder/' + kind] += 1
    return _mark(Encoder(**kw))


def pool():
    if STATE['pool'] is None:
        STATE['pool'] = dict(decoders={}, encoders={}, parsers={})
    return STATE['pool']


def _twin(table, kind, make, rng, p_new=0.2):
    if kind not in table or rng.random() < p_new:
        table[kind] = make(kind)            # a NEW instance now and then: constructors may touch what instances share
    return table[kind]


CALL_OPTIONS = [{}, {}, dict(info_only=True), dict(ignore_value_expectation=True), dict(wire_template_data=False),
                dict(info_only=True, ignore_value_expectation=True)]


def see_bytes(b, rng=None, n=None):
    """twin decoders decode the bytes `b` (whatever comes of it)"""
    rng = rng or STATE['rng'] or random.Random(1)
    STATE['depth'] += 1
    try:
        for _ in range(n or rng.choice([1, 1, 2])):
            kind = rng.choice(DECODER_KINDS)
            opts = rng.choice(CALL_OPTIONS)
            try:
                t = _twin(pool()['decoders'], kind, new_decoder, rng)
                injected['decode/%s/%s' % (kind, '+'.join(sorted(opts)) or 'default')] += 1
                t.process(b, **opts)
            except Exception:
                injected['twin_calls_refused'] += 1
    finally:
        STATE['depth'] -= 1


def see_encoder_input(x, rng=None, n=None):
    """twin encoders encode the input `x` - the very object when it is one (a caller may hand one object to several encoders)"""
    rng = rng or STATE['rng'] or random.Random(1)
    STATE['depth'] += 1
    try:
        for _ in range(n or rng.choice([1, 1, 2])):
            kind = rng.choice(ENCODER_KINDS)
            try:
                t = _twin(pool()['encoders'], kind, new_encoder, rng)
                injected['encode/%s/%s' % (kind, 'text' if isinstance(x, (str, bytes)) else 'object')] += 1
                t.process(x)
            except Exception:
                injected['twin_calls_refused'] += 1
    finally:
        STATE['depth'] -= 1


def see_path(parser, expr, rng=None):
    """a parser with the opposite option parses the same string"""
    from pybufrkit.dataquery import NodePathParser
    STATE['depth'] += 1
    try:
        opposite = not getattr(parser, 'bare_id_matches_all', True)
        key = 'bare_id_matches_all=%s' % opposite
        table = pool()['parsers']
        if key not in table:
            table[key] = _mark(NodePathParser(bare_id_matches_all=opposite))
        injected['parse/' + key] += 1
        try:
            table[key].parse(expr)
        except Exception:
            injected['twin_calls_refused'] += 1
    finally:
        STATE['depth'] -= 1


# ------------------------------------------------------------------------------------------------ injection at the boundary
def _inject(cls, name, before):
    orig = cls.__dict__.get(name)
    if orig is None:
        return False

    def wrapper(self, *a, **kw):
        if (STATE['depth'] == 0 and STATE['rng'] is not None and injected['injections'] < STATE['quota']
                and not getattr(self, '_verif_twin', False) and STATE['rng'].random() < STATE['p']):
            injected['injections'] += 1
            try:
                before(self, a, kw)
            except Exception:
                injected['injection_failed'] += 1
        return orig(self, *a, **kw)
    wrapper.__wrapped__ = orig
    wrapper.__name__ = getattr(orig, '__name__', name)
    setattr(cls, name, wrapper)
    return True


def attach(seed, shard, tier='quick', p=None, quota=None, tables_rate=1.0):
    """outermost wrappers (attach after the other monitors).  Rate and quota bound the cost: a twin call costs about one real call."""
    if STATE['attached'] or os.environ.get('PYBUFRKIT_VERIF') != '1' or os.environ.get('VERIF_TWINS', '1') == '0':
        return STATE['attached']
    from pybufrkit.decoder import Decoder
    from pybufrkit.encoder import Encoder
    from pybufrkit.dataquery import NodePathParser
    STATE['rng'] = random.Random((int(seed) * 9176 + int(shard)) * 13 + 7)
    STATE['p'] = p if p is not None else 0.08
    STATE['quota'] = quota if quota is not None else (400 if tier == 'quick' else 6000)
    ok = _inject(Decoder, 'process', lambda self, a, kw: see_bytes(a[0] if a else kw.get('s')))
    ok = _inject(Encoder, 'process', lambda self, a, kw: see_encoder_input(a[0] if a else kw.get('s'))) and ok
    ok = _inject(NodePathParser, 'parse', lambda self, a, kw: see_path(self, a[0] if a else kw.get('path_expr'))) and ok
    from pybufrkit.tables import TableGroupCacheManager
    ok = _inject_classmethod(TableGroupCacheManager, 'get_table_group', see_table_numbers, rate=tables_rate) and ok
    STATE['attached'] = ok
    return ok


def see_table_numbers(a, kw, rng=None):
    """the other tables roots are asked for the same table numbers first (what another coder with a site directory does)"""
    from pybufrkit.tables import TableGroupCacheManager
    rng = rng or STATE['rng'] or random.Random(1)
    names = ('tables_root_dir', 'master_table_number', 'originating_centre', 'originating_subcentre', 'master_table_version',
             'local_table_version', 'normalize')
    args = dict(zip(names, a))
    args.update(kw)
    if args.get('tables_root_dir') and os.path.realpath(args['tables_root_dir']).startswith(os.path.realpath(os.path.dirname(roots()['wide']))):
        return
    STATE['depth'] += 1
    try:
        for which in rng.sample(['wide', 'reduced'], rng.choice([1, 2])):
            a2 = dict(args, tables_root_dir=roots()[which])
            a2['normalize'] = True
            injected['tables/%s' % which] += 1
            try:
                TableGroupCacheManager.get_table_group(**a2)
            except Exception:
                injected['twin_calls_refused'] += 1
    finally:
        STATE['depth'] -= 1


def _inject_classmethod(cls, name, before, rate=1.0):
    orig = cls.__dict__.get(name)
    if orig is None:
        return False
    f = orig.__func__

    def wrapper(c, *a, **kw):
        if (STATE['depth'] == 0 and STATE['rng'] is not None and injected['injections'] < STATE['quota']
                and STATE['rng'].random() < STATE['p'] * rate):
            injected['injections'] += 1
            try:
                before(a, kw)
            except Exception:
                injected['injection_failed'] += 1
        return f(c, *a, **kw)
    wrapper.__wrapped__ = f
    setattr(cls, name, classmethod(wrapper))
    return True


class paused(object):
    """with twins.paused(): ... - no injection inside (reference executions that must stay untouched)"""

    def __enter__(self):
        STATE['depth'] += 1

    def __exit__(self, *a):
        STATE['depth'] -= 1


def stats():
    return dict(attached=STATE['attached'], rate=STATE['p'], quota=STATE['quota'], injections=injected.get('injections', 0),
                by_kind={k: v for k, v in sorted(injected.items()) if '/' in k},
                twin_calls_refused=injected.get('twin_calls_refused', 0), injection_failed=injected.get('injection_failed', 0))
