"""Driver: shards a check over worker subprocesses, merges, classifies, writes evidence.

    ./check <ID> [--tier quick|thorough] [--seed N] [--shards N]
    ./check <ID> --replay replay/<ID>/<sig>.json

Exit 0 = held on everything explored (known findings are printed as KNOWN-FINDING lines),
exit 1 = VIOLATION (line printed), exit 2 = INCONCLUSIVE (deciding monitor/coverage not reached).
"""
import collections
import fnmatch
import hashlib
import importlib
import json
import os
import shutil
import subprocess
import sys
import time

VERIF = os.path.dirname(os.path.dirname(os.path.abspath(__file__)))
REPO = os.environ.get('VERIF_REPO', '/repo')
PY = os.environ.get('VERIF_PYTHON', '/venv/bin/python')
DEPS = os.path.join(VERIF, '.deps')
WHEELS = '/opt/veriftools/wheels'


def ensure_deps():
    if os.path.isdir(os.path.join(DEPS, 'icontract')):
        return True
    os.makedirs(DEPS, exist_ok=True)
    cmd = [PY, '-m', 'pip', 'install', '--quiet', '--no-index', '--find-links', WHEELS,
           '--target', DEPS, 'icontract']
    try:
        subprocess.run(cmd, stdout=subprocess.DEVNULL, stderr=subprocess.DEVNULL, timeout=300)
    except Exception:
        pass
    return os.path.isdir(os.path.join(DEPS, 'icontract'))


def worker_env():
    env = dict(os.environ)
    env['PYTHONPATH'] = os.pathsep.join([REPO, VERIF, DEPS])
    env['PYTHONHASHSEED'] = '0'
    env['PYTHONDONTWRITEBYTECODE'] = '1'
    env['PYBUFRKIT_VERIF'] = '1'
    env['VERIF_REPO'] = REPO
    env['VERIF_DIR'] = VERIF
    env.pop('PYTHONSTARTUP', None)
    return env


def load_known():
    p = os.path.join(VERIF, 'known_findings.json')
    if not os.path.exists(p):
        return []
    with open(p) as f:
        return json.load(f).get('findings', [])


def match_known(prop, sig, known):
    for k in known:
        if k.get('property') == prop and k.get('status') == 'known' and fnmatch.fnmatchcase(sig, k['key']):
            return k
    return None


def merge(results):
    m = dict(counters=collections.Counter(), distinct=set(), samples=[], sets=collections.defaultdict(set),
             violations=[], vcount=collections.Counter(), notes=[], tape_events=0, tape_pairs=0,
             tape_breaks=0, boundary_calls=collections.Counter(), boundary_raises=collections.Counter(),
             reach={}, attached=collections.Counter(), elapsed=0.0, first_breaks=[],
             contract_evals=collections.Counter(), contract_breaks=collections.Counter(),
             twin_injections=0, twin_kinds=collections.Counter(), twin_refused=0)
    for r in results:
        m['counters'].update(r['counters'])
        m['distinct'].update(r['distinct'])
        for s in r['samples']:
            if len(m['samples']) < 8:
                m['samples'].append(s)
        for k, v in r['sets'].items():
            m['sets'][k].update(x if isinstance(x, str) else json.dumps(x, sort_keys=True) for x in v)
        m['violations'] += r['violations']
        m['vcount'].update(r['vcount'])
        m['notes'] += r['notes']
        mon = r.get('monitor', {})
        t = mon.get('tape', {})
        m['tape_events'] += t.get('events', 0)
        m['tape_pairs'] = max(m['tape_pairs'], t.get('distinct_kind_width', 0))
        m['tape_breaks'] += t.get('invariant_breaks', 0)
        m['first_breaks'] += t.get('first_breaks', [])[:2]
        b = mon.get('boundary', {})
        m['boundary_calls'].update(b.get('calls', {}))
        m['boundary_raises'].update(b.get('raises', {}))
        cst = mon.get('contracts', {})
        m['contract_evals'].update(cst.get('evaluations', {}))
        m['contract_breaks'].update(cst.get('breaks', {}))
        tw = mon.get('twins', {})
        m['twin_injections'] += tw.get('injections', 0)
        m['twin_kinds'].update(tw.get('by_kind', {}))
        m['twin_refused'] += tw.get('twin_calls_refused', 0)
        for fn, (hit, tot) in mon.get('reach', {}).items():
            old = m['reach'].get(fn, [0, tot])
            m['reach'][fn] = [max(old[0], hit), tot]
        for k, v in mon.get('attached', {}).items():
            if v:
                m['attached'][k] += 1
        m['elapsed'] = max(m['elapsed'], r.get('elapsed', 0))
    return m


def run_check(prop, tier, seed, nshards=None, replay=None, quiet=False):
    t0 = time.time()
    prop = prop.upper()
    sys.path.insert(0, VERIF)
    os.environ.setdefault('VERIF_REPO', REPO)
    mod = importlib.import_module('mon.checks.' + prop.lower())
    ensure_deps()
    nshards = nshards or getattr(mod, 'SHARDS', {}).get(tier, 16)
    # the amount of work is set by the checks' case quotas (logical steps); BUDGET is what that work takes on an otherwise idle
    # 16-core machine, and the wall-clock cut-off handed to the shards is a generous multiple of it, so that a loaded machine
    # makes a run slower, not INCONCLUSIVE (VERIF_BUDGET_FACTOR, default 4)
    budget = getattr(mod, 'BUDGET', {}).get(tier, 40 if tier == 'quick' else 600)
    try:
        budget = budget * float(os.environ.get('VERIF_BUDGET_FACTOR', '4'))
    except ValueError:
        budget = budget * 4
    if replay:
        nshards = 1
    scratch = os.path.join(VERIF, '.scratch', '%s-%d' % (prop, os.getpid()))
    os.makedirs(scratch, exist_ok=True)
    env = worker_env()
    env['VERIF_SCRATCH'] = scratch
    os.environ['VERIF_SCRATCH'] = scratch
    try:
        from mon import twins
        twins.build_roots(scratch)          # tables roots / definitions directory of the differently configured twins
    except Exception as e:
        print('NOTE twins roots not built: %r' % (e,))
    procs = []
    for i in range(nshards):
        out = os.path.join(scratch, 'shard%d.json' % i)
        cmd = [PY, '-X', 'faulthandler', '-m', 'mon.worker', prop, tier, str(seed), str(i),
               str(nshards), str(budget), out]
        if replay:
            cmd.append(os.path.abspath(replay))
        log = open(os.path.join(scratch, 'shard%d.log' % i), 'w')
        procs.append((i, out, log, subprocess.Popen(cmd, cwd=VERIF, env=env, stdout=log, stderr=log)))
    results = []
    failed = []
    deadline = time.time() + budget * 1.5 + 120
    for i, out, log, p in procs:
        try:
            p.wait(timeout=max(1, deadline - time.time()))
        except subprocess.TimeoutExpired:
            p.kill()
            p.wait()
            failed.append((i, 'watchdog'))
        log.close()
        if os.path.exists(out):
            try:
                with open(out) as f:
                    results.append(json.load(f))
                continue
            except Exception:
                pass
        tail = ''
        try:
            with open(os.path.join(scratch, 'shard%d.log' % i)) as f:
                tail = f.read()[-1500:]
        except Exception:
            pass
        failed.append((i, 'no result (exit %s) %s' % (p.returncode, tail)))
    m = merge(results)
    known = load_known()

    # ---- classify violations by mechanism signature
    by_sig = collections.OrderedDict()
    for v in m['violations']:
        if v.get('advisory'):
            continue
        by_sig.setdefault(v['sig'], v)
    advis = collections.OrderedDict()
    for v in m['violations']:
        if v.get('advisory'):
            advis.setdefault(v['sig'], v)
    lines = []
    new = 0
    known_seen = []
    rdir = os.path.join(VERIF, 'replay', prop)
    for sig, v in by_sig.items():
        k = match_known(prop, sig, known)
        n = m['vcount'].get(sig, 1)
        if k:
            known_seen.append(k['key'])
            continue
        new += 1
        os.makedirs(rdir, exist_ok=True)
        path = os.path.join(rdir, hashlib.sha1(sig.encode()).hexdigest()[:12] + '.json')
        v = dict(v)
        v['property'] = prop
        v['count_in_run'] = n
        with open(path, 'w') as f:
            json.dump(v, f, indent=1, default=repr)
        lines.append('VIOLATION property=%s replay=%s sig=%s n=%d :: %s' % (
            prop, os.path.relpath(path, VERIF), sig, n, v['what'][:300]))
    for key in sorted(set(known_seen)):
        k = [x for x in known if x['key'] == key and x['property'] == prop][0]
        lines.append('KNOWN-FINDING: property=%s %s [%s]' % (prop, k['what'], key))
    for sig, v in advis.items():
        lines.append('ADVISORY property=%s sig=%s :: %s' % (prop, sig, v['what'][:200]))

    # ---- coverage thresholds -> inconclusive
    reasons = []
    c = m['counters']
    if not replay:
        for key, mn in getattr(mod, 'REQUIRED', {}).get(tier, getattr(mod, 'REQUIRED', {}).get('quick', {})).items():
            if c.get(key, 0) < mn:
                reasons.append('%s=%d<%d' % (key, c.get(key, 0), mn))
        if c.get('evaluations', 0) < 1:
            reasons.append('no evaluations')
        if len(m['distinct']) < 2:
            reasons.append('fewer than 2 distinct non-trivial cases')
    if c.get('attach_failed'):
        reasons.append('monitor attach failed / tree does not import')
    if c.get('harness_exception'):
        reasons.append('harness exception in %d shard(s)' % c['harness_exception'])
    if failed and not results:
        reasons.append('all shards failed')
    elif failed:
        # partial loss: reduced coverage, inconclusive only through REQUIRED above
        m['notes'].append('shards lost: %r' % ([f[0] for f in failed],))

    status = 'violated' if new else ('inconclusive' if reasons else 'held')

    # ---- evidence
    if not replay:
        ev = dict(property_id=prop, tier=tier, seed=int(seed), level=getattr(mod, 'LEVEL', 'exploration'),
                  coverage=dict(
                      evaluations=int(c.get('evaluations', 0)),
                      distinct_nontrivial=len(m['distinct']),
                      rule=getattr(mod, 'RULE', ''),
                      samples=m['samples'],
                      exhaustive=bool(getattr(mod, 'EXHAUSTIVE', {}).get(tier, False)) and not c.get('budget_exhausted') and not failed,
                      counters={k: int(v) for k, v in sorted(c.items())},
                      observed_sets={k: (len(v) if len(v) > 40 else sorted(v)) for k, v in sorted(m['sets'].items())},
                      monitors=dict(
                          attached_in_shards=dict(m['attached']),
                          boundary_calls=dict(m['boundary_calls']),
                          boundary_raises=dict(m['boundary_raises']),
                          tape_events=m['tape_events'], tape_distinct_kind_width=m['tape_pairs'],
                          tape_invariant_breaks=m['tape_breaks'],
                          contract_evaluations=dict(m['contract_evals']),
                          contract_breaks=dict(m['contract_breaks']),
                          twins=dict(injections=m['twin_injections'], twin_calls_refused=m['twin_refused'],
                                     twin_calls_by_kind=dict(m['twin_kinds'])),
                          anchor_lines_reached=m['reach']),
                      shards=nshards, shards_lost=len(failed),
                      status=status, inconclusive_reasons=reasons,
                      known_findings_seen=sorted(set(known_seen)),
                      advisories=sorted(advis)[:20],
                  ),
                  assumptions=list(getattr(mod, 'ASSUMPTIONS', [])),
                  wall_s=round(time.time() - t0, 2),
                  violations=new)
        if getattr(mod, 'EXHAUSTIVE_NOTE', None):
            ev['coverage']['exhaustive_scope'] = mod.EXHAUSTIVE_NOTE.get(tier, '')
        # evidence of a run against another tree (mutant validation) never overwrites the real one
        evdir = os.path.join(VERIF, 'evidence') if REPO == '/repo' else os.path.join(VERIF, '.scratch-mut', 'evidence')
        os.makedirs(evdir, exist_ok=True)
        with open(os.path.join(evdir, prop + '.json'), 'w') as f:
            json.dump(ev, f, indent=1, sort_keys=True)

    for ln in lines:
        print(ln)
    for nte in m['notes'][:6]:
        print('NOTE ' + str(nte)[:1200])
    for f in failed[:4]:
        print('SHARD-LOST %s: %s' % (f[0], str(f[1])[:600]))
    print('%s property=%s tier=%s seed=%s evaluations=%d distinct_nontrivial=%d violations=%d '
          'known=%d wall=%.1fs%s' % (status.upper(), prop, tier, seed, c.get('evaluations', 0),
                                      len(m['distinct']), new, len(set(known_seen)),
                                      time.time() - t0,
                                      (' reasons=' + ';'.join(reasons)) if reasons else ''))
    if status == 'inconclusive':
        print('INCONCLUSIVE property=%s reason=%s' % (prop, ';'.join(reasons)))
    shutil.rmtree(scratch, ignore_errors=True)
    try:
        os.rmdir(os.path.join(VERIF, '.scratch'))
    except OSError:
        pass
    return {'held': 0, 'violated': 1, 'inconclusive': 2}[status]


def main(argv=None):
    argv = list(sys.argv[1:] if argv is None else argv)
    if not argv:
        print(__doc__)
        return 2
    prop = argv.pop(0)
    if prop == 'selftest':
        sys.path.insert(0, VERIF)
        from mon import selftest
        return selftest.main()
    tier = os.environ.get('VERIF_TIER', 'quick')
    seed = os.environ.get('VERIF_SEED', '1')
    shards = None
    replay = None
    while argv:
        a = argv.pop(0)
        if a == '--tier':
            tier = argv.pop(0)
        elif a == '--seed':
            seed = argv.pop(0)
        elif a == '--shards':
            shards = int(argv.pop(0))
        elif a == '--replay':
            replay = argv.pop(0)
    try:
        seed = int(seed)
    except ValueError:
        seed = int(hashlib.sha1(str(seed).encode()).hexdigest()[:8], 16)
    if tier not in ('quick', 'thorough'):
        tier = 'quick'
    return run_check(prop, tier, seed, shards, replay)


if __name__ == '__main__':
    sys.exit(main())
