"""Comparison rules shared by the oracles (DESIGN 2.2, 2.6, 2.7)."""
import math
from fractions import Fraction


def ulp(x):
    return math.ulp(abs(x)) if x else 5e-324


def close(v, q):
    """implementation value v against R's exact value q (Fraction / int / bytes / None)."""
    if q is None or v is None:
        return v is None and q is None
    if isinstance(q, bytes):
        return v == q
    if isinstance(v, bool):
        return False
    if isinstance(v, int):
        return Fraction(v) == q
    if isinstance(v, float):
        if v != v or v in (float('inf'), float('-inf')):
            return False
        qq = float(q)
        return abs(v - qq) <= 4 * ulp(qq)
    return False


def jsonable(v):
    if isinstance(v, Fraction):
        return float(v) if v.denominator != 1 else int(v)
    if isinstance(v, bytes):
        return v.decode('latin-1')
    if isinstance(v, (list, tuple)):
        return [jsonable(x) for x in v]
    if isinstance(v, dict):
        return {str(k): jsonable(x) for k, x in v.items()}
    if isinstance(v, set):
        return sorted(jsonable(x) for x in v)
    return v


def td_of(msg):
    return msg.template_data.value


def impl_subset(td, k):
    return ([str(x) for x in td.decoded_descriptors_all_subsets[k]],
            td.decoded_values_all_subsets[k],
            dict(td.bitmap_links_all_subsets[k]))


def diff_subset(labels, values, links, rs):
    """Compare one implementation subset against R's Subset. Returns None or
    (why, index, observed, expected)."""
    if len(labels) != len(rs.labels) or len(values) != len(rs.values):
        n = min(len(labels), len(rs.labels))
        j = next((i for i in range(n) if labels[i] != rs.labels[i]), n)
        return ('length', j, (len(labels), len(values)), (len(rs.labels), len(rs.values)))
    if labels != rs.labels:
        j = next(i for i in range(len(labels)) if labels[i] != rs.labels[i])
        return ('labels', j, labels[j], rs.labels[j])
    for j, (a, q) in enumerate(zip(values, rs.values)):
        if not close(a, q):
            if j in rs.ambig and a is None:
                continue
            return ('values', j, a, q)
    if links is not None and links != rs.links:
        return ('links', None, sorted(links.items()), sorted(rs.links.items()))
    return None


def diff_message(msg, rsubsets, check_links=True):
    """Real decoded BufrMessage vs R's subsets: None or (subset, why, idx, obs, exp)."""
    td = td_of(msg)
    if len(td.decoded_values_all_subsets) != len(rsubsets):
        return (None, 'nsubsets', None, len(td.decoded_values_all_subsets), len(rsubsets))
    for k, rs in enumerate(rsubsets):
        l, v, lk = impl_subset(td, k)
        d = diff_subset(l, v, lk if check_links else None, rs)
        if d:
            return (k,) + d
    return None


def opsig(ids):
    """operators (code only) occurring in a template - used in mechanism signatures."""
    return ','.join(str(x) for x in sorted(set(i // 1000 for i in ids if 200000 <= i < 300000)))


def all_ones_equiv(a, b, meta):
    """2.6 / 2.7: values a (before) and b (after an encode+decode) identified when b is None and
    a equals the field's all-ones pattern, or strings equal after space padding."""
    if a == b:
        return True
    if isinstance(a, bytes) and isinstance(b, bytes):
        n = max(len(a), len(b))
        return a.ljust(n) == b.ljust(n)
    return False
